import MesaModel.Proofs.LegacySet
/-! Helper lemmas for C08 / C18-legacy: the representation invariant is kept by every call. -/
namespace Mesa.Legacy

open Grid

@[simp] theorem upd_same {β : Type} (f : Coord → β) (p : Coord) (v : β) : upd f p v p = v := by simp [upd]
theorem upd_other {β : Type} (f : Coord → β) (p q : Coord) (v : β) (h : q ≠ p) : upd f p v q = f q := by simp [upd, h]
@[simp] theorem updA_same {β : Type} (f : Aid → β) (a : Aid) (v : β) : updA f a v a = v := by simp [updA]
theorem updA_other {β : Type} (f : Aid → β) (a b : Aid) (v : β) (h : b ≠ a) : updA f a v b = f b := by simp [updA, h]

/-! ### the cells of the grid -/

theorem mem_allCells (g : Grid) (p : Coord) : p ∈ g.allCells ↔ g.inGrid p := by
  simp only [allCells, List.mem_flatMap, List.mem_range, List.mem_map, inGrid]
  constructor
  · rintro ⟨x, hx, y, hy, rfl⟩
    simp only [Int.ofNat_eq_natCast]
    omega
  · intro ⟨h1, h2, h3, h4⟩
    refine ⟨p.1.toNat, by omega, p.2.toNat, by omega, ?_⟩
    apply Prod.ext <;> simp only [Int.ofNat_eq_natCast] <;> omega

theorem sorted_range_map (n : Nat) (x : Int) :
    SortedSet ((List.range n).map fun (y : Nat) => ((x, Int.ofNat y) : Coord)) := by
  unfold SortedSet
  rw [List.pairwise_map]
  have : (List.range n).Pairwise (· < ·) := List.pairwise_lt_range
  refine List.Pairwise.imp ?_ this
  intro a b hab
  simp only [clt, Int.ofNat_eq_natCast, Bool.or_eq_true, decide_eq_true_eq, Bool.and_eq_true, beq_iff_eq, true_and]
  omega

theorem sorted_allCells (g : Grid) : SortedSet g.allCells := by
  unfold allCells SortedSet
  rw [List.pairwise_flatMap]
  refine ⟨fun x _ => sorted_range_map _ _, ?_⟩
  have : (List.range g.w.toNat).Pairwise (· < ·) := List.pairwise_lt_range
  refine List.Pairwise.imp ?_ this
  intro a b hab p hp q hq
  simp only [List.mem_map, List.mem_range] at hp hq
  obtain ⟨y, _, rfl⟩ := hp
  obtain ⟨y', _, rfl⟩ := hq
  simp only [clt, Int.ofNat_eq_natCast, Bool.or_eq_true, decide_eq_true_eq, Bool.and_eq_true, beq_iff_eq]
  omega

theorem oob_iff (g : Grid) (p : Coord) : g.oob p = false ↔ g.inGrid p := by
  simp only [oob, inGrid, Bool.or_eq_false_iff, decide_eq_false_iff_not]
  omega

theorem mem_buildEmpties (g : Grid) (p : Coord) : p ∈ g.buildEmpties ↔ g.inGrid p ∧ g.content p = [] := by
  simp [buildEmpties, mem_allCells, isCellEmpty]

theorem sorted_buildEmpties (g : Grid) : SortedSet g.buildEmpties :=
  List.Pairwise.filter _ (sorted_allCells g)

/-! ### the invariant holds initially and is kept by `place_agent` / `remove_agent` -/

/-- the fields no call ever changes -/
def SameCfg (g g' : Grid) : Prop :=
  g'.w = g.w ∧ g'.h = g.h ∧ g'.torus = g.torus ∧ g'.multi = g.multi ∧ g'.cutoff = g.cutoff

theorem SameCfg.refl (g : Grid) : SameCfg g g := ⟨rfl, rfl, rfl, rfl, rfl⟩
theorem SameCfg.trans {g g' g'' : Grid} (h : SameCfg g g') (h' : SameCfg g' g'') : SameCfg g g'' := by
  obtain ⟨a, b, c, d, e⟩ := h
  obtain ⟨a', b', c', d', e'⟩ := h'
  exact ⟨a'.trans a, b'.trans b, c'.trans c, d'.trans d, e'.trans e⟩
theorem SameCfg.inGrid {g g' : Grid} (h : SameCfg g g') (p : Coord) : g'.inGrid p ↔ g.inGrid p := by
  unfold SameCfg at h; unfold Grid.inGrid; rw [h.1, h.2.1]

theorem inv_init (w h : Int) (torus multi : Bool) (cutoff : Nat) : Inv (init w h torus multi cutoff) where
  pos_content := by simp [init]
  in_grid := by simp [init]
  nodup := by simp [init]
  single := by simp [init]
  mask := by simp [init]
  empties := by simp [init]

theorem place_cfg (g : Grid) (a : Aid) (p : Coord) : SameCfg g (g.place a p).1 := by
  unfold place SameCfg; split <;> split <;> simp

theorem remove_cfg (g : Grid) (a : Aid) : SameCfg g (g.remove a).1 := by
  unfold remove SameCfg
  split
  · split <;> simp
  · split
    · split
      · simp only []; split <;> simp
      · simp
    · simp

theorem place_inv (g : Grid) (a : Aid) (p : Coord) (hi : Inv g) (hpos : g.pos a = none) (hp : g.inGrid p) :
    Inv (g.place a p).1 := by
  have hnot : ∀ q, a ∉ g.content q := fun q hq => by
    have := (hi.pos_content a q).mpr hq; rw [hpos] at this; cases this
  unfold place
  by_cases hm : g.multi = true
  · simp only [hm, if_true, hpos, true_or]
    refine ⟨?_, ?_, ?_, ?_, ?_, ?_⟩
    · intro b q
      simp only [updA, upd]
      by_cases hb : b = a <;> by_cases hq : q = p
      · subst hb; subst hq; simp
      · subst hb; simp [hq, hnot q]; exact fun h => hq h.symm
      · subst hq; simp [hb, hi.pos_content b q]
      · simp [hb, hq, hi.pos_content b q]
    · intro q
      simp only [upd]
      by_cases hq : q = p
      · subst hq; intro _; exact hp
      · simp [hq]; exact hi.in_grid q
    · intro q
      simp only [upd]
      by_cases hq : q = p
      · subst hq; simp only [if_true]
        exact List.nodup_append.mpr ⟨hi.nodup q, by simp, by simp; exact fun x hx e => hnot q (e ▸ hx)⟩
      · simp [hq]; exact hi.nodup q
    · intro h; simp at h
    · intro q hq'
      simp only [upd]
      by_cases hq : q = p
      · subst hq; simp
      · simp [hq]; exact hi.mask q hq'
    · intro e he
      simp only [Option.map_eq_some_iff] at he
      obtain ⟨e0, he0, rfl⟩ := he
      obtain ⟨hs, hmem⟩ := hi.empties e0 he0
      refine ⟨sorted_sdiscard p e0 hs, ?_⟩
      intro q
      simp only [mem_sdiscard, hmem, upd]
      by_cases hq : q = p
      · subst hq; simp
      · simp [hq]; exact fun _ => Iff.rfl
  · simp only [Bool.not_eq_true] at hm
    simp only [hm, Bool.false_eq_true, if_false]
    by_cases he : g.isCellEmpty p = true
    · simp only [he, if_true]
      have hce : g.content p = [] := by simpa [isCellEmpty] using he
      refine ⟨?_, ?_, ?_, ?_, ?_, ?_⟩
      · intro b q
        simp only [updA, upd]
        by_cases hb : b = a <;> by_cases hq : q = p
        · subst hb; subst hq; simp
        · subst hb; simp [hq, hnot q]; exact fun h => hq h.symm
        · subst hq; simp [hb, hi.pos_content b q, hce]
        · simp [hb, hq, hi.pos_content b q]
      · intro q
        simp only [upd]
        by_cases hq : q = p
        · subst hq; intro _; exact hp
        · simp [hq]; exact hi.in_grid q
      · intro q
        simp only [upd]
        by_cases hq : q = p
        · subst hq; simp
        · simp [hq]; exact hi.nodup q
      · intro _ q
        simp only [upd]
        by_cases hq : q = p
        · subst hq; simp
        · simp [hq]; exact hi.single hm q
      · intro q hq'
        simp only [upd]
        by_cases hq : q = p
        · subst hq; simp
        · simp [hq]; exact hi.mask q hq'
      · intro e he
        simp only [Option.map_eq_some_iff] at he
        obtain ⟨e0, he0, rfl⟩ := he
        obtain ⟨hs, hmem⟩ := hi.empties e0 he0
        refine ⟨sorted_sdiscard p e0 hs, ?_⟩
        intro q
        simp only [mem_sdiscard, hmem, upd]
        by_cases hq : q = p
        · subst hq; simp
        · simp [hq]; exact fun _ => Iff.rfl
    · simp only [he, Bool.false_eq_true, if_false]
      exact hi

theorem remove_inv (g : Grid) (a : Aid) (hi : Inv g) : Inv (g.remove a).1 := by
  unfold remove
  cases hpa : g.pos a with
  | none => simp only []; split <;> exact hi
  | some p =>
    simp only []
    have hap : a ∈ g.content p := (hi.pos_content a p).mp hpa
    have hpg : g.inGrid p := hi.in_grid p (List.ne_nil_of_mem hap)
    have hother : ∀ q, q ≠ p → a ∉ g.content q := fun q hq h => by
      have := (hi.pos_content a q).mpr h; rw [hpa] at this; exact hq (Option.some.inj this).symm
    by_cases hm : g.multi = true
    · rw [if_pos hm, if_pos hap]
      have hnd := hi.nodup p
      have key : Inv { g with content := upd g.content p ((g.content p).erase a), pos := updA g.pos a none,
                              empties := if ((g.content p).erase a).isEmpty then g.empties.map (sadd p) else g.empties,
                              mask := if ((g.content p).erase a).isEmpty then upd g.mask p true else g.mask } := by
        refine ⟨?_, ?_, ?_, ?_, ?_, ?_⟩
        · intro b q
          simp only [updA, upd]
          by_cases hb : b = a <;> by_cases hq : q = p
          · subst hb; subst hq; simp [hnd.mem_erase_iff]
          · subst hb; simp [hq, hother q hq]
          · subst hq; simp [hb, hi.pos_content b q, List.mem_erase_of_ne hb]
          · simp [hb, hq, hi.pos_content b q]
        · intro q
          simp only [upd]
          by_cases hq : q = p
          · subst hq; intro _; exact hpg
          · simp [hq]; exact hi.in_grid q
        · intro q
          simp only [upd]
          by_cases hq : q = p
          · subst hq; simp only [if_true]; exact hnd.erase a
          · simp [hq]; exact hi.nodup q
        · intro h; simp [hm] at h
        · intro q hq'
          by_cases hq : q = p
          · subst hq
            by_cases hc : ((g.content q).erase a).isEmpty = true
            · simp [hc, upd]
            · simp only [hc, Bool.false_eq_true, if_false, upd, if_true]
              rw [hi.mask q hq']
              simp only [List.isEmpty_eq_false_iff]
              exact List.ne_nil_of_mem hap
          · have : (if ((g.content p).erase a).isEmpty = true then upd g.mask p true else g.mask) q = g.mask q := by
              split <;> simp [upd, hq]
            simp only [this, upd, hq, if_false]
            exact hi.mask q hq'
        · intro e he
          by_cases hc : ((g.content p).erase a).isEmpty = true
          · simp only [hc, if_true, Option.map_eq_some_iff] at he
            obtain ⟨e0, he0, rfl⟩ := he
            obtain ⟨hs, hmem⟩ := hi.empties e0 he0
            refine ⟨sorted_sadd p e0 hs, ?_⟩
            intro q
            simp only [mem_sadd, hmem, upd]
            by_cases hq : q = p
            · subst hq; simp only [if_true, true_or, true_iff]
              exact ⟨hpg, by simpa using hc⟩
            · simp [hq]; exact fun _ => Iff.rfl
          · simp only [hc, Bool.false_eq_true, if_false] at he
            obtain ⟨hs, hmem⟩ := hi.empties e he
            refine ⟨hs, ?_⟩
            intro q
            simp only [hmem, upd]
            by_cases hq : q = p
            · subst hq; simp only [if_true]
              have h1 : g.content q ≠ [] := List.ne_nil_of_mem hap
              have h2 : (g.content q).erase a ≠ [] := by simpa using hc
              simp [h1, h2]
            · simp [hq]; exact fun _ => Iff.rfl
      by_cases hc : ((g.content p).erase a).isEmpty = true
      · simp only [hc, if_true] at key ⊢; exact key
      · simp only [hc, Bool.false_eq_true, if_false] at key ⊢; exact key
    · simp only [Bool.not_eq_true] at hm
      simp only [hm, Bool.false_eq_true, if_false]
      have hlen := hi.single hm p
      have hcp : g.content p = [a] := by
        match hc : g.content p, hap, hlen with
        | [x], hap, _ => simp at hap; rw [hap]
        | _ :: _ :: _, _, hlen => simp at hlen
      refine ⟨?_, ?_, ?_, ?_, ?_, ?_⟩
      · intro b q
        simp only [updA, upd]
        by_cases hb : b = a <;> by_cases hq : q = p
        · subst hb; subst hq; simp
        · subst hb; simp [hq, hother q hq]
        · subst hq; simp [hb, hi.pos_content b q, hcp]
        · simp [hb, hq, hi.pos_content b q]
      · intro q
        simp only [upd]
        by_cases hq : q = p
        · subst hq; simp
        · simp [hq]; exact hi.in_grid q
      · intro q
        simp only [upd]
        by_cases hq : q = p
        · subst hq; simp
        · simp [hq]; exact hi.nodup q
      · intro _ q
        simp only [upd]
        by_cases hq : q = p
        · subst hq; simp
        · simp [hq]; exact hi.single hm q
      · intro q hq'
        simp only [upd]
        by_cases hq : q = p
        · subst hq; simp
        · simp [hq]; exact hi.mask q hq'
      · intro e he
        simp only [Option.map_eq_some_iff] at he
        obtain ⟨e0, he0, rfl⟩ := he
        obtain ⟨hs, hmem⟩ := hi.empties e0 he0
        refine ⟨sorted_sadd p e0 hs, ?_⟩
        intro q
        simp only [mem_sadd, hmem, upd]
        by_cases hq : q = p
        · subst hq; simp; exact hpg
        · simp [hq]; exact fun _ => Iff.rfl

/-! ### what `remove_agent` / `place_agent` / `torus_adj` return -/

theorem remove_err (g : Grid) (a : Aid) (e : Err) (h : (g.remove a).2 = .err e) : (g.remove a).1 = g := by
  unfold remove at h ⊢
  split at h
  · split at h <;> simp_all
  · split at h
    · split at h
      · simp only [] at h; split at h <;> simp at h
      · simp_all
    · simp at h

theorem remove_ok_pos (g : Grid) (a : Aid) (h : (g.remove a).2 = .ok) : (g.remove a).1.pos a = none := by
  unfold remove at h ⊢
  split
  · rename_i hp; split <;> simp_all
  · split
    · split
      · simp only []; split <;> simp
      · simp_all
    · simp

theorem remove_pos_other (g : Grid) (a b : Aid) (hb : b ≠ a) : (g.remove a).1.pos b = g.pos b := by
  unfold remove
  split
  · split <;> rfl
  · split
    · split
      · simp only []; split <;> simp [updA, hb]
      · rfl
    · simp [updA, hb]

theorem remove_content_other (g : Grid) (a : Aid) (q : Coord) (hq : g.pos a ≠ some q) :
    (g.remove a).1.content q = g.content q := by
  unfold remove
  split
  · split <;> rfl
  · rename_i p hp
    have : q ≠ p := fun e => hq (e ▸ hp)
    split
    · split
      · simp only []; split <;> simp [upd, this]
      · rfl
    · simp [upd, this]

theorem remove_ok_of_inv (g : Grid) (a : Aid) (hi : Inv g) (h : g.pos a ≠ none ∨ g.multi = false) :
    (g.remove a).2 = .ok := by
  unfold remove
  split
  · rename_i hp; split
    · rename_i hm; rcases h with h | h
      · exact absurd hp h
      · simp [hm] at h
    · rfl
  · rename_i p hp
    have hap : a ∈ g.content p := (hi.pos_content a p).mp hp
    simp only [hap, if_true]
    repeat (first | rfl | split)

theorem place_err (g : Grid) (a : Aid) (p : Coord) (e : Err) (h : (g.place a p).2 = .err e) : (g.place a p).1 = g := by
  unfold place at h ⊢
  split
  · split <;> simp_all
  · split <;> simp_all

theorem place_ok_pos (g : Grid) (a : Aid) (p : Coord) (hpos : g.pos a = none) (h : (g.place a p).2 = .ok) :
    (g.place a p).1.pos a = some p := by
  unfold place at h ⊢
  split
  · simp [hpos]
  · split
    · simp
    · simp_all

theorem place_pos_other (g : Grid) (a b : Aid) (p : Coord) (hb : b ≠ a) : (g.place a p).1.pos b = g.pos b := by
  unfold place
  split
  · split <;> simp [updA, hb]
  · split <;> simp [updA, hb]

/-- on a MultiGrid `place_agent` never raises; on a SingleGrid it raises exactly on an occupied cell -/
theorem place_res (g : Grid) (a : Aid) (p : Coord) :
    (g.place a p).2 = if g.multi = false ∧ g.content p ≠ [] then .err .full else .ok := by
  unfold place
  by_cases hm : g.multi = true
  · simp [hm]; split <;> rfl
  · simp only [Bool.not_eq_true] at hm
    simp only [hm, Bool.false_eq_true, if_false, isCellEmpty, true_and]
    by_cases hc : g.content p = [] <;> simp [hc]

theorem torusAdj_ok (g : Grid) (hw : 0 < g.w) (hh : 0 < g.h) (p q : Coord) (h : g.torusAdj p = .ok q) :
    g.inGrid q ∧ ((g.inGrid p ∧ q = p) ∨ (¬ g.inGrid p ∧ g.torus = true ∧ q = (p.1 % g.w, p.2 % g.h))) := by
  unfold torusAdj at h
  by_cases ho : g.oob p = false
  · have hin := (oob_iff g p).mp ho
    simp [ho] at h; subst h; exact ⟨hin, Or.inl ⟨hin, rfl⟩⟩
  · have hnin : ¬ g.inGrid p := fun hin => ho ((oob_iff g p).mpr hin)
    simp only [Bool.not_eq_false] at ho
    by_cases ht : g.torus = true
    · simp [ho, ht] at h; subst h
      refine ⟨⟨Int.emod_nonneg _ (by omega), Int.emod_lt_of_pos _ hw, Int.emod_nonneg _ (by omega), Int.emod_lt_of_pos _ hh⟩,
        Or.inr ⟨hnin, ht, rfl⟩⟩
    · simp [ho, ht] at h

theorem torusAdj_err (g : Grid) (p : Coord) (e : Err) (h : g.torusAdj p = .error e) :
    e = .oob ∧ ¬ g.inGrid p ∧ g.torus = false := by
  unfold torusAdj at h
  by_cases ho : g.oob p = false
  · simp [ho] at h
  · have hnin : ¬ g.inGrid p := fun hin => ho ((oob_iff g p).mpr hin)
    simp only [Bool.not_eq_false] at ho
    by_cases ht : g.torus = true
    · simp [ho, ht] at h
    · simp [ho, ht] at h; exact ⟨h.symm, hnin, by simpa using ht⟩

theorem torusAdj_inGrid (g : Grid) (p : Coord) (h : g.inGrid p) : g.torusAdj p = .ok p := by
  unfold torusAdj; simp [(oob_iff g p).mpr h]

/-! ### the movers -/

/-- `remove_agent` then `place_agent` at an in-grid cell -/
theorem removePlace_inv (g : Grid) (a : Aid) (q : Coord) (hi : Inv g) (hq : g.inGrid q) :
    Inv (match g.remove a with
      | (g1, .err e) => (g1, Res.err e)
      | (g1, .ok) => g1.place a q).1 := by
  have h1 := remove_inv g a hi
  have hc := remove_cfg g a
  rcases hr : g.remove a with ⟨g1, r⟩
  rw [hr] at h1 hc
  cases r with
  | err e => exact h1
  | ok =>
    have hp : g1.pos a = none := by have := remove_ok_pos g a (by rw [hr]); rwa [hr] at this
    exact place_inv g1 a q h1 hp ((hc.inGrid q).mpr hq)

theorem removePlace_cfg (g : Grid) (a : Aid) (q : Coord) :
    SameCfg g (match g.remove a with
      | (g1, .err e) => (g1, Res.err e)
      | (g1, .ok) => g1.place a q).1 := by
  have hc := remove_cfg g a
  rcases hr : g.remove a with ⟨g1, r⟩
  rw [hr] at hc
  cases r with
  | err e => exact hc
  | ok => exact hc.trans (place_cfg g1 a q)

theorem moveBase_inv (g : Grid) (a : Aid) (p : Coord) (hw : 0 < g.w) (hh : 0 < g.h) (hi : Inv g) :
    Inv (g.moveBase a p).1 := by
  unfold moveBase
  cases ht : g.torusAdj p with
  | error e => exact hi
  | ok q => exact removePlace_inv g a q hi (torusAdj_ok g hw hh p q ht).1

theorem moveBase_cfg (g : Grid) (a : Aid) (p : Coord) : SameCfg g (g.moveBase a p).1 := by
  unfold moveBase
  cases ht : g.torusAdj p with
  | error e => exact SameCfg.refl g
  | ok q => exact removePlace_cfg g a q

theorem move_inv (g : Grid) (a : Aid) (p : Coord) (hw : 0 < g.w) (hh : 0 < g.h) (hi : Inv g) :
    Inv (g.move a p).1 := by
  unfold move
  split
  · exact moveBase_inv g a p hw hh hi
  · cases ht : g.torusAdj p with
    | error e => exact hi
    | ok q =>
      simp only []
      split
      · exact hi
      · exact moveBase_inv g a q hw hh hi

theorem move_cfg (g : Grid) (a : Aid) (p : Coord) : SameCfg g (g.move a p).1 := by
  unfold move
  split
  · exact moveBase_cfg g a p
  · cases ht : g.torusAdj p with
    | error e => exact SameCfg.refl g
    | ok q =>
      simp only []
      split
      · exact SameCfg.refl g
      · exact moveBase_cfg g a q

theorem swap_inv_cfg (g : Grid) (a b : Aid) (hi : Inv g) : Inv (g.swap a b).1 ∧ SameCfg g (g.swap a b).1 := by
  unfold swap
  cases hpa : g.pos a with
  | none => exact ⟨hi, SameCfg.refl g⟩
  | some pa =>
    cases hpb : g.pos b with
    | none => exact ⟨hi, SameCfg.refl g⟩
    | some pb =>
      simp only []
      split
      · exact ⟨hi, SameCfg.refl g⟩
      · rename_i hne
        have hab : a ≠ b := fun e => hne (by subst e; rw [hpa] at hpb; exact Option.some.inj hpb)
        have hpag : g.inGrid pa := hi.in_grid pa (List.ne_nil_of_mem ((hi.pos_content a pa).mp hpa))
        have hpbg : g.inGrid pb := hi.in_grid pb (List.ne_nil_of_mem ((hi.pos_content b pb).mp hpb))
        have i1 := remove_inv g a hi
        have c1 := remove_cfg g a
        have p1 := remove_ok_pos g a
        have o1 := remove_pos_other g a b (Ne.symm hab)
        rcases hr1 : g.remove a with ⟨g1, r1⟩
        rw [hr1] at i1 c1 p1 o1
        cases r1 with
        | err e => exact ⟨i1, c1⟩
        | ok =>
          simp only [] at p1 o1 ⊢
          have i2 := remove_inv g1 b i1
          have c2 := remove_cfg g1 b
          have p2 := remove_ok_pos g1 b
          have o2 := remove_pos_other g1 b a hab
          rcases hr2 : g1.remove b with ⟨g2, r2⟩
          rw [hr2] at i2 c2 p2 o2
          cases r2 with
          | err e => exact ⟨i2, c1.trans c2⟩
          | ok =>
            simp only [] at p2 o2 ⊢
            have ha2 : g2.pos a = none := by rw [o2]; exact p1 trivial
            have c12 := c1.trans c2
            have i3 := place_inv g2 a pb i2 ha2 ((c12.inGrid pb).mpr hpbg)
            have c3 := place_cfg g2 a pb
            have o3 := place_pos_other g2 a b pb (Ne.symm hab)
            rcases hr3 : g2.place a pb with ⟨g3, r3⟩
            rw [hr3] at i3 c3 o3
            cases r3 with
            | err e => exact ⟨i3, c12.trans c3⟩
            | ok =>
              simp only [] at o3 ⊢
              have hb3 : g3.pos b = none := by rw [o3]; exact p2 trivial
              have c123 := c12.trans c3
              exact ⟨place_inv g3 b pa i3 hb3 ((c123.inGrid pa).mpr hpag), c123.trans (place_cfg g3 b pa)⟩

/-! ### reading `empties` -/

theorem readEmpties_spec (g : Grid) (hi : Inv g) :
    SortedSet g.readEmpties.2 ∧ ∀ p, p ∈ g.readEmpties.2 ↔ g.inGrid p ∧ g.content p = [] := by
  unfold readEmpties
  cases he : g.empties with
  | some e => exact hi.empties e he
  | none => exact ⟨sorted_buildEmpties g, mem_buildEmpties g⟩

theorem readEmpties_obs (g : Grid) : ObsEq g g.readEmpties.1 := by
  unfold readEmpties ObsEq
  cases g.empties <;> simp

theorem readEmpties_cfg (g : Grid) : SameCfg g g.readEmpties.1 := by
  have := readEmpties_obs g
  exact ⟨this.1, this.2.1, this.2.2.1, this.2.2.2.1, this.2.2.2.2.1⟩

theorem readEmpties_inv (g : Grid) (hi : Inv g) : Inv g.readEmpties.1 := by
  unfold readEmpties
  cases he : g.empties with
  | some e => exact hi
  | none =>
    refine ⟨hi.pos_content, hi.in_grid, hi.nodup, hi.single, hi.mask, ?_⟩
    intro e h
    simp only [Option.some.injEq] at h
    subst h
    exact ⟨sorted_buildEmpties g, mem_buildEmpties g⟩

theorem readEmpties_built (g : Grid) : g.readEmpties.1.empties = some g.readEmpties.2 := by
  unfold readEmpties
  cases he : g.empties <;> simp [he]

theorem pickLoop_spec (g : Grid) (hw : 0 < g.w) (hh : 0 < g.h) (s : Script) (q : Coord) (h : g.pickLoop s = some q) :
    g.inGrid q ∧ g.content q = [] := by
  induction s using pickLoop.induct g with
  | case1 x y rest p hp =>
    rw [pickLoop, if_pos hp] at h
    cases h
    exact ⟨⟨Int.emod_nonneg _ (by omega), Int.emod_lt_of_pos _ hw, Int.emod_nonneg _ (by omega), Int.emod_lt_of_pos _ hh⟩,
      by simpa [isCellEmpty] using hp⟩
  | case2 x y rest p hp ih =>
    rw [pickLoop, if_neg hp] at h
    exact ih h
  | case3 s hs =>
    unfold pickLoop at h
    split at h
    · exact absurd rfl (hs _ _ _)
    · cases h

/-! ### `remove_agent` followed by `place_agent`: what comes out -/

/-- the tail shared by `_Grid.move_agent` and `move_to_empty` -/
def removePlace (g : Grid) (a : Aid) (q : Coord) : Grid × Res :=
  match g.remove a with
  | (g1, .err e) => (g1, .err e)
  | (g1, .ok) => g1.place a q

theorem moveBase_eq (g : Grid) (a : Aid) (p : Coord) :
    g.moveBase a p = match g.torusAdj p with
      | .error e => (g, .err e)
      | .ok q => removePlace g a q := rfl

theorem removePlace_ok_pos (g : Grid) (a : Aid) (q : Coord) (h : (removePlace g a q).2 = .ok) :
    (removePlace g a q).1.pos a = some q := by
  unfold removePlace at h ⊢
  have p1 := remove_ok_pos g a
  rcases hr : g.remove a with ⟨g1, r⟩
  rw [hr] at p1 h
  cases r with
  | err e => simp at h
  | ok => exact place_ok_pos g1 a q (p1 rfl) h

theorem removePlace_pos_other (g : Grid) (a b : Aid) (q : Coord) (hb : b ≠ a) :
    (removePlace g a q).1.pos b = g.pos b := by
  unfold removePlace
  have o1 := remove_pos_other g a b hb
  rcases hr : g.remove a with ⟨g1, r⟩
  rw [hr] at o1
  cases r with
  | err e => exact o1
  | ok => simp only [] at o1 ⊢; rw [place_pos_other g1 a b q hb, o1]

/-- if the target is free (or holds only the mover itself) the pair never half-fails:
    an error means `remove_agent` raised before changing anything -/
theorem removePlace_err (g : Grid) (a : Aid) (q : Coord) (hi : Inv g)
    (hfree : g.multi = true ∨ g.content q = [] ∨ g.content q = [a]) (e : Err)
    (h : (removePlace g a q).2 = .err e) : (removePlace g a q).1 = g := by
  unfold removePlace at h ⊢
  have e1 := remove_err g a
  have hc := remove_cfg g a
  have hco := remove_content_other g a q
  have hps := remove_ok_pos g a
  rcases hr : g.remove a with ⟨g1, r⟩
  rw [hr] at e1 h hc hco hps
  cases r with
  | err e' => exact e1 e' rfl
  | ok =>
    exfalso
    simp only [] at h hco hps
    rw [place_res] at h
    split at h
    · rename_i hh
      obtain ⟨hm, hne⟩ := hh
      rw [hc.2.2.2.1] at hm
      rcases hfree with hf | hf | hf
      · rw [hm] at hf; cases hf
      · apply hne
        by_cases hpq : g.pos a = some q
        · have := (hi.pos_content a q).mp hpq; rw [hf] at this; cases this
        · rw [hco hpq, hf]
      · have hpq : g.pos a = some q := (hi.pos_content a q).mpr (by rw [hf]; simp)
        -- the mover was in q: after removal the cell is empty
        apply hne
        have i1 := remove_inv g a hi
        rw [hr] at i1
        have hsub : ∀ x, x ∈ g1.content q → False := by
          intro x hx
          have hx' := (i1.pos_content x q).mpr hx
          by_cases hxa : x = a
          · subst hxa; rw [hps trivial] at hx'; cases hx'
          · have := remove_pos_other g a x hxa
            rw [hr] at this
            simp only [] at this
            rw [this] at hx'
            have := (hi.pos_content x q).mp hx'
            rw [hf] at this
            simp at this
            exact hxa this
        cases hcq : g1.content q with
        | nil => rfl
        | cons x xs => exact absurd (by rw [hcq]; simp) (hsub x)
    · cases h

theorem removePlace_inv' (g : Grid) (a : Aid) (q : Coord) (hi : Inv g) (hq : g.inGrid q) : Inv (removePlace g a q).1 :=
  removePlace_inv g a q hi hq

theorem removePlace_cfg' (g : Grid) (a : Aid) (q : Coord) : SameCfg g (removePlace g a q).1 :=
  removePlace_cfg g a q

/-! ### `move_to_empty` -/

theorem moveToEmpty_cases (g : Grid) (a : Aid) (s : Script) (hw : 0 < g.w) (hh : 0 < g.h) (hi : Inv g) :
    (g.moveToEmpty a s = (g.readEmpties.1, .err .noEmpty) ∧ ∀ p, g.inGrid p → g.content p ≠ [])
    ∨ (g.moveToEmpty a s = (g.readEmpties.1, .err .script) ∧ ∃ p, g.inGrid p ∧ g.content p = [])
    ∨ ∃ q, g.inGrid q ∧ g.content q = [] ∧ g.moveToEmpty a s = removePlace g.readEmpties.1 a q := by
  have hspec := readEmpties_spec g hi
  have hobs := readEmpties_obs g
  unfold moveToEmpty
  rcases hre : g.readEmpties with ⟨g0, es⟩
  rw [hre] at hspec hobs
  simp only [] at hspec hobs ⊢
  obtain ⟨hw0, hh0, _, _, _, hc0, _, _⟩ := hobs
  by_cases hlen : es.length = 0
  · left
    simp only [hlen, if_true, true_and]
    intro p hp hcp
    have : p ∈ es := (hspec.2 p).mpr ⟨hp, hcp⟩
    have : es = [] := List.eq_nil_of_length_eq_zero hlen
    simp_all
  · right
    simp only [hlen, if_false]
    -- the target
    generalize htg : (if es.length > g0.cutoff then g0.pickLoop s
        else match below s es.length with
          | none => none
          | some (i, _) => es[i]?) = target
    cases target with
    | none =>
      left
      refine ⟨rfl, ?_⟩
      cases es with
      | nil => simp at hlen
      | cons p ps => exact ⟨p, (hspec.2 p).mp (by simp)⟩
    | some q =>
      right
      refine ⟨q, ?_, ?_, rfl⟩
      · split at htg
        · have := pickLoop_spec g0 (by omega) (by omega) s q htg
          have h1 := this.1
          unfold Grid.inGrid at h1 ⊢; omega
        · split at htg
          · cases htg
          · have hm : q ∈ es := List.mem_of_getElem? htg
            exact ((hspec.2 q).mp hm).1
      · split at htg
        · have := pickLoop_spec g0 (by omega) (by omega) s q htg
          rw [← hc0]; exact this.2
        · split at htg
          · cases htg
          · have hm : q ∈ es := List.mem_of_getElem? htg
            exact ((hspec.2 q).mp hm).2

theorem moveToEmpty_inv_cfg (g : Grid) (a : Aid) (s : Script) (hw : 0 < g.w) (hh : 0 < g.h) (hi : Inv g) :
    Inv (g.moveToEmpty a s).1 ∧ SameCfg g (g.moveToEmpty a s).1 := by
  have i0 := readEmpties_inv g hi
  have c0 := readEmpties_cfg g
  rcases moveToEmpty_cases g a s hw hh hi with ⟨h, _⟩ | ⟨h, _⟩ | ⟨q, hq, _, h⟩
  · rw [h]; exact ⟨i0, c0⟩
  · rw [h]; exact ⟨i0, c0⟩
  · rw [h]; exact ⟨removePlace_inv' _ a q i0 ((c0.inGrid q).mpr hq), c0.trans (removePlace_cfg' _ a q)⟩

/-! ### `move_agent_to_one_of` -/

theorem move_ok_pos (g : Grid) (a : Aid) (p : Coord) (hw : 0 < g.w) (hh : 0 < g.h) (h : (g.move a p).2 = .ok) :
    ∃ q, g.torusAdj p = .ok q ∧ (g.move a p).1.pos a = some q := by
  unfold move at h ⊢
  split at h
  · rename_i hm
    rw [if_pos hm]
    rw [moveBase_eq] at h ⊢
    cases ht : g.torusAdj p with
    | error e => rw [ht] at h; cases h
    | ok q => rw [ht] at h; exact ⟨q, rfl, removePlace_ok_pos g a q h⟩
  · rename_i hm
    rw [if_neg hm]
    cases ht : g.torusAdj p with
    | error e => rw [ht] at h; cases h
    | ok q =>
      rw [ht] at h
      simp only [] at h ⊢
      have hq := (torusAdj_ok g hw hh p q ht).1
      split at h
      · cases h
      · rename_i hb
        rw [if_neg hb]
        rw [moveBase_eq, torusAdj_inGrid g q hq] at h ⊢
        exact ⟨q, rfl, removePlace_ok_pos g a q h⟩

theorem move_pos_other (g : Grid) (a b : Aid) (p : Coord) (hb : b ≠ a) : (g.move a p).1.pos b = g.pos b := by
  have hmb : ∀ p, (g.moveBase a p).1.pos b = g.pos b := by
    intro p
    rw [moveBase_eq]
    cases g.torusAdj p with
    | error e => rfl
    | ok q => exact removePlace_pos_other g a b q hb
  unfold move
  split
  · exact hmb p
  · cases g.torusAdj p with
    | error e => rfl
    | ok q => simp only []; split; rfl; exact hmb q

/-- a rejected `move_agent` leaves the grid exactly as it was (S2 repair) -/
theorem move_err (g : Grid) (a : Aid) (p : Coord) (hw : 0 < g.w) (hh : 0 < g.h) (hi : Inv g) (e : Err)
    (h : (g.move a p).2 = .err e) : (g.move a p).1 = g := by
  unfold move at h ⊢
  split at h
  · rename_i hm
    rw [if_pos hm]
    rw [moveBase_eq] at h ⊢
    cases ht : g.torusAdj p with
    | error e => rfl
    | ok q => rw [ht] at h; exact removePlace_err g a q hi (Or.inl hm) e h
  · rename_i hm
    rw [if_neg hm]
    cases ht : g.torusAdj p with
    | error e => rfl
    | ok q =>
      rw [ht] at h
      simp only [] at h ⊢
      have hq := (torusAdj_ok g hw hh p q ht).1
      split at h
      · rename_i hb; rw [if_pos hb]
      · rename_i hb
        rw [if_neg hb]
        rw [moveBase_eq, torusAdj_inGrid g q hq] at h ⊢
        have hfree : g.content q = [] ∨ g.content q = [a] := by
          simp only [isCellEmpty, Bool.and_eq_true, Bool.not_eq_true', bne_iff_ne, ne_eq, not_and, Decidable.not_not] at hb
          by_cases hc : g.content q = []
          · exact Or.inl hc
          · exact Or.inr (hb (by simpa using hc))
        exact removePlace_err g a q hi (Or.inr hfree) e h

theorem swapIB_perm {α : Type} (a : Array α) (i j : Nat) : (a.swapIfInBounds i j).Perm a := by
  unfold Array.swapIfInBounds
  split
  · split
    · exact Array.swap_perm _ _
    · exact Array.Perm.refl _
  · exact Array.Perm.refl _

theorem shuffleAux_perm {α : Type} (i : Nat) (a : Array α) (s : Script) (a' : Array α) (s' : Script)
    (h : shuffleAux i a s = some (a', s')) : a'.Perm a := by
  induction i generalizing a s with
  | zero => simp [shuffleAux] at h; rw [← h.1]
  | succ i ih =>
    simp only [shuffleAux] at h
    split at h
    · cases h
    · exact (ih _ _ h).trans (swapIB_perm _ _ _)

/-- `random.shuffle` permutes -/
theorem shuffle_perm {α : Type} (l : List α) (s : Script) (l' : List α) (s' : Script)
    (h : shuffle l s = some (l', s')) : l'.Perm l := by
  unfold shuffle at h
  split at h
  · cases h
  · rename_i a s'' hs
    simp only [Option.some.injEq, Prod.mk.injEq] at h
    have := shuffleAux_perm _ _ _ _ _ hs
    rw [← h.1]
    simpa [Array.perm_iff_toList_perm] using this

theorem choice_mem {α : Type} (l : List α) (s : Script) (x : α) (s' : Script) (h : choice l s = some (x, s')) : x ∈ l := by
  unfold choice at h
  split at h
  · cases h
  · split at h
    · cases h
    · rename_i hx
      simp only [Option.some.injEq, Prod.mk.injEq] at h
      rw [← h.1]; exact List.mem_of_getElem? hx

theorem closestScan_spec (g : Grid) (cur : Coord) (ps : List Coord) (m : Option Int) (acc : List Coord)
    (hacc : ∀ x ∈ acc, m = some (g.distSq x cur)) :
    ∀ x ∈ g.closestScan cur ps m acc, (x ∈ acc ∨ x ∈ ps) ∧ (∀ y ∈ ps, g.distSq x cur ≤ g.distSq y cur) ∧
      (∀ md, m = some md → g.distSq x cur ≤ md) := by
  induction ps generalizing m acc with
  | nil =>
    intro x hx
    simp only [closestScan] at hx
    refine ⟨Or.inl hx, by simp, ?_⟩
    intro md hmd
    have := hacc x hx
    rw [hmd] at this
    simp only [Option.some.injEq] at this
    omega
  | cons p ps ih =>
    intro x hx
    simp only [closestScan] at hx
    cases m with
    | none =>
      simp only [] at hx
      obtain ⟨h1, h2, h3⟩ := ih (some (g.distSq p cur)) [p] (by simp) x hx
      have h3' := h3 _ rfl
      refine ⟨Or.inr (by rcases h1 with h1 | h1 <;> simp_all), ?_, by simp⟩
      intro y hy
      rcases List.mem_cons.mp hy with rfl | hy
      · exact h3'
      · exact h2 y hy
    | some md =>
      simp only [] at hx
      split at hx
      · rename_i hlt
        obtain ⟨h1, h2, h3⟩ := ih (some (g.distSq p cur)) [p] (by simp) x hx
        have h3' := h3 _ rfl
        refine ⟨Or.inr (by rcases h1 with h1 | h1 <;> simp_all), ?_, ?_⟩
        · intro y hy
          rcases List.mem_cons.mp hy with rfl | hy
          · exact h3'
          · exact h2 y hy
        · intro md' hmd'; simp only [Option.some.injEq] at hmd'; omega
      · split at hx
        · rename_i hnlt heq
          obtain ⟨h1, h2, h3⟩ := ih (some md) (acc ++ [p]) (by
            intro z hz
            rcases List.mem_append.mp hz with hz | hz
            · exact hacc z hz
            · simp only [List.mem_singleton] at hz; subst hz; rw [heq]) x hx
          have h3' := h3 _ rfl
          refine ⟨?_, ?_, h3⟩
          · rcases h1 with h1 | h1
            · rcases List.mem_append.mp h1 with h1 | h1
              · exact Or.inl h1
              · simp only [List.mem_singleton] at h1; subst h1; exact Or.inr (by simp)
            · exact Or.inr (List.mem_cons_of_mem _ h1)
          · intro y hy
            rcases List.mem_cons.mp hy with rfl | hy
            · omega
            · exact h2 y hy
        · rename_i hnlt hne
          obtain ⟨h1, h2, h3⟩ := ih (some md) acc hacc x hx
          have h3' := h3 _ rfl
          refine ⟨?_, ?_, h3⟩
          · rcases h1 with h1 | h1
            · exact Or.inl h1
            · exact Or.inr (List.mem_cons_of_mem _ h1)
          · intro y hy
            rcases List.mem_cons.mp hy with rfl | hy
            · omega
            · exact h2 y hy

/-- the position `move_agent_to_one_of` picks is one of the offered ones; with `closest` no offered
    position is nearer (in the grid's `_distance_squared`) to where the agent stands -/
theorem chooseOneOf_spec (g : Grid) (a : Aid) (ps : List Coord) (sel : Selection) (s : Script) (q : Coord)
    (h : g.chooseOneOf a ps sel s = .ok q) :
    q ∈ ps ∧ (sel = .closest → ∃ cur, g.pos a = some cur ∧ ∀ y ∈ ps, g.distSq q cur ≤ g.distSq y cur) := by
  unfold chooseOneOf at h
  cases sel with
  | random =>
    simp only [] at h
    split at h
    · cases h
    · rename_i q' s' hc
      simp only [Except.ok.injEq] at h; subst h
      exact ⟨choice_mem _ _ _ _ hc, by intro h; cases h⟩
  | other => cases h
  | closest =>
    simp only [] at h
    split at h
    · cases h
    · rename_i ps' s' hsh
      have hperm := shuffle_perm _ _ _ _ hsh
      split at h
      · cases h
      · rename_i cur hcur
        split at h
        · cases h
        · rename_i q' s'' hc
          simp only [Except.ok.injEq] at h; subst h
          have hm := choice_mem _ _ _ _ hc
          obtain ⟨h1, h2, _⟩ := closestScan_spec g cur ps' none [] (by simp) _ hm
          refine ⟨?_, fun _ => ⟨cur, hcur, ?_⟩⟩
          · rcases h1 with h1 | h1
            · cases h1
            · exact hperm.mem_iff.mp h1
          · intro y hy
            exact h2 y (hperm.mem_iff.mpr hy)

theorem moveToOneOf_inv_cfg (g : Grid) (a : Aid) (ps : List Coord) (sel : Selection) (he : HandleEmpty) (s : Script)
    (hw : 0 < g.w) (hh : 0 < g.h) (hi : Inv g) :
    Inv (g.moveToOneOf a ps sel he s).1 ∧ SameCfg g (g.moveToOneOf a ps sel he s).1 := by
  unfold moveToOneOf
  split
  · split <;> exact ⟨hi, SameCfg.refl g⟩
  · split
    · exact ⟨hi, SameCfg.refl g⟩
    · exact ⟨move_inv g a _ hw hh hi, move_cfg g a _⟩

/-! ### `_distance_squared` on a torus -/


theorem iabs_nonneg (z : Int) : 0 ≤ iabs z := by unfold iabs; split <;> omega

/-- the per-axis distance `_distance_squared` uses on a torus is the least distance between the residue classes -/
theorem torusDist_axis (w a b : Int) (hw : 0 < w) :
    IsTorusDist w a b (min (iabs (a - b) % w) (w - iabs (a - b) % w)) := by
  have hd0 := Int.emod_nonneg (iabs (a - b)) (by omega : w ≠ 0)
  have hd1 := Int.emod_lt_of_pos (iabs (a - b)) hw
  have hdiv := Int.emod_add_mul_ediv (iabs (a - b)) w
  -- iabs (a-b) = d' + w * k0
  generalize hk0 : iabs (a - b) / w = k0 at hdiv
  generalize hd' : iabs (a - b) % w = d' at hd0 hd1 hdiv
  have hmul : w * k0 = k0 * w := Int.mul_comm _ _
  constructor
  · -- attained
    by_cases hle : d' ≤ w - d'
    · rw [Int.min_eq_left hle]
      by_cases ht : 0 ≤ a - b
      · refine ⟨-k0, ?_⟩
        have : (-k0) * w = -(k0 * w) := Int.neg_mul _ _
        unfold iabs at hdiv ⊢; rw [if_pos ht] at hdiv
        split <;> omega
      · refine ⟨k0, ?_⟩
        unfold iabs at hdiv ⊢; rw [if_neg ht] at hdiv
        split <;> omega
    · rw [Int.min_eq_right (by omega)]
      by_cases ht : 0 ≤ a - b
      · refine ⟨-(k0 + 1), ?_⟩
        have : (-(k0 + 1)) * w = -(k0 * w) - w := by rw [Int.neg_mul, Int.add_mul]; omega
        unfold iabs at hdiv ⊢; rw [if_pos ht] at hdiv
        split <;> omega
      · refine ⟨k0 + 1, ?_⟩
        have : (k0 + 1) * w = k0 * w + w := by rw [Int.add_mul]; omega
        unfold iabs at hdiv ⊢; rw [if_neg ht] at hdiv
        split <;> omega
  · intro k
    -- a - b + k w = ± d' + j w
    by_cases ht : 0 ≤ a - b
    · have hj : a - b + k * w = d' + (k0 + k) * w := by
        rw [Int.add_mul]; unfold iabs at hdiv; rw [if_pos ht] at hdiv; omega
      rw [hj]
      by_cases hjs : 0 ≤ k0 + k
      · have := Int.mul_nonneg hjs (by omega : 0 ≤ w)
        unfold iabs; split <;> omega
      · have : (k0 + k + 1) * w ≤ 0 := Int.mul_nonpos_of_nonpos_of_nonneg (by omega) (by omega)
        rw [Int.add_mul] at this
        unfold iabs; split <;> omega
    · have hj : a - b + k * w = -d' + (k - k0) * w := by
        rw [Int.sub_mul]; unfold iabs at hdiv; rw [if_neg ht] at hdiv; omega
      rw [hj]
      by_cases hjs : 1 ≤ k - k0
      · have : 0 ≤ (k - k0 - 1) * w := Int.mul_nonneg (by omega) (by omega)
        rw [Int.sub_mul] at this
        unfold iabs; split <;> omega
      · have : (k - k0) * w ≤ 0 := Int.mul_nonpos_of_nonpos_of_nonneg (by omega) (by omega)
        unfold iabs; split <;> omega


theorem IsTorusDist.unique {w a b m m' : Int} (h : IsTorusDist w a b m) (h' : IsTorusDist w a b m') : m = m' := by
  obtain ⟨⟨k, hk⟩, hmin⟩ := h
  obtain ⟨⟨k', hk'⟩, hmin'⟩ := h'
  have := hmin k'
  have := hmin' k
  omega

theorem IsTorusDist.wrap {w a b m : Int} : IsTorusDist w (a % w) b m ↔ IsTorusDist w a b m := by
  have hdef : a % w = a - (a / w) * w := by rw [Int.emod_def, Int.mul_comm]
  have e1 : ∀ k : Int, a % w - b + k * w = a - b + (k - a / w) * w := by
    intro k; rw [hdef, Int.sub_mul]; omega
  have e2 : ∀ k : Int, a - b + k * w = a % w - b + (k + a / w) * w := by
    intro k; rw [hdef, Int.add_mul]; omega
  constructor
  · rintro ⟨⟨k, hk⟩, hmin⟩
    refine ⟨⟨k - a / w, by rw [← e1]; exact hk⟩, fun k' => ?_⟩
    rw [e2]; exact hmin _
  · rintro ⟨⟨k, hk⟩, hmin⟩
    refine ⟨⟨k + a / w, by rw [← e2]; exact hk⟩, fun k' => ?_⟩
    rw [e1]; exact hmin _

/-- on a torus `_distance_squared` is the squared length of the shortest displacement between the cells
    the two coordinates denote -/
theorem distSq_torus_spec (g : Grid) (hw : 0 < g.w) (hh : 0 < g.h) (ht : g.torus = true) (p q : Coord) :
    ∃ mx my, IsTorusDist g.w p.1 q.1 mx ∧ IsTorusDist g.h p.2 q.2 my ∧ g.distSq p q = mx * mx + my * my := by
  refine ⟨_, _, torusDist_axis g.w p.1 q.1 hw, torusDist_axis g.h p.2 q.2 hh, ?_⟩
  simp [distSq, ht]

theorem distSq_wrap (g : Grid) (hw : 0 < g.w) (hh : 0 < g.h) (ht : g.torus = true) (p q : Coord) :
    g.distSq (p.1 % g.w, p.2 % g.h) q = g.distSq p q := by
  obtain ⟨mx, my, hx, hy, he⟩ := distSq_torus_spec g hw hh ht p q
  obtain ⟨mx', my', hx', hy', he'⟩ := distSq_torus_spec g hw hh ht (p.1 % g.w, p.2 % g.h) q
  have := (IsTorusDist.wrap.mp hx').unique hx
  have := (IsTorusDist.wrap.mp hy').unique hy
  rw [he, he']; subst_vars; rfl


/-! ### every call keeps the invariant: histories -/

theorem step_inv_cfg (g : Grid) (op : Op) (hw : 0 < g.w) (hh : 0 < g.h) (hi : Inv g) (hok : OpOk g op) :
    Inv (step g op).1 ∧ SameCfg g (step g op).1 := by
  cases op with
  | place a p => exact ⟨place_inv g a p hi hok.1 hok.2, place_cfg g a p⟩
  | remove a => exact ⟨remove_inv g a hi, remove_cfg g a⟩
  | move a p => exact ⟨move_inv g a p hw hh hi, move_cfg g a p⟩
  | swap a b => exact swap_inv_cfg g a b hi
  | moveToEmpty a s => exact moveToEmpty_inv_cfg g a s hw hh hi
  | moveToOneOf a ps sel he s => exact moveToOneOf_inv_cfg g a ps sel he s hw hh hi
  | readEmpties => exact ⟨readEmpties_inv g hi, readEmpties_cfg g⟩

theorem run_inv_cfg (g : Grid) (ops : List Op) (hw : 0 < g.w) (hh : 0 < g.h) (hi : Inv g) (hok : HistOk g ops) :
    Inv (run g ops) ∧ SameCfg g (run g ops) := by
  induction ops generalizing g with
  | nil => exact ⟨hi, SameCfg.refl g⟩
  | cons op ops ih =>
    obtain ⟨h1, h2⟩ := hok
    obtain ⟨i1, c1⟩ := step_inv_cfg g op hw hh hi h1
    have := ih (step g op).1 (by rw [c1.1]; exact hw) (by rw [c1.2.1]; exact hh) i1 h2
    exact ⟨this.1, c1.trans this.2⟩

/-! ### rejected calls (C18) -/

theorem remove_single_content (g : Grid) (a : Aid) (p : Coord) (hm : g.multi = false) (hp : g.pos a = some p) :
    (g.remove a).1.content p = [] := by
  unfold remove
  rw [hp]
  simp [hm]

theorem place_content_other (g : Grid) (a : Aid) (p q : Coord) (hq : q ≠ p) : (g.place a p).1.content q = g.content q := by
  unfold place
  split
  · split <;> simp [upd, hq]
  · split <;> simp [upd, hq]

/-- `swap_pos` raises only for an unplaced agent, before changing anything -/
theorem swap_err (g : Grid) (a b : Aid) (hi : Inv g) (e : Err) (h : (g.swap a b).2 = .err e) : (g.swap a b).1 = g := by
  unfold swap at h ⊢
  cases hpa : g.pos a with
  | none => rfl
  | some pa =>
    cases hpb : g.pos b with
    | none => rfl
    | some pb =>
      rw [hpa, hpb] at h
      simp only [] at h ⊢
      split
      · rfl
      · rename_i hne
        exfalso
        rw [if_neg hne] at h
        have hab : a ≠ b := fun e => hne (by subst e; rw [hpa] at hpb; exact Option.some.inj hpb)
        have r1 := remove_ok_of_inv g a hi (Or.inl (by rw [hpa]; simp))
        have i1 := remove_inv g a hi
        have c1 := remove_cfg g a
        have o1 := remove_pos_other g a b (Ne.symm hab)
        have k1 := remove_content_other g a pb (by rw [hpa]; intro e; exact hne (Option.some.inj e))
        have s1 : g.multi = false → (g.remove a).1.content pa = [] := fun hm => remove_single_content g a pa hm hpa
        rcases hr1 : g.remove a with ⟨g1, x1⟩
        rw [hr1] at r1 i1 c1 o1 k1 s1 h
        simp only [] at r1 o1 k1 s1; subst r1
        simp only [] at h
        have hpb1 : g1.pos b = some pb := by rw [o1, hpb]
        have r2 := remove_ok_of_inv g1 b i1 (Or.inl (by rw [hpb1]; simp))
        have i2 := remove_inv g1 b i1
        have c2 := remove_cfg g1 b
        have k2 := remove_content_other g1 b pa (by rw [hpb1]; intro e; exact hne (Option.some.inj e).symm)
        have s2 : g1.multi = false → (g1.remove b).1.content pb = [] := fun hm => remove_single_content g1 b pb hm hpb1
        rcases hr2 : g1.remove b with ⟨g2, x2⟩
        rw [hr2] at r2 i2 c2 k2 s2 h
        simp only [] at r2 k2 s2; subst r2
        simp only [] at h
        have r3 := place_res g2 a pb
        have k3 := place_content_other g2 a pb pa (fun e => hne e)
        have c3 := place_cfg g2 a pb
        rcases hr3 : g2.place a pb with ⟨g3, x3⟩
        rw [hr3] at r3 k3 c3 h
        simp only [] at r3 k3
        have hm2 : g2.multi = g.multi := (c1.trans c2).2.2.2.1
        have hm1 : g1.multi = g.multi := c1.2.2.2.1
        by_cases hm : g.multi = true
        · rw [hm2, hm] at r3; simp at r3; subst r3
          simp only [] at h
          have r4 := place_res g3 b pa
          rw [c3.2.2.2.1, hm2, hm] at r4; simp at r4
          rw [r4] at h; cases h
        · simp only [Bool.not_eq_true] at hm
          have e2 : g2.content pb = [] := s2 (by rw [hm1]; exact hm)
          rw [hm2, hm] at r3; simp [e2] at r3; subst r3
          simp only [] at h
          have r4 := place_res g3 b pa
          have e3 : g3.content pa = [] := by rw [k3, k2]; exact s1 hm
          rw [c3.2.2.2.1, hm2, hm] at r4; simp [e3] at r4
          rw [r4] at h; cases h

theorem moveToOneOf_err (g : Grid) (a : Aid) (ps : List Coord) (sel : Selection) (he : HandleEmpty) (s : Script)
    (hw : 0 < g.w) (hh : 0 < g.h) (hi : Inv g) (e : Err) (h : (g.moveToOneOf a ps sel he s).2 = .err e) :
    (g.moveToOneOf a ps sel he s).1 = g := by
  unfold moveToOneOf at h ⊢
  split
  · split <;> rfl
  · rename_i hne
    rw [if_neg hne] at h
    split
    · rfl
    · rename_i q hq
      rw [hq] at h
      exact move_err g a q hw hh hi e h

theorem moveToEmpty_err (g : Grid) (a : Aid) (s : Script) (hw : 0 < g.w) (hh : 0 < g.h) (hi : Inv g) (e : Err)
    (h : (g.moveToEmpty a s).2 = .err e) : (g.moveToEmpty a s).1 = g.readEmpties.1 := by
  have i0 := readEmpties_inv g hi
  have o0 := readEmpties_obs g
  rcases moveToEmpty_cases g a s hw hh hi with ⟨h', _⟩ | ⟨h', _⟩ | ⟨q, hq, hcq, h'⟩
  · rw [h']
  · rw [h']
  · rw [h'] at h ⊢
    exact removePlace_err _ a q i0 (Or.inr (Or.inl (by rw [o0.2.2.2.2.2.1]; exact hcq))) e h

/-! ### agents in a list of cells (C09: `get_neighbors`, `get_cell_list_contents`) -/

theorem flatMap_filter_nonempty {α β : Type} (f : α → List β) (l : List α) :
    (l.filter fun c => !(f c).isEmpty).flatMap f = l.flatMap f := by
  induction l with
  | nil => rfl
  | cons x xs ih =>
    simp only [List.filter_cons, List.flatMap_cons]
    cases hx : f x with
    | nil => simp [ih]
    | cons y ys => simp [ih, hx]

theorem filterMap_head_eq_flatMap {α β : Type} (f : α → List β) (l : List α) (h : ∀ c, (f c).length ≤ 1) :
    l.filterMap (fun c => (f c).head?) = l.flatMap f := by
  induction l with
  | nil => rfl
  | cons x xs ih =>
    simp only [List.filterMap_cons, List.flatMap_cons]
    have := h x
    match hx : f x with
    | [] => simp [ih]
    | [y] => simp [ih]
    | _ :: _ :: _ => rw [hx] at this; simp at this

/-- both grid kinds return the concatenation of the contents of the listed cells -/
theorem cellsContents_eq (g : Grid) (hi : Inv g) (cells : List Coord) : cellsContents g cells = cells.flatMap g.content := by
  unfold cellsContents
  by_cases hm : g.multi = true
  · simp only [hm, if_true]
    exact flatMap_filter_nonempty g.content cells
  · simp only [hm, Bool.false_eq_true, if_false]
    exact filterMap_head_eq_flatMap g.content cells (hi.single (by simpa using hm))

/-- the agents returned are exactly the agents whose `pos` is one of the listed cells, each once -/
theorem cellsContents_spec (g : Grid) (hi : Inv g) (cells : List Coord) (hnd : cells.Nodup) :
    (cellsContents g cells).Nodup ∧ ∀ a, a ∈ cellsContents g cells ↔ ∃ c ∈ cells, g.pos a = some c := by
  rw [cellsContents_eq g hi]
  constructor
  · unfold List.Nodup
    rw [List.pairwise_flatMap]
    refine ⟨fun c _ => hi.nodup c, ?_⟩
    refine List.Pairwise.imp ?_ hnd
    intro c c' hne x hx y hy hxy
    subst hxy
    have h1 := (hi.pos_content x c).mpr hx
    have h2 := (hi.pos_content x c').mpr hy
    rw [h1] at h2
    exact hne (Option.some.inj h2)
  · intro a
    simp only [List.mem_flatMap]
    constructor
    · rintro ⟨c, hc, ha⟩; exact ⟨c, hc, (hi.pos_content a c).mpr ha⟩
    · rintro ⟨c, hc, ha⟩; exact ⟨c, hc, (hi.pos_content a c).mp ha⟩

theorem mem_foldl_dedup (l acc : List Aid) (y : Aid) :
    y ∈ l.foldl (fun acc x => if x ∈ acc then acc else acc ++ [x]) acc ↔ y ∈ acc ∨ y ∈ l := by
  induction l generalizing acc with
  | nil => simp
  | cons x xs ih =>
    simp only [List.foldl_cons, ih, List.mem_cons]
    split
    · rename_i hx
      constructor
      · rintro (h | h); exact Or.inl h; exact Or.inr (Or.inr h)
      · rintro (h | h | h); exact Or.inl h; exact Or.inl (h ▸ hx); exact Or.inr h
    · simp only [List.mem_append, List.mem_singleton]
      constructor
      · rintro ((h | h) | h); exact Or.inl h; exact Or.inr (Or.inl h); exact Or.inr (Or.inr h)
      · rintro (h | h | h); exact Or.inl (Or.inl h); exact Or.inl (Or.inr h); exact Or.inr h

theorem nodup_foldl_dedup (l acc : List Aid) (h : acc.Nodup) :
    (l.foldl (fun acc x => if x ∈ acc then acc else acc ++ [x]) acc).Nodup := by
  induction l generalizing acc with
  | nil => exact h
  | cons x xs ih =>
    simp only [List.foldl_cons]
    apply ih
    split
    · exact h
    · rename_i hx
      exact List.nodup_append.mpr ⟨h, by simp, by simp; exact fun y hy e => hx (e ▸ hy)⟩

theorem mem_dedup (l : List Aid) (y : Aid) : y ∈ dedup l ↔ y ∈ l := by
  unfold dedup; rw [mem_foldl_dedup]; simp

theorem nodup_dedup (l : List Aid) : (dedup l).Nodup := nodup_foldl_dedup l [] (by simp)

theorem foldl_dedup_of_nodup (l acc : List Aid) (h : (acc ++ l).Nodup) :
    l.foldl (fun acc x => if x ∈ acc then acc else acc ++ [x]) acc = acc ++ l := by
  induction l generalizing acc with
  | nil => simp
  | cons x xs ih =>
    simp only [List.foldl_cons]
    have hx : x ∉ acc := by
      intro hx
      have := List.nodup_append.mp h
      exact this.2.2 x hx x (by simp) rfl
    rw [if_neg hx, ih (acc ++ [x]) (by simpa using h)]
    simp

/-- within the property's quantifier nothing is dropped: the `AgentSet` is the flattened contents -/
theorem agentsList_eq (g : Grid) (hi : Inv g) : g.agentsList = g.allCells.flatMap g.content := by
  unfold agentsList dedup
  have hnd : (g.allCells.flatMap g.content).Nodup := by
    unfold List.Nodup
    rw [List.pairwise_flatMap]
    refine ⟨fun c _ => hi.nodup c, ?_⟩
    refine List.Pairwise.imp ?_ (sorted_allCells g).nodup
    intro c c' hne x hx y hy hxy
    subst hxy
    have h1 := (hi.pos_content x c).mpr hx
    have h2 := (hi.pos_content x c').mpr hy
    rw [h1] at h2
    exact hne (Option.some.inj h2)
  have := foldl_dedup_of_nodup (g.allCells.flatMap g.content) [] (by simpa using hnd)
  simpa using this

theorem agentsList_spec (g : Grid) (hi : Inv g) :
    g.agentsList.Nodup ∧ ∀ a, a ∈ g.agentsList ↔ g.pos a ≠ none := by
  refine ⟨nodup_dedup _, ?_⟩
  intro a
  unfold agentsList
  simp only [mem_dedup, List.mem_flatMap, mem_allCells]
  constructor
  · rintro ⟨c, _, ha⟩ h
    have := (hi.pos_content a c).mpr ha
    rw [h] at this; cases this
  · intro h
    cases hp : g.pos a with
    | none => exact absurd hp h
    | some c =>
      have ha := (hi.pos_content a c).mp hp
      exact ⟨c, hi.in_grid c (List.ne_nil_of_mem ha), ha⟩

end Mesa.Legacy
