import MesaModel.Proofs.Legacy
/-!
The read paths of the legacy grids that take arbitrary integers and slices (C08: "indexing shows the same
contents"): Python list indexing with negative-index aliasing (`is_cell_empty`, `grid[x]`,
`get_cell_list_contents`), slices (`grid[x, a:b]`, `grid[:, y]`, `grid[::2, ::-1]`), tuples of positions.
-/
namespace Mesa.Legacy

open Grid

/-! ### Python int indexing -/

theorem pyIndex_inRange (n i : Int) (h : 0 ≤ i ∧ i < n) : pyIndex n i = .ok i := by simp [pyIndex, h]

theorem pyIndex_negative (n i : Int) (h : -n ≤ i ∧ i < 0) : pyIndex n i = .ok (i + n) := by
  unfold pyIndex
  rw [if_neg (by omega), if_pos h]

theorem pyIndex_outside (n i : Int) (h : i < -n ∨ n ≤ i) (hn : 0 ≤ n) : pyIndex n i = .error .index := by
  unfold pyIndex
  rw [if_neg (by omega), if_neg (by omega)]

theorem pyIndex_ok (n i j : Int) (h : pyIndex n i = .ok j) : 0 ≤ j ∧ j < n ∧ (j = i ∨ j = i + n) := by
  unfold pyIndex at h
  split at h
  · cases h; omega
  · split at h
    · cases h; omega
    · cases h

theorem rawCell_ok (g : Grid) (p c : Coord) (h : g.rawCell p = .ok c) :
    g.inGrid c ∧ (c.1 = p.1 ∨ c.1 = p.1 + g.w) ∧ (c.2 = p.2 ∨ c.2 = p.2 + g.h) := by
  unfold rawCell at h
  cases hx : pyIndex g.w p.1 with
  | error e => rw [hx] at h; cases h
  | ok x =>
    cases hy : pyIndex g.h p.2 with
    | error e => rw [hx, hy] at h; cases h
    | ok y =>
      rw [hx, hy] at h
      cases h
      have h1 := pyIndex_ok _ _ _ hx
      have h2 := pyIndex_ok _ _ _ hy
      exact ⟨⟨h1.1, h1.2.1, h2.1, h2.2.1⟩, h1.2.2, h2.2.2⟩

theorem rawCell_inGrid (g : Grid) (p : Coord) (h : g.inGrid p) : g.rawCell p = .ok p := by
  unfold rawCell
  rw [pyIndex_inRange _ _ ⟨h.1, h.2.1⟩, pyIndex_inRange _ _ ⟨h.2.2.1, h.2.2.2⟩]

/-- exactly when does raw indexing raise: a coordinate outside `-size .. size-1` -/
theorem rawCell_error (g : Grid) (hw : 0 < g.w) (hh : 0 < g.h) (p : Coord) :
    (∃ e, g.rawCell p = .error e) ↔ (p.1 < -g.w ∨ g.w ≤ p.1 ∨ p.2 < -g.h ∨ g.h ≤ p.2) := by
  unfold rawCell pyIndex
  constructor
  · rintro ⟨e, h⟩
    by_cases h1 : 0 ≤ p.1 ∧ p.1 < g.w
    · rw [if_pos h1] at h
      by_cases h2 : 0 ≤ p.2 ∧ p.2 < g.h
      · rw [if_pos h2] at h; cases h
      · by_cases h3 : -g.h ≤ p.2 ∧ p.2 < 0
        · rw [if_neg h2, if_pos h3] at h; cases h
        · omega
    · by_cases h1' : -g.w ≤ p.1 ∧ p.1 < 0
      · rw [if_neg h1, if_pos h1'] at h
        by_cases h2 : 0 ≤ p.2 ∧ p.2 < g.h
        · rw [if_pos h2] at h; cases h
        · by_cases h3 : -g.h ≤ p.2 ∧ p.2 < 0
          · rw [if_neg h2, if_pos h3] at h; cases h
          · omega
      · omega
  · intro h
    by_cases h1 : 0 ≤ p.1 ∧ p.1 < g.w
    · rw [if_pos h1]
      simp only []
      rw [if_neg (by omega), if_neg (by omega)]
      exact ⟨_, rfl⟩
    · by_cases h1' : -g.w ≤ p.1 ∧ p.1 < 0
      · rw [if_neg h1, if_pos h1']
        simp only []
        rw [if_neg (by omega), if_neg (by omega)]
        exact ⟨_, rfl⟩
      · rw [if_neg h1, if_neg h1']
        exact ⟨_, rfl⟩

theorem rawCells_ok (g : Grid) (ps cs : List Coord) (h : g.rawCells ps = .ok cs) :
    cs.length = ps.length ∧ ∀ c ∈ cs, g.inGrid c := by
  induction ps generalizing cs with
  | nil => simp [rawCells] at h; subst h; simp
  | cons p ps ih =>
    unfold rawCells at h
    cases hc : g.rawCell p with
    | error e => rw [hc] at h; cases h
    | ok c =>
      cases hr : g.rawCells ps with
      | error e => rw [hc, hr] at h; cases h
      | ok cs' =>
        rw [hc, hr] at h
        cases h
        obtain ⟨h1, h2⟩ := ih cs' hr
        refine ⟨by simp [h1], ?_⟩
        intro c' hc'
        rcases List.mem_cons.mp hc' with rfl | hm
        · exact (rawCell_ok g p _ hc).1
        · exact h2 c' hm

/-- the cell Python's list indexing denotes: an index in `-size .. -1` counts from the end -/
def Grid.aliasCell (g : Grid) (p : Coord) : Coord :=
  (if p.1 < 0 then p.1 + g.w else p.1, if p.2 < 0 then p.2 + g.h else p.2)

theorem rawCell_ok_alias (g : Grid) (p c : Coord) (h : g.rawCell p = .ok c) : c = g.aliasCell p := by
  obtain ⟨⟨h1, h2, h3, h4⟩, hx, hy⟩ := rawCell_ok g p c h
  unfold Grid.aliasCell
  apply Prod.ext <;> simp only <;> split <;> omega

theorem rawCells_ok_alias (g : Grid) (ps cs : List Coord) (h : g.rawCells ps = .ok cs) : cs = ps.map g.aliasCell := by
  induction ps generalizing cs with
  | nil => simp [rawCells] at h; subst h; rfl
  | cons p ps ih =>
    unfold rawCells at h
    cases hc : g.rawCell p with
    | error e => rw [hc] at h; cases h
    | ok c =>
      cases hr : g.rawCells ps with
      | error e => rw [hc, hr] at h; cases h
      | ok cs' =>
        rw [hc, hr] at h
        cases h
        rw [List.map_cons, ← ih cs' hr, ← rawCell_ok_alias g p c hc]

theorem rawCells_inGrid (g : Grid) (ps : List Coord) (h : ∀ p ∈ ps, g.inGrid p) : g.rawCells ps = .ok ps := by
  induction ps with
  | nil => rfl
  | cons p ps ih =>
    unfold rawCells
    rw [rawCell_inGrid g p (h p (by simp)), ih (fun q hq => h q (by simp [hq]))]

theorem rawCells_error (g : Grid) (hw : 0 < g.w) (hh : 0 < g.h) (ps : List Coord)
    (h : ∃ p ∈ ps, p.1 < -g.w ∨ g.w ≤ p.1 ∨ p.2 < -g.h ∨ g.h ≤ p.2) : ∃ e, g.rawCells ps = .error e := by
  induction ps with
  | nil => obtain ⟨p, hp, _⟩ := h; cases hp
  | cons q qs ih =>
    obtain ⟨p, hp, hbad⟩ := h
    unfold rawCells
    cases hc : g.rawCell q with
    | error e => exact ⟨e, rfl⟩
    | ok c =>
      rcases List.mem_cons.mp hp with rfl | hm
      · obtain ⟨e, he⟩ := (rawCell_error g hw hh p).mpr hbad
        rw [he] at hc; cases hc
      · obtain ⟨e, he⟩ := ih ⟨p, hm, hbad⟩
        rw [he]; exact ⟨e, rfl⟩

/-! ### `range` and slices -/

theorem mem_pyRange_pos (a b s : Int) (hs : 0 < s) (i : Int) :
    i ∈ pyRange a b s ↔ ∃ k : Nat, i = a + (k : Int) * s ∧ i < b := by
  unfold pyRange
  rw [if_pos hs]
  simp only [List.mem_map, List.mem_range]
  have key : ∀ k : Nat, k < ((b - a + s - 1) / s).toNat ↔ a + (k : Int) * s < b := by
    intro k
    rw [Int.lt_toNat]
    have : (k : Int) < (b - a + s - 1) / s ↔ (k : Int) + 1 ≤ (b - a + s - 1) / s := by omega
    rw [this, Int.le_ediv_iff_mul_le hs, Int.add_mul]
    omega
  constructor
  · rintro ⟨k, hk, rfl⟩; exact ⟨k, rfl, (key k).mp hk⟩
  · rintro ⟨k, rfl, hk⟩; exact ⟨k, (key k).mpr hk, rfl⟩

theorem mem_pyRange_neg (a b s : Int) (hs : s < 0) (i : Int) :
    i ∈ pyRange a b s ↔ ∃ k : Nat, i = a + (k : Int) * s ∧ b < i := by
  unfold pyRange
  rw [if_neg (by omega)]
  simp only [List.mem_map, List.mem_range]
  have hs' : 0 < -s := by omega
  have key : ∀ k : Nat, k < ((a - b + -s - 1) / -s).toNat ↔ b < a + (k : Int) * s := by
    intro k
    rw [Int.lt_toNat]
    have : (k : Int) < (a - b + -s - 1) / -s ↔ (k : Int) + 1 ≤ (a - b + -s - 1) / -s := by omega
    rw [this, Int.le_ediv_iff_mul_le hs', Int.add_mul, Int.mul_neg]
    omega
  constructor
  · rintro ⟨k, hk, rfl⟩; exact ⟨k, rfl, (key k).mp hk⟩
  · rintro ⟨k, rfl, hk⟩; exact ⟨k, (key k).mpr hk, rfl⟩

theorem pyRange_sorted_pos (a b s : Int) (hs : 0 < s) : (pyRange a b s).Pairwise (· < ·) := by
  unfold pyRange
  rw [if_pos hs, List.pairwise_map]
  refine List.Pairwise.imp ?_ List.pairwise_lt_range
  intro x y hxy
  have : (x : Int) * s < (y : Int) * s := Int.mul_lt_mul_of_pos_right (by omega) hs
  omega

theorem pyRange_sorted_neg (a b s : Int) (hs : s < 0) : (pyRange a b s).Pairwise (· > ·) := by
  unfold pyRange
  rw [if_neg (by omega), List.pairwise_map]
  refine List.Pairwise.imp ?_ List.pairwise_lt_range
  intro x y hxy
  have : (x : Int) * (-s) < (y : Int) * (-s) := Int.mul_lt_mul_of_pos_right (by omega) (by omega)
  rw [Int.mul_neg, Int.mul_neg] at this
  show a + (y : Int) * s < a + (x : Int) * s
  omega

theorem adjBound_range (n lo hi v : Int) (hlo : lo ≤ hi) (h1 : lo ≤ 0) (h4 : n - 1 ≤ hi) :
    lo ≤ adjBound n lo hi v ∧ adjBound n lo hi v ≤ hi := by
  unfold adjBound
  simp only []
  split
  · split <;> omega
  · split <;> omega

/-- the step a slice uses, and its adjusted bounds -/
theorem sliceIndices_ok (n : Int) (s : PySlice) (l : List Int) (h : sliceIndices n s = .ok l) :
    s.step.getD 1 ≠ 0 ∧
    ((0 < s.step.getD 1 ∧ ∃ a b, 0 ≤ a ∧ b ≤ n ∧ l = pyRange a b (s.step.getD 1)) ∨
     (s.step.getD 1 < 0 ∧ ∃ a b, a ≤ n - 1 ∧ -1 ≤ b ∧ l = pyRange a b (s.step.getD 1))) ∨ n < 0 := by
  by_cases hn : n < 0
  · exact Or.inr hn
  · left
    unfold sliceIndices at h
    simp only [] at h
    by_cases h0 : s.step.getD 1 = 0
    · rw [if_pos h0] at h; cases h
    · rw [if_neg h0] at h
      refine ⟨h0, ?_⟩
      by_cases hp : s.step.getD 1 > 0
      · rw [if_pos hp] at h
        cases h
        left
        refine ⟨hp, _, _, ?_, ?_, rfl⟩
        · cases s.start with
          | none => simp
          | some v => exact (adjBound_range n 0 n v (by omega) (by omega) (by omega)).1
        · cases s.stop with
          | none => simp
          | some v => exact (adjBound_range n 0 n v (by omega) (by omega) (by omega)).2
      · rw [if_neg hp] at h
        cases h
        right
        refine ⟨by omega, _, _, ?_, ?_, rfl⟩
        · cases s.start with
          | none => simp
          | some v => exact (adjBound_range n (-1) (n - 1) v (by omega) (by omega) (by omega)).2
        · cases s.stop with
          | none => simp
          | some v => exact (adjBound_range n (-1) (n - 1) v (by omega) (by omega) (by omega)).1

/-- a slice never reaches outside the list and never repeats an index -/
theorem sliceIndices_spec (n : Int) (hn : 0 ≤ n) (s : PySlice) (l : List Int) (h : sliceIndices n s = .ok l) :
    (∀ i ∈ l, 0 ≤ i ∧ i < n) ∧ l.Nodup ∧
    (0 < s.step.getD 1 → l.Pairwise (· < ·)) ∧ (s.step.getD 1 < 0 → l.Pairwise (· > ·)) := by
  rcases sliceIndices_ok n s l h with ⟨_, hcase⟩ | hneg
  · rcases hcase with ⟨hs, a, b, ha, hb, rfl⟩ | ⟨hs, a, b, ha, hb, rfl⟩
    · have hsorted := pyRange_sorted_pos a b _ hs
      refine ⟨?_, ?_, fun _ => hsorted, fun h' => by omega⟩
      · intro i hi
        obtain ⟨k, rfl, hk⟩ := (mem_pyRange_pos a b _ hs i).mp hi
        have : 0 ≤ (k : Int) * s.step.getD 1 := Int.mul_nonneg (by omega) (by omega)
        omega
      · exact hsorted.imp (fun h => by omega)
    · have hsorted := pyRange_sorted_neg a b _ hs
      refine ⟨?_, ?_, fun h' => by omega, fun _ => hsorted⟩
      · intro i hi
        obtain ⟨k, rfl, hk⟩ := (mem_pyRange_neg a b _ hs i).mp hi
        have : 0 ≤ (k : Int) * (-(s.step.getD 1)) := Int.mul_nonneg (by omega) (by omega)
        rw [Int.mul_neg] at this
        omega
      · exact hsorted.imp (fun h => by omega)
  · omega

theorem pyRange_unit (a b : Int) : pyRange a b 1 = (List.range (b - a).toNat).map fun (k : Nat) => a + (k : Int) := by
  unfold pyRange
  simp

/-- `l[:]` selects every index, in order -/
theorem sliceIndices_full (n : Int) : sliceIndices n ⟨none, none, none⟩ = .ok ((List.range n.toNat).map fun (k : Nat) => (k : Int)) := by
  unfold sliceIndices
  simp [pyRange_unit]

/-- `l[a:b]` with `0 ≤ a ≤ b ≤ len(l)` selects `a, a+1, …, b-1` -/
theorem sliceIndices_simple (n a b : Int) (h : 0 ≤ a ∧ a ≤ b ∧ b ≤ n) :
    sliceIndices n ⟨some a, some b, none⟩ = .ok ((List.range (b - a).toNat).map fun (k : Nat) => a + (k : Int)) := by
  unfold sliceIndices
  have ha : adjBound n 0 n a = a := by
    unfold adjBound; simp only []
    rw [if_neg (by omega)]
    by_cases h' : a ≥ n
    · rw [if_pos h']; omega
    · rw [if_neg h']
  have hb : adjBound n 0 n b = b := by
    unfold adjBound; simp only []
    rw [if_neg (by omega)]
    by_cases h' : b ≥ n
    · rw [if_pos h']; omega
    · rw [if_neg h']
  simp [ha, hb, pyRange_unit]

/-- membership in a slice with a positive step and explicit in-range bounds: the arithmetic progression -/
theorem mem_sliceIndices_step (n a b st : Int) (h : 0 ≤ a ∧ a ≤ n ∧ 0 ≤ b ∧ b ≤ n) (hst : 0 < st) (i : Int) :
    (∃ l, sliceIndices n ⟨some a, some b, some st⟩ = .ok l ∧ (i ∈ l ↔ ∃ k : Nat, i = a + (k : Int) * st ∧ i < b)) := by
  have adj : ∀ v, 0 ≤ v → v ≤ n → adjBound n 0 n v = v := by
    intro v h0 h1
    unfold adjBound; simp only []
    rw [if_neg (by omega)]
    by_cases h' : v ≥ n
    · rw [if_pos h']; omega
    · rw [if_neg h']
  refine ⟨pyRange a b st, ?_, mem_pyRange_pos a b st hst i⟩
  unfold sliceIndices
  simp only [Option.getD_some]
  rw [if_neg (by omega), if_pos hst, adj a h.1 h.2.1, adj b h.2.2.1 h.2.2.2]

/-! ### `__getitem__` -/

theorem adjAll_ok (g : Grid) (hw : 0 < g.w) (hh : 0 < g.h) (ps cs : List Coord) (h : g.adjAll ps = .ok cs) :
    cs.length = ps.length ∧ (∀ c ∈ cs, g.inGrid c) ∧ ∀ pc ∈ ps.zip cs, g.torusAdj pc.1 = .ok pc.2 := by
  induction ps generalizing cs with
  | nil => simp [adjAll] at h; subst h; simp
  | cons p ps ih =>
    unfold adjAll at h
    cases hc : g.torusAdj p with
    | error e => rw [hc] at h; cases h
    | ok c =>
      cases hr : g.adjAll ps with
      | error e => rw [hc, hr] at h; cases h
      | ok cs' =>
        rw [hc, hr] at h
        cases h
        obtain ⟨h1, h2, h3⟩ := ih cs' hr
        refine ⟨by simp [h1], ?_, ?_⟩
        · intro c' hc'
          rcases List.mem_cons.mp hc' with rfl | hm
          · exact (torusAdj_ok g hw hh p _ hc).1
          · exact h2 c' hm
        · intro pc hpc
          rw [List.zip_cons_cons] at hpc
          rcases List.mem_cons.mp hpc with rfl | hm
          · exact hc
          · exact h3 pc hm

theorem getColumn_spec (g : Grid) (hw : 0 < g.w) (i : Int) :
    (0 ≤ i ∧ i < g.w → g.getColumn i = .ok ((List.range g.h.toNat).map fun (y : Nat) => (i, (y : Int)))) ∧
    (-g.w ≤ i ∧ i < 0 → g.getColumn i = .ok ((List.range g.h.toNat).map fun (y : Nat) => (i + g.w, (y : Int)))) ∧
    (i < -g.w ∨ g.w ≤ i → g.getColumn i = .error .index) := by
  unfold getColumn
  refine ⟨fun h => by rw [pyIndex_inRange _ _ h], fun h => by rw [pyIndex_negative _ _ h], fun h => by rw [pyIndex_outside _ _ h (by omega)]⟩

theorem getItem2_inGrid (g : Grid) (hw : 0 < g.w) (hh : 0 < g.h) (ix iy : Ix) (cs : List Coord) (h : g.getItem2 ix iy = .ok cs) :
    ∀ c ∈ cs, g.inGrid c := by
  unfold getItem2 at h
  cases ix with
  | int x =>
    cases iy with
    | int y =>
      simp only [] at h
      cases ht : g.torusAdj (x, y) with
      | error e => rw [ht] at h; cases h
      | ok c =>
        rw [ht] at h; cases h
        intro c' hc'; simp at hc'; subst hc'
        exact (torusAdj_ok g hw hh _ _ ht).1
    | slice sy =>
      simp only [] at h
      cases ht : g.torusAdj (x, 0) with
      | error e => rw [ht] at h; cases h
      | ok c =>
        cases hs : sliceIndices g.h sy with
        | error e => rw [ht, hs] at h; cases h
        | ok ys =>
          rw [ht, hs] at h; cases h
          have hc := (torusAdj_ok g hw hh _ _ ht).1
          have hb := (sliceIndices_spec g.h (by omega) sy ys hs).1
          intro c' hc'
          simp only [List.mem_map] at hc'
          obtain ⟨y, hy, rfl⟩ := hc'
          exact ⟨hc.1, hc.2.1, (hb y hy).1, (hb y hy).2⟩
  | slice sx =>
    cases iy with
    | int y =>
      simp only [] at h
      cases ht : g.torusAdj (0, y) with
      | error e => rw [ht] at h; cases h
      | ok c =>
        cases hs : sliceIndices g.w sx with
        | error e => rw [ht, hs] at h; cases h
        | ok xs =>
          rw [ht, hs] at h; cases h
          have hc := (torusAdj_ok g hw hh _ _ ht).1
          have hb := (sliceIndices_spec g.w (by omega) sx xs hs).1
          intro c' hc'
          simp only [List.mem_map] at hc'
          obtain ⟨x, hx, rfl⟩ := hc'
          exact ⟨(hb x hx).1, (hb x hx).2, hc.2.2.1, hc.2.2.2⟩
    | slice sy =>
      simp only [] at h
      cases hs : sliceIndices g.w sx with
      | error e => rw [hs] at h; cases h
      | ok xs =>
        rw [hs] at h
        simp only [] at h
        split at h
        · cases h; intro c hc; cases hc
        · cases hs2 : sliceIndices g.h sy with
          | error e => rw [hs2] at h; cases h
          | ok ys =>
            rw [hs2] at h; cases h
            have hbx := (sliceIndices_spec g.w (by omega) sx xs hs).1
            have hby := (sliceIndices_spec g.h (by omega) sy ys hs2).1
            intro c' hc'
            simp only [List.mem_flatMap, List.mem_map] at hc'
            obtain ⟨x, hx, y, hy, rfl⟩ := hc'
            exact ⟨(hbx x hx).1, (hbx x hx).2, (hby y hy).1, (hby y hy).2⟩

/-- `grid[:, :]` lists the cells in iteration order -/
theorem getItem2_full (g : Grid) (hw : 0 < g.w) :
    g.getItem2 (.slice ⟨none, none, none⟩) (.slice ⟨none, none, none⟩) = .ok g.allCells := by
  simp only [getItem2, sliceIndices_full]
  have : ((List.range g.w.toNat).map fun (k : Nat) => (k : Int)).isEmpty = false := by
    have : g.w.toNat ≠ 0 := by omega
    cases hn : g.w.toNat with
    | zero => exact absurd hn this
    | succ m => simp [List.range_succ_eq_map]
  rw [this]
  simp only [Bool.false_eq_true, if_false]
  unfold allCells
  simp [List.flatMap_map, List.map_map, Function.comp_def]

/-- `grid[x, :]` is column `x` (the one `grid[x]` returns) for an in-grid `x` -/
theorem getItem2_column (g : Grid) (hh : 0 < g.h) (x : Int) (hx : 0 ≤ x ∧ x < g.w) :
    g.getItem2 (.int x) (.slice ⟨none, none, none⟩) = g.getColumn x := by
  simp only [getItem2, getColumn]
  rw [torusAdj_inGrid g (x, 0) ⟨hx.1, hx.2, by simp, by simpa using hh⟩, sliceIndices_full, pyIndex_inRange _ _ hx]
  simp [List.map_map, Function.comp_def]

theorem getItem2_int_int (g : Grid) (x y : Int) :
    g.getItem2 (.int x) (.int y) = (g.torusAdj (x, y)).map fun c => [c] := by
  simp only [getItem2]
  cases g.torusAdj (x, y) <;> rfl

theorem getMany_ok (g : Grid) (hw : 0 < g.w) (hh : 0 < g.h) (ps cs : List Coord) (h : g.getMany ps = .ok cs) :
    cs.length = ps.length ∧ (∀ c ∈ cs, g.inGrid c) ∧ ∀ pc ∈ ps.zip cs, g.torusAdj pc.1 = .ok pc.2 := by
  unfold getMany at h
  split at h
  · cases h
  · exact adjAll_ok g hw hh ps cs h

theorem sliceIndices_error (n : Int) (s : PySlice) : sliceIndices n s = .error .value ↔ s.step = some 0 := by
  unfold sliceIndices
  simp only []
  constructor
  · intro h
    by_cases h0 : s.step.getD 1 = 0
    · cases hs : s.step with
      | none => rw [hs] at h0; simp at h0
      | some v => rw [hs] at h0; simp at h0; rw [h0]
    · rw [if_neg h0] at h
      split at h <;> cases h
  · intro h
    rw [h]
    simp

theorem c08_isCellEmpty_any_integers (g : Grid) (hw : 0 < g.w) (hh : 0 < g.h) (p : Coord) :
    (g.inGrid p → g.isCellEmptyRaw p = .ok (g.isCellEmpty p)) ∧
    (∀ b, g.isCellEmptyRaw p = .ok b → ∃ c, g.inGrid c ∧ (c.1 = p.1 ∨ c.1 = p.1 + g.w) ∧ (c.2 = p.2 ∨ c.2 = p.2 + g.h) ∧
      b = g.isCellEmpty c) ∧
    ((∃ e, g.isCellEmptyRaw p = .error e) ↔ (p.1 < -g.w ∨ g.w ≤ p.1 ∨ p.2 < -g.h ∨ g.h ≤ p.2)) := by
  refine ⟨fun h => by unfold isCellEmptyRaw; rw [rawCell_inGrid g p h], ?_, ?_⟩
  · intro b hb
    unfold isCellEmptyRaw at hb
    cases hc : g.rawCell p with
    | error e => rw [hc] at hb; cases hb
    | ok c =>
      rw [hc] at hb; cases hb
      obtain ⟨h1, h2, h3⟩ := rawCell_ok g p c hc
      exact ⟨c, h1, h2, h3, rfl⟩
  · rw [← rawCell_error g hw hh p]
    unfold isCellEmptyRaw
    constructor
    · rintro ⟨e, he⟩
      cases hc : g.rawCell p with
      | error e' => exact ⟨e', rfl⟩
      | ok c => rw [hc] at he; cases he
    · rintro ⟨e, he⟩; exact ⟨e, by rw [he]⟩

end Mesa.Legacy
