import MesaModel.Proofs.Devs
/-! ABMSimulator: `model.step` is armed for exactly the next tick at all times (C15). -/
namespace Mesa.Devs

def stepEvs (l : List Ev) : List Ev := l.filter (·.isStep)

theorem stepEvs_insert_user {e : Ev} (l : List Ev) (he : e.isStep = false) :
    stepEvs (insert e l) = stepEvs l := by
  induction l with
  | nil => simp [insert, stepEvs, he]
  | cons x xs ih =>
    simp only [insert]
    split
    · simp [stepEvs, List.filter_cons, he]
    · simp only [stepEvs, List.filter_cons] at ih ⊢
      rw [ih]

theorem stepEvs_insert_step {e : Ev} (l : List Ev) (he : e.isStep = true) (hl : stepEvs l = []) :
    stepEvs (insert e l) = [e] := by
  induction l with
  | nil => simp [insert, stepEvs, he]
  | cons x xs ih =>
    simp only [stepEvs, List.filter_cons] at hl
    split at hl
    · simp at hl
    · rename_i hx
      simp only [insert]
      split
      · simp only [stepEvs, List.filter_cons, he, if_true, hx]
        simpa [stepEvs] using hl
      · simp only [stepEvs, List.filter_cons, hx]
        exact ih hl

theorem stepEvs_map_user (l : List Ev) (g : Ev → Ev) (hg : ∀ e, (g e).isStep = e.isStep)
    (hs : ∀ e, e.isStep = true → g e = e) : stepEvs (l.map g) = stepEvs l := by
  induction l with
  | nil => rfl
  | cons x xs ih =>
    simp only [stepEvs, List.map_cons, List.filter_cons, hg] at ih ⊢
    split
    · rename_i hx; rw [hs x hx, ih]
    · exact ih

theorem stepEvs_append (a b : List Ev) : stepEvs (a ++ b) = stepEvs a ++ stepEvs b := by
  simp [stepEvs]

/-- the armed step event -/
structure Armed (s : Sim) (st : Ev) : Prop where
  only : stepEvs s.pending = [st]
  live : st.cancelled = false
  alive : st.dead = false
  isStep : st.isStep = true
  time : st.time = ((s.steps : Int) + 1) * U
  prio : st.prio = 1

def stepClocks (l : List LogEntry) : List Int := (l.filter (·.isStep)).map (·.clock)

theorem stepClocks_snoc_step (l : List LogEntry) (i : Nat) (c : Int) :
    stepClocks (l ++ [.step i c]) = stepClocks l ++ [c] := by
  simp [stepClocks, LogEntry.isStep, LogEntry.clock]

theorem stepClocks_snoc_user (l : List LogEntry) (i t : Nat) (c : Int) :
    stepClocks (l ++ [.user i t c]) = stepClocks l := by
  simp [stepClocks, LogEntry.isStep]

structure StepInv (s : Sim) : Prop where
  abm : s.kind = .abm
  armed : ∃ st, Armed s st
  le : (s.steps : Int) * U ≤ s.now
  stepLog : stepClocks s.log = (List.range s.steps).map (fun (i : Nat) => ((i : Int) + 1) * U)

theorem setup_stepInv (p : Nat → List Cmd) (sp : List Cmd) : StepInv (setup (init .abm p sp)) := by
  refine ⟨rfl, ⟨_, ⟨rfl, rfl, rfl, rfl, ?_, rfl⟩⟩, ?_, ?_⟩
  · simp [setup, rearm, init, pushStep, insert]
  · simp [setup, rearm, init, pushStep]
  · simp [setup, rearm, init, pushStep, stepClocks]

theorem pushUser_pending_stepEvs (s : Sim) (t : Int) (p a : Nat) (c : Option Nat := none) :
    stepEvs (pushUser s t p a c).pending = stepEvs s.pending :=
  stepEvs_insert_user _ rfl

theorem doCmd1_stepEvs (s : Sim) (c : Cmd) : stepEvs (doCmd1 s c).pending = stepEvs s.pending := by
  cases c with
  | schedAbs t p a =>
    simp only [doCmd1, schedAbs]
    split
    · rename_i s' hs
      split at hs
      · simp at hs
      · split at hs
        · simp at hs
        · simp only [Except.ok.injEq] at hs; subst hs; exact pushUser_pending_stepEvs _ _ _ _
    · rfl
  | schedRel d p a =>
    simp only [doCmd1, schedRel]
    split
    · rename_i s' hs
      split at hs
      · simp at hs
      · split at hs
        · simp at hs
        · simp only [Except.ok.injEq] at hs; subst hs; exact pushUser_pending_stepEvs _ _ _ _
    · rfl
  | again k d p =>
    rcases doCmd1_again_cases s k d p with he | ⟨a, _, _, he⟩ <;> rw [he]
    exact pushUser_pending_stepEvs _ _ _ _ _
  | cancel k =>
    simp only [doCmd1, cancelTag]
    apply stepEvs_map_user
    · intro e; split <;> rfl
    · intro e he; simp [he]
  | drop k =>
    simp only [doCmd1, dropFn]
    apply stepEvs_map_user
    · intro e; split <;> rfl
    · intro e he; simp [he]
  | halt => rfl
  | raise x => rfl

theorem doCmd_stepEvs (s : Sim) (c : Cmd) : stepEvs (doCmd s c).pending = stepEvs s.pending := by
  unfold doCmd; split
  · rfl
  · exact doCmd1_stepEvs s c

theorem foldl_doCmd_stepEvs (s : Sim) (cs : List Cmd) :
    stepEvs (cs.foldl doCmd s).pending = stepEvs s.pending := by
  induction cs generalizing s with
  | nil => rfl
  | cons c cs ih => simp only [List.foldl_cons]; rw [ih, doCmd_stepEvs]

/-- user-level commands keep the invariant -/
theorem foldl_doCmd_stepInv {s : Sim} (h : StepInv s) (cs : List Cmd) : StepInv (cs.foldl doCmd s) := by
  have hf := foldl_doCmd_frame s cs
  obtain ⟨st, ha⟩ := h.armed
  refine ⟨by rw [hf.2.2.2.1]; exact h.abm, ⟨st, ⟨?_, ha.live, ha.alive, ha.isStep, ?_, ha.prio⟩⟩, ?_, ?_⟩
  · rw [foldl_doCmd_stepEvs]; exact ha.only
  · rw [hf.2.2.1]; exact ha.time
  · rw [hf.2.2.1, hf.1]; exact h.le
  · rw [hf.2.1, hf.2.2.1]; exact h.stepLog

theorem doCmd_stepInv {s : Sim} (h : StepInv s) (c : Cmd) : StepInv (doCmd s c) :=
  foldl_doCmd_stepInv h [c]

/-- where the armed step event sits relative to a pop -/
theorem armed_pop {s : Sim} {st e : Ev} {rest : List Ev} (ha : Armed s st)
    (hp : popLive s.pending = some (e, rest)) :
    (e = st ∧ stepEvs rest = []) ∨ (e.isStep = false ∧ stepEvs rest = [st]) := by
  obtain ⟨hd, _⟩ := popLive_decomp hp
  have h1 := ha.only
  rw [hd, stepEvs_append] at h1
  have hsk : stepEvs (skipped s.pending) = [] := by
    cases hk : stepEvs (skipped s.pending) with
    | nil => rfl
    | cons x xs =>
      rw [hk] at h1
      have hx : x ∈ stepEvs (skipped s.pending) := by rw [hk]; simp
      have hx2 : x ∈ skipped s.pending := (List.mem_filter.mp hx).1
      have hc := skipped_cancelled x hx2
      simp only [List.cons_append, List.cons.injEq] at h1
      rw [h1.1] at hc
      rw [ha.live] at hc
      simp at hc
  rw [hsk, List.nil_append] at h1
  simp only [stepEvs, List.filter_cons] at h1
  split at h1
  · simp only [List.cons.injEq] at h1
    exact Or.inl ⟨h1.1, h1.2⟩
  · rename_i hne
    exact Or.inr ⟨by simpa using hne, h1⟩

theorem armed_not_none {s : Sim} {st : Ev} (ha : Armed s st) : popLive s.pending ≠ none := by
  intro hp
  have hmem : st ∈ stepEvs s.pending := by rw [ha.only]; simp
  have := popLive_none_all_cancelled hp st (List.mem_filter.mp hmem).1
  rw [ha.live] at this
  simp at this

theorem Int_succ_mul (n : Nat) : ((n + 1 : Nat) : Int) * U = (n : Int) * U + U := by
  rw [Int.natCast_add, Int.add_mul]; simp

/-- executing a popped event keeps the invariant -/
theorem exec_popped_stepInv {s : Sim} (hw : WF s) (h : StepInv s) {e : Ev} {rest : List Ev}
    (hp : popLive s.pending = some (e, rest)) : StepInv (exec (popped s e rest) e) := by
  obtain ⟨st, ha⟩ := h.armed
  have hfut := hw.future e (popLive_mem hp).1
  rcases armed_pop ha hp with ⟨rfl, hrest⟩ | ⟨hns, hrest⟩
  · -- the step event itself
    unfold exec
    rw [if_neg (by simp [ha.alive]), if_pos ha.isStep]
    apply foldl_doCmd_stepInv
    have hk : (popped s e rest).kind = .abm := h.abm
    have hr : rearm (popped s e rest) = pushStep (popped s e rest) := by unfold rearm; rw [hk]
    rw [hr]
    refine ⟨h.abm, ⟨_, ⟨stepEvs_insert_step _ rfl hrest, rfl, rfl, rfl, ?_, rfl⟩⟩, ?_, ?_⟩
    · show e.time + U = (((s.steps + 1 : Nat) : Int) + 1) * U
      rw [ha.time]
      have := Int_succ_mul (s.steps + 1)
      have h2 := Int_succ_mul s.steps
      simp only [Int.natCast_add, Int.natCast_one] at this h2 ⊢
      omega
    · show ((s.steps + 1 : Nat) : Int) * U ≤ e.time
      rw [ha.time]; simp
    · show stepClocks (s.log ++ [LogEntry.step e.id e.time])
          = (List.range (s.steps + 1)).map (fun (i : Nat) => ((i : Int) + 1) * U)
      rw [stepClocks_snoc_step, h.stepLog, List.range_succ, List.map_append, ha.time]
      simp
  · -- a user event
    unfold exec
    split
    · -- dead callable: nothing runs
      refine ⟨h.abm, ⟨st, ⟨hrest, ha.live, ha.alive, ha.isStep, ha.time, ha.prio⟩⟩, ?_, h.stepLog⟩
      exact Int.le_trans h.le hfut
    · rw [if_neg (by simp [hns])]
      apply foldl_doCmd_stepInv
      refine ⟨h.abm, ⟨st, ⟨hrest, ha.live, ha.alive, ha.isStep, ha.time, ha.prio⟩⟩, ?_, ?_⟩
      · exact Int.le_trans h.le hfut
      · show stepClocks (s.log ++ [LogEntry.user e.id e.tag e.time])
            = (List.range s.steps).map (fun (i : Nat) => ((i : Int) + 1) * U)
        rw [stepClocks_snoc_user, h.stepLog]

theorem runUntil_stepInv {f : Nat} {s s' : Sim} {T : Int} (hw : WF s) (h : StepInv s) (hT : s.now ≤ T)
    (hr : runUntil f s T = some s') : StepInv s' := by
  induction f generalizing s with
  | zero => simp [runUntil] at hr
  | succ f ih =>
    obtain ⟨st, ha⟩ := h.armed
    simp only [runUntil] at hr
    split at hr
    · rename_i hp; exact absurd hp (armed_not_none ha)
    · rename_i e rest hp
      obtain ⟨_, hlt, _⟩ := popLive_spec hw.sorted hp
      split at hr
      · rename_i heT
        split at hr
        · simp only [Option.some.injEq] at hr; subst hr; exact exec_popped_stepInv hw h hp
        · refine ih (exec_wf (popped_wf hw hp) e) (exec_popped_stepInv hw h hp) ?_ hr
          rw [exec_now]; exact heT
      · simp only [Option.some.injEq] at hr; subst hr
        refine ⟨h.abm, ⟨st, ⟨?_, ha.live, ha.alive, ha.isStep, ha.time, ha.prio⟩⟩, Int.le_trans h.le hT, h.stepLog⟩
        show stepEvs (insert e rest) = [st]
        rcases armed_pop ha hp with ⟨rfl, hrest⟩ | ⟨hns, hrest⟩
        · exact stepEvs_insert_step _ ha.isStep hrest
        · rw [stepEvs_insert_user _ hns]; exact hrest

theorem runNext_stepInv {s : Sim} (hw : WF s) (h : StepInv s) : StepInv (runNext s) := by
  obtain ⟨st, ha⟩ := h.armed
  unfold runNext
  split
  · rename_i hp; exact absurd hp (armed_not_none ha)
  · rename_i e rest hp
    exact exec_popped_stepInv hw h hp

/-- after `run_until(k ticks)` the step counter equals the clock -/
theorem steps_eq_clock {f : Nat} {s s' : Sim} {k : Nat} (hw : WF s) (h : StepInv s) (hT : s.now ≤ (k : Int) * U)
    (hr : runUntil f s ((k : Int) * U) = some s') (hn : s'.raised = none) : s'.steps = k ∧ s'.now = (k : Int) * U := by
  have hinv := runUntil_stepInv hw h hT hr
  obtain ⟨hnow, hpost, _⟩ := runUntil_post hw hr hn
  obtain ⟨st, ha⟩ := hinv.armed
  have hmem : st ∈ s'.pending := by
    have : st ∈ stepEvs s'.pending := by rw [ha.only]; simp
    exact (List.mem_filter.mp this).1
  have h1 := hpost st hmem ha.live
  rw [ha.time] at h1
  have h2 := hinv.le
  rw [hnow] at h2
  refine ⟨?_, hnow⟩
  have hU := U_pos
  have h3 : (k : Int) < (s'.steps : Int) + 1 := by
    apply Int.lt_of_mul_lt_mul_right h1 (Int.le_of_lt hU)
  have h4 : (s'.steps : Int) ≤ k := by
    apply Int.le_of_mul_le_mul_right h2 hU
  omega

/-- states of an ABM simulation: `setup` once, then any interleaving of commands and run calls -/
inductive ReachableAbm : Sim → Prop where
  | setup (p : Nat → List Cmd) (sp : List Cmd) : ReachableAbm (setup (init .abm p sp))
  | cmd {s : Sim} (c : Cmd) : ReachableAbm s → ReachableAbm (doCmd s c)
  | until {s s' : Sim} {f : Nat} {T : Int} : ReachableAbm s → s.now ≤ T → runUntil f s T = some s' → ReachableAbm s'
  | next {s : Sim} : ReachableAbm s → ReachableAbm (runNext s)
  | caught {s : Sim} : ReachableAbm s → ReachableAbm (caught s)

theorem ReachableAbm.reachable {s : Sim} (h : ReachableAbm s) : Reachable s := by
  induction h with
  | setup p sp => exact .setup (.init _ p sp)
  | cmd c _ ih => exact .cmd c ih
  | «until» _ hT hr ih => exact .until ih hT hr
  | next _ ih => exact .next ih
  | caught _ ih => exact .caught ih

theorem reachableAbm_inv {s : Sim} (h : ReachableAbm s) : StepInv s := by
  induction h with
  | setup p sp => exact setup_stepInv p sp
  | cmd c _ ih => exact doCmd_stepInv ih c
  | «until» hs hT hr ih => exact runUntil_stepInv (reachable_inv hs.reachable).1 ih hT hr
  | next hs ih => exact runNext_stepInv (reachable_inv hs.reachable).1 ih
  | caught _ ih =>
    obtain ⟨st, ha⟩ := ih.armed
    exact ⟨ih.abm, ⟨st, ⟨ha.only, ha.live, ha.alive, ha.isStep, ha.time, ha.prio⟩⟩, ih.le, ih.stepLog⟩

end Mesa.Devs
