import MesaModel.Proofs.Registry
/-! History-level non-interference between coexisting models (C02, review item M22). -/
namespace Mesa.Agents

/-- is `b` an agent of model `m'` in world `w0`? (ids are never reused and an agent never changes its model, so —
    as long as nobody creates agents in `m'` — these are the agents of `m'` for the rest of the history) -/
def agentOf (w0 : World) (m' : Nat) (b : Aid) : Bool := decide (modelOfI w0.info b = some m')

/-- a callback action that does not concern model `m'` -/
def Action.avoids (w0 : World) (m' : Nat) (self : Aid) : Action → Bool
  | .rmSelf => !agentOf w0 m' self
  | .rm b => !agentOf w0 m' b
  | .create m _ _ _ => m != m'
  | _ => true

def scriptAvoids (w0 : World) (m' : Nat) (script : Aid → List Action) : Prop :=
  ∀ a, ∀ act ∈ script a, act.avoids w0 m' a = true

/-- an operation (performed in world `w`) that does not concern model `m'`: it creates no agent in `m'`, removes no agent of
    `m'` (directly, by `remove_all_agents`, or in a callback), reorders none of its sets in place and draws nothing from its
    generator -/
def Op.avoids (w0 : World) (m' : Nat) (w : World) : Op → Prop
  | .newModel _ | .unhold _ | .mkSet _ _ => True
  | .create m _ _ _ | .createN m _ _ _ | .createAgents m _ _ _ _ | .removeAll m => m ≠ m'
  | .remove a => agentOf w0 m' a = false
  | .shuffle t => t.model w ≠ m'
  | .sort t _ => (∀ k, t ≠ .set k) → t.model w ≠ m'
  | .doSet s _ _ | .mapSet s _ _ | .groupDo s _ _ _ | .groupMap s _ _ _ => scriptAvoids w0 m' s
  | .doSetX s _ _ _ | .mapSetX s _ _ _ | .groupDoX s _ _ _ _ | .groupMapX s _ _ _ _ => scriptAvoids w0 m' s
  | .shuffleDo s _ t | .shuffleDoX s _ _ t => scriptAvoids w0 m' s ∧ t.model w ≠ m'

/-- what stays true of `m'` along a history that avoids it -/
structure Quiet (w0 : World) (m' : Nat) (w : World) : Prop where
  regs : w.regs[m']? = w0.regs[m']?
  agents : ∀ b, modelOfI w.info b = some m' ↔ agentOf w0 m' b = true

theorem Quiet.refl (w0 : World) (m' : Nat) : Quiet w0 m' w0 := ⟨rfl, fun b => by simp [agentOf]⟩

theorem quiet_congr {w0 w w' : World} {m' : Nat} (h : Quiet w0 m' w) (h1 : w'.regs = w.regs) (h2 : w'.info = w.info) :
    Quiet w0 m' w' := ⟨by rw [h1]; exact h.regs, fun b => by rw [h2]; exact h.agents b⟩

theorem quiet_removeAgent {w0 w : World} {m' : Nat} (h : Quiet w0 m' w) (b : Aid) (hb : agentOf w0 m' b = false) :
    Quiet w0 m' (removeAgent w b) := by
  refine ⟨?_, fun x => by rw [removeAgent_info]; exact h.agents x⟩
  cases hi : w.info[b]? with
  | none => rw [removeAgent_none hi]; exact h.regs
  | some i =>
    have hne : m' ≠ i.model := by
      intro e
      have : modelOfI w.info b = some m' := by simp [modelOfI, hi, e]
      rw [(h.agents b).mp this] at hb; simp at hb
    rw [removeAgent_regs_other w b i hi m' hne]; exact h.regs

theorem quiet_createAgent {w0 w : World} {m' : Nat} (h : Quiet w0 m' w) (m : Nat) (hm : m ≠ m') (ty : Ty) (hold : Bool)
    (x : Payload) : Quiet w0 m' (createAgent w m ty hold x) := by
  refine ⟨by rw [createAgent_regs_other w m m' (Ne.symm hm)]; exact h.regs, fun b => ?_⟩
  unfold createAgent
  cases hr : w.regs[m]? with
  | none => exact h.agents b
  | some r =>
    simp only
    by_cases hb : b < w.info.length
    · rw [modelOfI_append_lt _ _ hb]; exact h.agents b
    · rw [← h.agents b]
      have h1 : modelOfI w.info b = none := by
        simp [modelOfI, List.getElem?_eq_none (Nat.le_of_not_lt hb)]
      rw [h1]
      by_cases hb2 : b = w.info.length
      · subst hb2; simp [modelOfI, hm]
      · have hb3 : w.info.length + 1 ≤ b := Nat.lt_of_le_of_ne (Nat.le_of_not_lt hb) (fun e => hb2 e.symm)
        have : modelOfI (w.info ++ [({ model := m, ty := ty, uid := r.nextId, x := x } : Info)]) b = none := by
          have hlen : (w.info ++ [({ model := m, ty := ty, uid := r.nextId, x := x } : Info)]).length ≤ b := by
            simpa using hb3
          simp [modelOfI, List.getElem?_eq_none hlen]
        rw [this]

theorem quiet_createN {w0 w : World} {m' : Nat} (h : Quiet w0 m' w) (m : Nat) (hm : m ≠ m') (ty : Ty) (hold : Bool)
    (xs : List Payload) : Quiet w0 m' (createN w m ty hold xs) := by
  unfold createN
  induction xs generalizing w with
  | nil => exact h
  | cons x xs ih => exact ih (quiet_createAgent h m hm ty hold x)

theorem quiet_runAction {w0 w : World} {m' : Nat} (h : Quiet w0 m' w) (self : Aid) (act : Action)
    (ha : act.avoids w0 m' self = true) : Quiet w0 m' (runAction self w act) := by
  cases act with
  | rmSelf => exact quiet_removeAgent h self (by simpa [Action.avoids] using ha)
  | rm b => exact quiet_removeAgent h b (by simpa [Action.avoids] using ha)
  | create m ty n hold => exact quiet_createN h m (by simpa [Action.avoids] using ha) ty hold _
  | unhold b => exact quiet_congr h rfl rfl
  | addTo k b => exact quiet_congr h (setAdd_frame w k b).2.1 (setAdd_frame w k b).1
  | discardFrom k b => exact quiet_congr h (setDiscard_frame w k b).2.1 (setDiscard_frame w k b).1

theorem quiet_walk {w0 : World} {m' : Nat} (script : Aid → List Action) (hs : scriptAvoids w0 m' script) (arg : Nat)
    (refs : List Aid) {w : World} (h : Quiet w0 m' w) : Quiet w0 m' (walk script arg w refs) := by
  induction refs generalizing w with
  | nil => exact h
  | cons a refs ih =>
    rw [walk_cons]
    apply ih
    unfold turn
    split
    · unfold invoke
      have h' : Quiet w0 m' ({ w with log := w.log ++ [(a, arg)] } : World) := quiet_congr h rfl rfl
      have hsa := hs a
      generalize script a = acts at hsa
      generalize ({ w with log := w.log ++ [(a, arg)] } : World) = w' at h'
      induction acts generalizing w' with
      | nil => exact h'
      | cons act acts ih2 =>
        rw [List.foldl_cons]
        exact ih2 (fun x hx => hsa x (List.mem_cons_of_mem _ hx)) _ (quiet_runAction h' a act (hsa act List.mem_cons_self))
    · exact h

theorem quiet_walkX {w0 : World} {m' : Nat} (script : Aid → List Action) (hs : scriptAvoids w0 m' script)
    (raises : Aid → Bool) (arg : Nat) (refs : List Aid) {w : World} (h : Quiet w0 m' w) :
    Quiet w0 m' (walkX script raises arg w refs).1 := by
  obtain ⟨pre, _, hp⟩ := walkX_fst_walk script raises arg w refs
  rw [hp]; exact quiet_walk script hs arg pre h

theorem quiet_groups {w0 : World} {m' : Nat} (script : Aid → List Action) (hs : scriptAvoids w0 m' script) (arg : Nat)
    (gs : List (Nat × List Aid)) {w : World} (h : Quiet w0 m' w) :
    Quiet w0 m' (gs.foldl (fun w g => walk script arg w (g.2.filter (alive w))) w) := by
  induction gs generalizing w with
  | nil => exact h
  | cons g gs ih => rw [List.foldl_cons]; exact ih (quiet_walk script hs arg _ h)

theorem quiet_setRng {w0 w : World} {m' : Nat} (h : Quiet w0 m' w) (m : Nat) (hm : m ≠ m') (g : Rng) :
    Quiet w0 m' (setRng w m g) := by
  refine ⟨?_, fun b => by rw [setRng_info]; exact h.agents b⟩
  rw [setRng_regs, ← h.regs]
  cases w.regs[m']? <;> simp [Ne.symm hm]

theorem quiet_setRaw {w0 w : World} {m' : Nat} (h : Quiet w0 m' w) (t : Target) (l : List Aid)
    (ht : (∀ k, t ≠ .set k) → t.model w ≠ m') : Quiet w0 m' (setRaw w t l) := by
  refine ⟨?_, fun b => by rw [setRaw_info]; exact h.agents b⟩
  rw [← h.regs]
  cases t with
  | all j =>
    have hj : j ≠ m' := ht (fun k => by simp)
    simp only [setRaw]; split <;> simp [hj]
  | byType j ty =>
    have hj : j ≠ m' := ht (fun k => by simp)
    simp only [setRaw]; split <;> simp [hj]
  | set k => simp only [setRaw]; split <;> rfl

theorem quiet_step {w0 w : World} {m' : Nat} (hw : WInv List.Perm w) (hm : m' < w.regs.length) (h : Quiet w0 m' w) (op : Op)
    (ha : op.avoids w0 m' w) : Quiet w0 m' (step w op) := by
  cases op with
  | newModel g =>
    refine ⟨?_, fun b => h.agents b⟩
    rw [← h.regs]
    simp only [step, newModel]
    rw [List.getElem?_append_left hm]
  | create m ty hold x => exact quiet_createAgent h m ha ty hold x
  | createN m ty hold xs => exact quiet_createN h m ha ty hold xs
  | createAgents m ty hold n args => exact quiet_createN h m ha ty hold _
  | remove a => exact quiet_removeAgent h a ha
  | removeAll m =>
    simp only [step, removeAll]
    cases hr : w.regs[m]? with
    | none => exact h
    | some r =>
      simp only
      have hall : ∀ a ∈ r.hard, agentOf w0 m' a = false := by
        intro a ha'
        rw [(hw.regs m r hr).hard, mem_expectedHard] at ha'
        obtain ⟨⟨i, hi, him⟩, _⟩ := ha'
        cases hag : agentOf w0 m' a with
        | false => rfl
        | true =>
          have := (h.agents a).mpr hag
          simp [modelOfI, hi] at this
          exact absurd (him.symm.trans this) ha
      generalize r.hard = l at hall
      clear hr hm hw ha
      induction l generalizing w with
      | nil => exact h
      | cons a l ih =>
        rw [List.foldl_cons]
        exact ih (quiet_removeAgent h a (hall a List.mem_cons_self)) (fun x hx => hall x (List.mem_cons_of_mem _ hx))
  | unhold a => exact quiet_congr h rfl rfl
  | shuffle t =>
    simp only [step, shuffleInPlace]
    exact quiet_setRng (quiet_setRaw h t _ (fun _ => ha)) _ ha _
  | sort t asc => exact quiet_setRaw h t _ ha
  | mkSet m l => exact quiet_congr h rfl rfl
  | doSet script arg t => exact quiet_walk script ha arg _ h
  | shuffleDo script arg t =>
    simp only [step, shuffleDo]
    exact quiet_walk script ha.1 arg _ (quiet_setRng h _ ha.2 _)
  | mapSet script arg t =>
    simp only [step, mapSet, (walkMap_spec script arg _ w _).1]
    exact quiet_walk script ha arg _ h
  | groupDo script arg key t => exact quiet_groups script ha arg _ h
  | groupMap script arg key t =>
    simp only [step, groupMap_fst]
    exact quiet_groups script ha arg _ h
  | doSetX script raises arg t => exact quiet_walkX script ha raises arg _ h
  | shuffleDoX script raises arg t =>
    simp only [step, shuffleDoX]
    exact quiet_walkX script ha.1 raises arg _ (quiet_setRng h _ ha.2 _)
  | mapSetX script raises arg t =>
    simp only [step, mapSetX, (walkMapX_spec script raises arg _ w _).1]
    exact quiet_walkX script ha raises arg _ h
  | groupDoX script raises arg key t =>
    simp only [step, groupDoX_eq]
    exact quiet_walkX script ha raises arg _ h
  | groupMapX script raises arg key t =>
    simp only [step, groupMapX, (groupsMapX_spec script raises arg _ w _).1]
    have := groupDoX_eq script raises arg (key.eval w) w t
    unfold groupDoX at this
    rw [this]
    exact quiet_walkX script ha raises arg _ h

end Mesa.Agents
