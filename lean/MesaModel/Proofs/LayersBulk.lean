import MesaModel.Proofs.LayersTyped
/-!
Helper lemmas for C11 (bulk operations): the `np.vectorize` guard of `set_cells` / `modify_cells` (a layer
without entries), and the point-wise effect of the guarded calls.
-/
namespace Mesa.Layers

/-- a shape has no coordinates iff one of its dimensions is 0 -/
theorem cells_eq_nil_iff (dims : List Nat) : cells dims = [] ↔ 0 ∈ dims := by
  induction dims with
  | nil => simp [cells]
  | cons d ds ih =>
    simp only [cells, List.flatMap_eq_nil_iff, List.mem_range, List.map_eq_nil_iff, List.mem_cons]
    rw [ih]
    constructor
    · intro h
      by_cases hd : d = 0
      · exact Or.inl hd.symm
      · exact Or.inr (h 0 (by omega))
    · rintro (h | h) i hi
      · omega
      · exact h

theorem noEntries_eq {s : State} {l : Nat} (hl : l < s.nLayers) :
    s.noEntries l = (cells (s.layers l).dims).isEmpty := by
  simp [State.noEntries, State.layer?, hl]

theorem noEntries_iff {s : State} {l : Nat} (hl : l < s.nLayers) :
    s.noEntries l = true ↔ 0 ∈ (s.layers l).dims := by
  rw [noEntries_eq hl, List.isEmpty_iff, cells_eq_nil_iff]

theorem vecGuard_eq {s : State} {l : Nat} (hl : l < s.nLayers) (b : Bool) (k : State × Out) :
    vecGuard s l b k = if b = true ∧ 0 ∈ (s.layers l).dims then (s, .err (.value .size0)) else k := by
  unfold vecGuard
  have := noEntries_iff hl
  by_cases hb : b = true <;> by_cases hz : 0 ∈ (s.layers l).dims <;> simp_all

/-- the layers of the legacy implementation always have entries, and so has every layer attached to a grid that
    has cells -/
structure HasEntries (s : State) : Prop where
  legacy : s.impl ≠ .new → ∀ l, l < s.nLayers → 0 ∉ (s.layers l).dims

/-- `set_cells(v, cond)` past the guard: point-wise on that layer, nothing else changes, the cells show it -/
theorem setCells_pointwise {s s' : State} (h : Reach s) {l : Nat} (hl : l < s.nLayers) {v : Int}
    {cond : Option (Int → Bool)} {o : Out} (hset : setCells s l v cond = (s', o)) :
    o = .ok ∧
    (∀ l' c, l' < s.nLayers → s'.value l' c =
      if l' = l then (if condHolds cond (s.value l c) then v else s.value l c) else s.value l' c) ∧
    (∀ n c, s.named? n = some l → inBounds s.dims c = true →
      cellGet s' n c = .val (if condHolds cond (s.value l c) then v else s.value l c)) := by
  have hw := h.wf
  obtain ⟨ho, hs'⟩ := setCells_ok hl hset
  have hw' : WF s' := hw.of_sameShape (by rw [hs']; exact ⟨rfl, rfl, rfl, rfl, rfl, rfl, rfl, rfl, rfl, rfl⟩)
  have e3 : ∀ n, s'.named? n = s.named? n := by intro n; rw [hs']; rfl
  have e4 : s'.dims = s.dims := by rw [hs']
  have hv : ∀ l' c, l' < s.nLayers → s'.value l' c =
      if l' = l then (if condHolds cond (s.value l c) then v else s.value l c) else s.value l' c := by
    intro l' c hl'; rw [hs']; exact value_upd hw hl hl' _ c
  refine ⟨ho, hv, fun n c hn hc => ?_⟩
  rw [cellGet_eq_value hw' (by rw [e3]; exact hn) (by rw [e4]; exact hc), hv l c hl]
  simp

/-- `modify_cells(f, cond)` past the guard: a new array, point-wise, nothing else changes, the cells show it -/
theorem modifyCells_pointwise {s s' : State} (h : Reach s) {l : Nat} (hl : l < s.nLayers)
    {f : Int → Int} {cond : Option (Int → Bool)} {o : Out}
    (hmod : modifyCells s l (some f) cond = (s', o)) :
    o = .ok ∧ (s'.layers l).data ≠ (s.layers l).data ∧
    (∀ l' c, l' < s.nLayers → s'.value l' c =
      if l' = l then (if condHolds cond (s.value l c) then f (s.value l c) else s.value l c)
      else s.value l' c) ∧
    (∀ n c, s.named? n = some l → inBounds s.dims c = true →
      cellGet s' n c = .val (if condHolds cond (s.value l c) then f (s.value l c) else s.value l c)) := by
  have hw := h.wf
  have hw' : WF s' := by
    have := WF_modifyCells hw l (some f) cond
    rwa [hmod] at this
  obtain ⟨ho, hs'⟩ := modifyCells_ok hl hmod
  have hlt := hw.data_lt l hl
  have e3 : ∀ n, s'.named? n = s.named? n := by intro n; rw [hs']; rfl
  have e4 : s'.dims = s.dims := by rw [hs']
  have hv : ∀ l' c, l' < s.nLayers → s'.value l' c =
      if l' = l then (if condHolds cond (s.value l c) then f (s.value l c) else s.value l c)
      else s.value l' c := by
    intro l' c hl'
    rw [hs']
    unfold State.value
    simp only [upd]
    by_cases e : l' = l
    · subst e; simp
    · have := hw.data_lt l' hl'
      simp only [e, if_false]
      rw [if_neg (by omega)]
  refine ⟨ho, ?_, hv, fun n c hn hc => ?_⟩
  · rw [hs']; simp only [upd_same]; omega
  · rw [cellGet_eq_value hw' (by rw [e3]; exact hn) (by rw [e4]; exact hc), hv l c hl]
    simp

end Mesa.Layers
