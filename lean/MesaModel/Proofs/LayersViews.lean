import MesaModel.Proofs.LayersEmpty
import MesaModel.Proofs.LayersSelect
/-!
Helper lemmas for C11: reachable states, the value of a layer, and what each write does to the
values of *all* layers (effect on the written layer, frame on the others).
-/
namespace Mesa.Layers

/-- the states reachable by any history of ops on any grid of either implementation -/
inductive Reach : State → Prop where
  | init (impl : Impl) (dims : List Nat) (cap : Option Nat) : Reach (init impl dims cap)
  | step {s : State} (op : Op) : Reach s → Reach (step s op).1

theorem Reach.wf {s : State} (h : Reach s) : WF s := by
  induction h with
  | init impl dims cap => exact WF_init impl dims cap
  | step op _ ih => exact WF_step ih op

theorem reach_run {s : State} (h : Reach s) (ops : List Op) : Reach (run s ops).1 := by
  induction ops generalizing s with
  | nil => exact h
  | cons op ops ih => simp only [run]; exact ih (Reach.step op h)

theorem reach_iff (s : State) :
    Reach s ↔ ∃ impl dims cap ops, s = (run (init impl dims cap) ops).1 := by
  constructor
  · intro h
    induction h with
    | init impl dims cap => exact ⟨impl, dims, cap, [], rfl⟩
    | @step s op _ ih =>
      obtain ⟨impl, dims, cap, ops, rfl⟩ := ih
      refine ⟨impl, dims, cap, ops ++ [op], ?_⟩
      have : ∀ (t : State) (l : List Op), (run t (l ++ [op])).1 = (step (run t l).1 op).1 := by
        intro t l
        induction l generalizing t with
        | nil => simp [run]
        | cons x xs ih => simp only [List.cons_append, run]; exact ih _
      rw [this]
  · rintro ⟨impl, dims, cap, ops, rfl⟩
    exact reach_run (Reach.init impl dims cap) ops

/-- the value of layer `l` at `c`: the entry of the array the layer currently points to -/
def State.value (s : State) (l : Nat) (c : Coord) : Int := s.heap (s.layers l).data c

/-- writing array `(layers l).data` changes the value of layer `l` and of no other layer -/
theorem value_upd {s : State} (hw : WF s) {l l' : Nat} (hl : l < s.nLayers) (hl' : l' < s.nLayers)
    (x : Arr) (c : Coord) :
    ({ s with heap := upd s.heap (s.layers l).data x } : State).value l' c
      = if l' = l then x c else s.value l' c := by
  unfold State.value
  show upd s.heap (s.layers l).data x (s.layers l').data c = _
  by_cases h : l' = l
  · subst h; simp
  · rw [if_neg h, upd_other]
    intro he
    exact h (hw.data_inj l' l hl' hl he)

theorem layerGet_eq_value {s : State} {l : Nat} {c : Coord} (hl : l < s.nLayers)
    (hc : inBounds (s.layers l).dims c = true) : layerGet s l c = .val (s.value l c) := by
  unfold layerGet State.layer?
  simp [hl, hc, State.value]

/-- the cell view of an attached name is the value of the layer attached under it -/
theorem cellGet_eq_value {s : State} (hw : WF s) {n : String} {l : Nat} (hn : s.named? n = some l)
    {c : Coord} (hc : inBounds s.dims c = true) : cellGet s n c = .val (s.value l c) := by
  have hd := hw.att_dims n l hn
  unfold cellGet
  split
  · next hi =>
    have := hw.att_free hi n l hn
    have hdn : s.descr.lookup n = some l := (hw.descr_eq hi n).trans hn
    simp [hc, this, hdn, State.value]
  · simp [hn, hd, hc, State.value]

/-- the layer a cell attribute goes to is the one attached under that name (new: descriptor = dict entry) -/
theorem cellLayer?_eq {s : State} (hw : WF s) (n : String) : s.cellLayer? n = s.named? n := by
  unfold State.cellLayer? State.named?
  split
  · next hi => exact hw.descr_eq hi n
  · rfl

/-! ### successful writes, normalised -/

theorem layerSet_ok {s s' : State} {l : Nat} {c : Coord} {v : Int} (h : layerSet s l c v = (s', .ok)) :
    l < s.nLayers ∧ inBounds (s.layers l).dims c = true ∧
    s' = { s with heap := upd s.heap (s.layers l).data ((s.heap (s.layers l).data).set c v) } := by
  unfold layerSet at h
  split at h
  · simp at h
  · next L hL =>
    obtain ⟨hlt, rfl⟩ := layer?_some hL
    split at h
    · simp at h
    · next hb =>
      simp only [Prod.mk.injEq, and_true] at h
      exact ⟨hlt, by simpa using hb, h.symm⟩

theorem cellSet_ok_attached {s s' : State} (hw : WF s) {n : String} {l : Nat} {c : Coord} {v : Int}
    (hn : s.named? n = some l) (h : cellSet s n c v = (s', .ok)) :
    inBounds s.dims c = true ∧
    s' = { s with heap := upd s.heap (s.layers l).data ((s.heap (s.layers l).data).set c v) } := by
  have hd := hw.att_dims n l hn
  unfold cellSet at h
  split at h
  · next hi =>
    split at h
    · simp at h
    · next hb =>
      split at h
      · simp at h
      · simp only [Prod.mk.injEq, and_true] at h
        unfold cellAttrWrite at h
        rw [(hw.descr_eq hi n).trans hn] at h
        exact ⟨by simpa using hb, h.symm⟩
  · rw [hn] at h
    simp only at h
    split at h
    · simp at h
    · next hb =>
      simp only [Prod.mk.injEq, and_true] at h
      rw [hd] at hb
      exact ⟨by simpa using hb, h.symm⟩

theorem setCells_ok {s s' : State} {l : Nat} {v : Int} {cond : Option (Int → Bool)} {o : Out}
    (hl : l < s.nLayers) (h : setCells s l v cond = (s', o)) :
    o = .ok ∧ s' = { s with heap := upd s.heap (s.layers l).data
                              (fun c => if condHolds cond (s.heap (s.layers l).data c) then v
                                        else s.heap (s.layers l).data c) } := by
  unfold setCells State.layer? at h
  simp only [hl, if_true, Prod.mk.injEq] at h
  exact ⟨h.2.symm, h.1.symm⟩

theorem modifyCells_ok {s s' : State} {l : Nat} {f : Int → Int} {cond : Option (Int → Bool)} {o : Out}
    (hl : l < s.nLayers) (h : modifyCells s l (some f) cond = (s', o)) :
    o = .ok ∧ s' = { s with
      heap := upd s.heap s.next (fun c => if condHolds cond (s.heap (s.layers l).data c)
                then f (s.heap (s.layers l).data c) else s.heap (s.layers l).data c),
      adt := upd s.adt s.next (s.dtypeOf l),
      next := s.next + 1,
      layers := upd s.layers l { s.layers l with data := s.next } } := by
  unfold modifyCells State.layer? at h
  simp only [hl, if_true, Prod.mk.injEq] at h
  exact ⟨h.2.symm, h.1.symm⟩

theorem modifyCellsT_ok {s s' : State} {l : Nat} {f : Int → Int} {cond : Option (Int → Bool)} {rd : DType}
    {o : Out} (hl : l < s.nLayers) (h : modifyCellsT s l (some f) cond rd = (s', o)) :
    o = .ok ∧ s' = { s with
      heap := upd s.heap s.next (fun c => if condHolds cond (s.heap (s.layers l).data c)
                then recode rd ((s.dtypeOf l).join rd) (f (s.heap (s.layers l).data c))
                else recode (s.dtypeOf l) ((s.dtypeOf l).join rd) (s.heap (s.layers l).data c)),
      adt := upd s.adt s.next ((s.dtypeOf l).join rd),
      next := s.next + 1,
      layers := upd s.layers l { s.layers l with data := s.next } } := by
  unfold modifyCellsT State.layer? at h
  simp only [hl, if_true, Prod.mk.injEq] at h
  exact ⟨h.2.symm, h.1.symm⟩

/-- `set_cells` with a Python scalar: refused iff the cast is not `same_kind`, else the plain `set_cells`
    with the cast value -/
theorem setCellsV_eq {s : State} {l : Nat} (hl : l < s.nLayers) (x : Val) (cond : Option (Int → Bool)) :
    setCellsV s l x cond = if sameKind x.ty (s.dtypeOf l) then setCells s l (castTo (s.dtypeOf l) x) cond
                           else (s, .err .type) := by
  unfold setCellsV State.layer? State.dtypeOf
  simp only [hl, if_true]
  cases sameKind x.ty (s.adt (s.layers l).data) <;> simp

theorem modifyCell_ok {s s' : State} {l : Nat} {c : Coord} {f : Option (Int → Int)}
    (h : modifyCell s l c f = (s', .ok)) :
    ∃ g, f = some g ∧ l < s.nLayers ∧ inBounds (s.layers l).dims c = true ∧
    s' = { s with heap := upd s.heap (s.layers l).data
                            ((s.heap (s.layers l).data).set c (g (s.heap (s.layers l).data c))) } := by
  unfold modifyCell at h
  split at h
  · simp at h
  · split at h
    · simp at h
    · next L hL =>
      obtain ⟨hlt, rfl⟩ := layer?_some hL
      split at h
      · simp at h
      · next hb =>
        split at h
        · simp at h
        · next g =>
          simp only [Prod.mk.injEq, and_true] at h
          exact ⟨g, rfl, hlt, by simpa using hb, h.symm⟩

theorem hset_ok {s s' : State} {hd : Nat} {c : Coord} {v : Int} (h : hset s hd c v = (s', .ok)) :
    ∃ a d, s.handles.lookup hd = some (a, d) ∧ inBounds d c = true ∧
    s' = { s with heap := upd s.heap a ((s.heap a).set c v) } := by
  unfold hset at h
  split at h
  · simp at h
  · next a d hlk =>
    split at h
    · simp at h
    · next hb =>
      simp only [Prod.mk.injEq, and_true] at h
      exact ⟨a, d, hlk, by simpa using hb, h.symm⟩

end Mesa.Layers
