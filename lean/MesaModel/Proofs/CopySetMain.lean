import MesaModel.Proofs.CopySetWF
/-! The frame theorem over operation sequences and the copy lemmas of `Model/CopySet.lean`. -/
namespace Mesa.CopySet

variable {w : World} {s : Nat}

theorem agree_step (hw : WF w) (hs : s < w.next) (op : Op) (hav : ∀ x ∈ writes w op, x ∉ deps w s) :
    Agree w (step w op) s := by
  cases op with
  | newModel sc => exact agree_newModel hw hs sc
  | create m v => exact agree_create hw hs v (hav m (by simp [writes]))
  | remove a => exact agree_remove a hav
  | setW a v => exact agree_setW a v (hav a (by simp [writes]))
  | mkSet m as => exact agree_mkSet hw hs m as
  | add t a => exact agree_add t a (hav t (by simp [writes]))
  | discard t a => exact agree_discard t a (hav t (by simp [writes]))
  | sortW t => exact agree_sortW t (hav t (by simp [writes]))
  | shuffle t => exact agree_shuffle t hav
  | copy t =>
    simp only [step]
    cases hc : copySet w t with
    | none => exact Agree.refl _ _
    | some p =>
      obtain ⟨w', t'⟩ := p
      exact agree_copy hw hs t true hc

/-- along the run every operation writes only identities satisfying `P` -/
def WritesOnly (P : Nat → Prop) : World → List Op → Prop
  | _, [] => True
  | w, op :: ops => (∀ x ∈ writes w op, P x) ∧ WritesOnly P (step w op) ops

theorem frame_run (hw : WF w) {r : SetRec} (hr : w.sets s = some r) (ops : List Op)
    (hav : WritesOnly (fun x => x ∉ deps w s) w ops) : view (run w ops) s = view w s := by
  induction ops generalizing w r with
  | nil => rfl
  | cons op ops ih =>
    obtain ⟨h1, h2⟩ := hav
    have hs : s < w.next := (hw.setsLt s r hr).1
    have hag := agree_step hw hs op h1
    have hr' : (step w op).sets s = some r := by rw [hag.set, hr]
    have hd : deps (step w op) s = deps w s := hag.deps_eq
    simp only [run, List.foldl_cons]
    have := ih (hw.step op) hr' (by rw [hd]; exact h2)
    simp only [run] at this
    rw [this, hag.view_eq]

theorem WritesOnly.mono {P Q : Nat → Prop} (h : ∀ x, P x → Q x) : ∀ {w : World} {ops : List Op},
    WritesOnly P w ops → WritesOnly Q w ops
  | _, [], _ => trivial
  | _, _ :: _, ⟨h1, h2⟩ => ⟨fun x hx => h x (h1 x hx), WritesOnly.mono h h2⟩

/-! ### the copy -/

/-- the identity shift of a view -/
def shiftItems (B : Nat) (items : List (Nat × Nat × Int × Nat)) : List (Nat × Nat × Int × Nat) :=
  items.map fun (a, u, x, m) => (a + B, u, x, m + B)

section
variable (t : Nat) (r : SetRec) (k : Bool)

theorem copyWorld_agents_shift (a : Nat) : (copyWorld w t r k).agents (a + w.next) =
    if copiedA w r a then (w.agents a).map fun ar => { ar with model := ar.model + w.next } else none := by
  simp [copyWorld]

theorem copyWorld_models_shift (m : Nat) : (copyWorld w t r k).models (m + w.next) =
    if (copiedM w r).contains m then
      (w.models m).map fun mr => { reg := mr.reg.map (· + w.next), gen := mr.gen + w.next } else none := by
  simp [copyWorld]

theorem copyWorld_gens_shift (g : Nat) : (copyWorld w t r k).gens (g + w.next) =
    if copiedG w r g then w.gens g else none := by
  simp [copyWorld]

theorem copyWorld_sets_new : (copyWorld w t r k).sets (t + w.next) =
    some { members := (aliveMembers w r).map (· + w.next), gen := r.gen + w.next,
           owners := if k then (copiedM w r).map (· + w.next) else [] } := by
  simp [copyWorld]

theorem copyWorld_setIds : (copyWorld w t r k).setIds = w.setIds ++ [t + w.next] := rfl
end

theorem mem_copiedM {r : SetRec} {a : Nat} {ar : AgentRec} (ha : a ∈ aliveMembers w r) (har : w.agents a = some ar) :
    ar.model ∈ copiedM w r := by
  simp only [copiedM, modelsOf]
  rw [mem_dedup]
  simp only [List.mem_filterMap]
  exact ⟨a, ha, by simp [har]⟩

/-- with the repair S24 the twin of every alive member is alive in the new world -/
theorem alive_shift (t : Nat) {r : SetRec} {a : Nat} (ha : a ∈ aliveMembers w r) :
    agentAlive (copyWorld w t r true) (a + w.next) = true := by
  have hal := (List.mem_filter.mp ha).2
  obtain ⟨ar, mr, har, hmr, _, hreg⟩ := agentAlive_some hal
  have hm := mem_copiedM ha har
  have hcA : copiedA w r a = true := by
    simp only [copiedA, har, hmr, Bool.and_eq_true, List.contains_iff_mem]
    exact ⟨hm, hreg⟩
  unfold agentAlive
  rw [copyWorld_agents_shift, hcA]
  simp only [if_true, har, Option.map_some]
  rw [copyWorld_models_shift]
  have hcM : (copiedM w r).contains ar.model = true := by simpa using hm
  simp only [hcM, if_true, hmr, Option.map_some, Bool.and_eq_true, List.contains_iff_mem, List.mem_map]
  refine ⟨?_, a, hreg, rfl⟩
  unfold modelAlive
  rw [copyWorld_models_shift]
  simp only [hcM, if_true, hmr, Option.map_some, Option.isSome_some, Bool.true_and, Bool.or_eq_true]
  right
  unfold owned
  rw [copyWorld_setIds, List.any_append]
  simp only [List.any_cons, List.any_nil, Bool.or_false, Bool.or_eq_true]
  right
  simp only [ownersOf, copyWorld_sets_new, if_true, List.contains_iff_mem, List.mem_map]
  exact ⟨ar.model, hm, rfl⟩

theorem copy_view (t : Nat) {w' : World} {t' : Nat} (hc : copySet w t = some (w', t')) :
    ∃ items script, view w t = some (items, script) ∧ t' = t + w.next ∧
      view w' t' = some (shiftItems w.next items, script) := by
  unfold copySet at hc
  split at hc
  · simp at hc
  rename_i r hr
  simp only [Option.some.injEq, Prod.mk.injEq] at hc
  obtain ⟨rfl, rfl⟩ := hc
  refine ⟨itemsOf w (aliveMembers w r), scriptOf w r.gen, by simp [view, hr], rfl, ?_⟩
  simp only [view, copyWorld_sets_new]
  have hal : ∀ o, aliveMembers (copyWorld w t r true)
      { members := (aliveMembers w r).map (· + w.next), gen := r.gen + w.next, owners := o } =
      (aliveMembers w r).map (· + w.next) := by
    intro o
    unfold aliveMembers
    simp only
    rw [List.filter_eq_self]
    intro x hx
    simp only [List.mem_map] at hx
    obtain ⟨a, ha, rfl⟩ := hx
    exact alive_shift t ha
  rw [hal]
  congr 2
  · -- the records
    simp only [itemsOf, shiftItems, List.filterMap_map, List.map_filterMap]
    apply filterMap_congr'
    intro a ha
    have hal' := (List.mem_filter.mp ha).2
    obtain ⟨ar, mr, har, hmr, _, hreg⟩ := agentAlive_some hal'
    have hm := mem_copiedM ha har
    have hcA : copiedA w r a = true := by
      simp only [copiedA, har, hmr, Bool.and_eq_true, List.contains_iff_mem]
      exact ⟨hm, hreg⟩
    simp only [Function.comp, copyWorld_agents_shift, hcA, if_true, har, Option.map_some]
  · -- the generator
    unfold scriptOf
    rw [copyWorld_gens_shift]
    have : copiedG w r r.gen = true := by simp [copiedG]
    simp only [this, if_true]

/-- everything the copy's view depends on is fresh -/
theorem copy_deps_fresh (t : Nat) {w' : World} {t' : Nat} (hc : copySet w t = some (w', t')) :
    ∀ x ∈ deps w' t', w.next ≤ x := by
  unfold copySet at hc
  split at hc
  · simp at hc
  rename_i r hr
  simp only [Option.some.injEq, Prod.mk.injEq] at hc
  obtain ⟨rfl, rfl⟩ := hc
  intro x hx
  simp only [deps, copyWorld_sets_new, List.mem_cons, List.mem_append, List.mem_map, List.mem_filterMap] at hx
  rcases hx with rfl | rfl | ⟨a, _, rfl⟩ | ⟨b, ⟨a, _, rfl⟩, hb⟩
  · omega
  · omega
  · omega
  · rw [copyWorld_agents_shift] at hb
    split at hb
    · cases har : w.agents a with
      | none => simp [har] at hb
      | some ar =>
        simp only [har, Option.map_some, Option.some.injEq] at hb
        omega
    · simp at hb

end Mesa.CopySet

namespace Mesa.CopySet

variable {w : World}

/-- the model of an alive member is alive and is one of the reconstructed models -/
theorem member_model {r : SetRec} {a : Nat} (ha : a ∈ aliveMembers w r) :
    ∃ ar mr, w.agents a = some ar ∧ w.models ar.model = some mr ∧ modelAlive w ar.model = true ∧ ar.model ∈ copiedM w r := by
  have hal := (List.mem_filter.mp ha).2
  obtain ⟨ar, mr, har, hmr, hma, _⟩ := agentAlive_some hal
  exact ⟨ar, mr, har, hmr, hma, mem_copiedM ha har⟩

/-- the registry of a reconstructed model is the shifted registry of the original — every registered agent, members of the set
    or not, in registration order — and the reconstructed model is alive -/
theorem copy_registry (t : Nat) {r : SetRec} {m : Nat} {mr : ModelRec} (hm : m ∈ copiedM w r) (hmr : w.models m = some mr) :
    regView (copyWorld w t r true) (m + w.next) = some (mr.reg.map (· + w.next)) ∧
    (copyWorld w t r true).models (m + w.next) = some { reg := mr.reg.map (· + w.next), gen := mr.gen + w.next } := by
  have hcM : (copiedM w r).contains m = true := by simpa using hm
  have hmod : (copyWorld w t r true).models (m + w.next) =
      some { reg := mr.reg.map (· + w.next), gen := mr.gen + w.next } := by
    rw [copyWorld_models_shift]; simp only [hcM, if_true, hmr, Option.map_some]
  refine ⟨?_, hmod⟩
  have halive : modelAlive (copyWorld w t r true) (m + w.next) = true := by
    unfold modelAlive
    rw [hmod]
    simp only [Option.isSome_some, Bool.true_and, Bool.or_eq_true]
    right
    unfold owned
    rw [copyWorld_setIds, List.any_append]
    simp only [List.any_cons, List.any_nil, Bool.or_false, Bool.or_eq_true]
    right
    simp only [ownersOf, copyWorld_sets_new, if_true, List.contains_iff_mem, List.mem_map]
    exact ⟨m, hm, rfl⟩
  simp only [regView, halive, if_true, hmod, Option.map_some]

end Mesa.CopySet
