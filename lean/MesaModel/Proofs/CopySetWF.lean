import MesaModel.Proofs.CopySetFrame
/-! Every operation of `Model/CopySet.lean` preserves well-formedness (all identities below `next`). -/
namespace Mesa.CopySet

variable {w : World}

theorem WF.newModel (hw : WF w) (sc : List Nat) : WF (newModel w sc).1 := by
  constructor
  · intro i ar h
    have := hw.agentsLt i ar h
    simp only [CopySet.newModel]; omega
  · intro i mr h
    simp only [CopySet.newModel, upd] at h ⊢
    split at h
    · simp only [Option.some.injEq] at h
      subst h
      subst_vars
      simp
    · obtain ⟨h1, h2, h3⟩ := hw.modelsLt i mr h
      exact ⟨by omega, by omega, fun a ha => by have := h3 a ha; omega⟩
  · intro i r h
    obtain ⟨h0, h1, h2, h3⟩ := hw.setsLt i r h
    exact ⟨by simp only [CopySet.newModel]; omega, by simp only [CopySet.newModel]; omega,
      fun a ha => by have := h2 a ha; simp only [CopySet.newModel]; omega,
      fun a ha => by have := h3 a ha; simp only [CopySet.newModel]; omega⟩
  · intro t ht
    have := hw.setIdsLt t ht
    simp only [CopySet.newModel]; omega

/-- a world that differs from a well-formed one by a larger `next` and by records that respect it -/
theorem WF.of_le {w w' : World} (hw : WF w) (hn : w.next ≤ w'.next)
    (ha : ∀ i ar, w'.agents i = some ar → w.agents i = some ar ∨ (i < w'.next ∧ ar.model < w'.next))
    (hm : ∀ i mr, w'.models i = some mr → w.models i = some mr ∨ (i < w'.next ∧ mr.gen < w'.next ∧ ∀ a ∈ mr.reg, a < w'.next))
    (hs : ∀ i r, w'.sets i = some r → w.sets i = some r ∨
      (i < w'.next ∧ r.gen < w'.next ∧ (∀ a ∈ r.members, a < w'.next) ∧ ∀ m ∈ r.owners, m < w'.next))
    (hi : ∀ t ∈ w'.setIds, t ∈ w.setIds ∨ t < w'.next) : WF w' := by
  constructor
  · intro i ar h
    rcases ha i ar h with h | h
    · have := hw.agentsLt i ar h; omega
    · exact h
  · intro i mr h
    rcases hm i mr h with h | h
    · obtain ⟨h1, h2, h3⟩ := hw.modelsLt i mr h
      exact ⟨by omega, by omega, fun a ha => by have := h3 a ha; omega⟩
    · exact h
  · intro i r h
    rcases hs i r h with h | h
    · obtain ⟨h0, h1, h2, h3⟩ := hw.setsLt i r h
      exact ⟨by omega, by omega, fun a ha => by have := h2 a ha; omega, fun a ha => by have := h3 a ha; omega⟩
    · exact h
  · intro t ht
    rcases hi t ht with h | h
    · have := hw.setIdsLt t h; omega
    · exact h

theorem upd_cases {β} {f : Nat → Option β} {k i : Nat} {v x : β} (h : upd f k v i = some x) :
    (i = k ∧ x = v) ∨ f i = some x := by
  unfold upd at h
  split at h
  · left; exact ⟨by assumption, by simpa using h.symm⟩
  · right; exact h

theorem agentAlive_lt (hw : WF w) {a : Nat} (h : agentAlive w a = true) : a < w.next := by
  obtain ⟨ar, _, har, _⟩ := agentAlive_some h
  exact (hw.agentsLt a ar har).1

theorem WF.step (hw : WF w) (op : Op) : WF (step w op) := by
  cases op with
  | newModel sc => exact hw.newModel sc
  | create m v =>
    simp only [CopySet.step]
    cases hc : create w m v with
    | none => exact hw
    | some p =>
      obtain ⟨w', a, uid⟩ := p
      simp only
      unfold create at hc
      split at hc
      · simp at hc
      split at hc
      · simp at hc
      rename_i mr hmr
      simp only [Option.some.injEq, Prod.mk.injEq] at hc
      obtain ⟨rfl, _, _⟩ := hc
      obtain ⟨hm1, hm2, hm3⟩ := hw.modelsLt m mr hmr
      apply hw.of_le (by simp)
      · intro i ar h
        rcases upd_cases h with ⟨rfl, rfl⟩ | h
        · right; simp; omega
        · left; exact h
      · intro i mr' h
        rcases upd_cases h with ⟨rfl, rfl⟩ | h
        · right
          refine ⟨by simp; omega, by simp; omega, ?_⟩
          intro a ha
          simp only [List.mem_append, List.mem_singleton] at ha
          rcases ha with ha | rfl
          · have := hm3 a ha; simp; omega
          · simp
        · left; exact h
      · intro i r h; left; exact h
      · intro t ht; left; exact ht
  | remove a =>
    simp only [CopySet.step]
    cases hc : remove w a with
    | none => exact hw
    | some w' =>
      simp only [Option.getD_some]
      unfold remove at hc
      split at hc
      · simp at hc
      split at hc
      · simp at hc
      rename_i ar har
      split at hc
      · simp at hc
      rename_i mr hmr
      simp only [Option.some.injEq] at hc
      subst hc
      obtain ⟨hm1, hm2, hm3⟩ := hw.modelsLt _ mr hmr
      apply hw.of_le (by simp)
      · intro i ar h; left; exact h
      · intro i mr' h
        rcases upd_cases h with ⟨rfl, rfl⟩ | h
        · right
          exact ⟨hm1, hm2, fun x hx => hm3 x (List.mem_of_mem_erase hx)⟩
        · left; exact h
      · intro i r h; left; exact h
      · intro t ht; left; exact ht
  | setW a v =>
    simp only [CopySet.step]
    cases hc : setW w a v with
    | none => exact hw
    | some w' =>
      simp only [Option.getD_some]
      unfold setW at hc
      split at hc
      · simp at hc
      split at hc
      · simp at hc
      rename_i ar har
      simp only [Option.some.injEq] at hc
      subst hc
      apply hw.of_le (by simp)
      · intro i ar' h
        rcases upd_cases h with ⟨rfl, rfl⟩ | h
        · right; exact hw.agentsLt _ ar har
        · left; exact h
      · intro i mr' h; left; exact h
      · intro i r h; left; exact h
      · intro t ht; left; exact ht
  | mkSet m as =>
    simp only [CopySet.step]
    cases hc : mkSet w m as with
    | none => exact hw
    | some p =>
      obtain ⟨w', t⟩ := p
      simp only
      unfold mkSet at hc
      split at hc
      · simp at hc
      rename_i hguard
      split at hc
      · simp at hc
      rename_i mr hmr
      simp only [Option.some.injEq, Prod.mk.injEq] at hc
      obtain ⟨rfl, _⟩ := hc
      obtain ⟨hm1, hm2, hm3⟩ := hw.modelsLt m mr hmr
      have hall : ∀ a ∈ as, agentAlive w a = true := by
        simp only [Bool.or_eq_true, Bool.not_eq_eq_eq_not, Bool.not_true, not_or, Bool.not_eq_false] at hguard
        simpa using hguard.2
      apply hw.of_le (by simp)
      · intro i ar h; left; exact h
      · intro i mr' h; left; exact h
      · intro i r h
        rcases upd_cases h with ⟨rfl, rfl⟩ | h
        · right
          refine ⟨by simp, by simp; omega, ?_, by simp⟩
          intro a ha
          have := agentAlive_lt hw (hall a ((mem_dedup a as).mp ha))
          simp; omega
        · left; exact h
      · intro t ht
        simp only [List.mem_append, List.mem_singleton] at ht
        rcases ht with ht | rfl
        · left; exact ht
        · right; simp
  | add t a =>
    simp only [CopySet.step]
    cases hc : addTo w t a with
    | none => exact hw
    | some w' =>
      simp only [Option.getD_some]
      unfold addTo at hc
      split at hc
      · simp at hc
      rename_i hal
      split at hc
      · simp at hc
      rename_i r hr
      simp only [Option.some.injEq] at hc
      subst hc
      obtain ⟨h0, h1, h2, h3⟩ := hw.setsLt t r hr
      have hal' : agentAlive w a = true := by simpa using hal
      apply hw.of_le (by simp)
      · intro i ar h; left; exact h
      · intro i mr' h; left; exact h
      · intro i r' h
        rcases upd_cases h with ⟨rfl, rfl⟩ | h
        · right
          refine ⟨h0, h1, ?_, h3⟩
          intro x hx
          simp only at hx
          split at hx
          · exact h2 x hx
          · simp only [List.mem_append, List.mem_singleton] at hx
            rcases hx with hx | rfl
            · exact h2 x hx
            · exact agentAlive_lt hw hal'
        · left; exact h
      · intro t ht; left; exact ht
  | discard t a =>
    simp only [CopySet.step]
    cases hc : discard w t a with
    | none => exact hw
    | some w' =>
      simp only [Option.getD_some]
      unfold discard at hc
      split at hc
      · simp at hc
      split at hc
      · simp at hc
      rename_i r hr
      simp only [Option.some.injEq] at hc
      subst hc
      obtain ⟨h0, h1, h2, h3⟩ := hw.setsLt t r hr
      apply hw.of_le (by simp)
      · intro i ar h; left; exact h
      · intro i mr' h; left; exact h
      · intro i r' h
        rcases upd_cases h with ⟨rfl, rfl⟩ | h
        · right
          exact ⟨h0, h1, fun x hx => h2 x (List.mem_of_mem_erase hx), h3⟩
        · left; exact h
      · intro t ht; left; exact ht
  | sortW t =>
    simp only [CopySet.step]
    cases hc : sortW w t with
    | none => exact hw
    | some w' =>
      simp only [Option.getD_some]
      unfold sortW at hc
      split at hc
      · simp at hc
      rename_i r hr
      simp only [Option.some.injEq] at hc
      subst hc
      obtain ⟨h0, h1, h2, h3⟩ := hw.setsLt t r hr
      apply hw.of_le (by simp)
      · intro i ar h; left; exact h
      · intro i mr' h; left; exact h
      · intro i r' h
        rcases upd_cases h with ⟨rfl, rfl⟩ | h
        · right
          refine ⟨h0, h1, ?_, h3⟩
          intro x hx
          have := (mem_sortBy _ x _).mp hx
          exact h2 x (List.mem_filter.mp this).1
        · left; exact h
      · intro t ht; left; exact ht
  | shuffle t =>
    simp only [CopySet.step]
    cases hc : shuffleSet w t with
    | none => exact hw
    | some w' =>
      simp only [Option.getD_some]
      unfold shuffleSet at hc
      split at hc
      · simp at hc
      rename_i r hr
      split at hc
      · simp at hc
      rename_i g hg
      simp only [Option.some.injEq] at hc
      subst hc
      obtain ⟨h0, h1, h2, h3⟩ := hw.setsLt t r hr
      apply hw.of_le (by simp)
      · intro i ar h; left; exact h
      · intro i mr' h; left; exact h
      · intro i r' h
        rcases upd_cases h with ⟨rfl, rfl⟩ | h
        · right
          refine ⟨h0, h1, ?_, h3⟩
          intro x hx
          have := (Rng.mem_shuffle _ g x).mp hx
          exact h2 x (List.mem_filter.mp this).1
        · left; exact h
      · intro t ht; left; exact ht
  | copy t =>
    simp only [CopySet.step]
    cases hc : copySet w t with
    | none => exact hw
    | some p =>
      obtain ⟨w', t'⟩ := p
      simp only
      unfold copySet at hc
      split at hc
      · simp at hc
      rename_i r hr
      simp only [Option.some.injEq, Prod.mk.injEq] at hc
      obtain ⟨rfl, _⟩ := hc
      obtain ⟨h0, h1, h2, h3⟩ := hw.setsLt t r hr
      unfold copyWorld
      apply hw.of_le (by simp)
      · intro i ar h
        simp only at h
        split at h
        · rename_i hle
          cases har : w.agents (i - w.next) with
          | none => simp [har] at h
          | some ar0 =>
            simp only [har, Option.map_some] at h
            split at h
            · obtain ⟨ha1, ha2⟩ := hw.agentsLt _ ar0 har
              right; simp at h; obtain ⟨_, rfl⟩ := h; simp; omega
            · simp at h
        · left; exact h
      · intro i mr h
        simp only at h
        split at h
        · rename_i hle
          split at h
          · cases hmr : w.models (i - w.next) with
            | none => simp [hmr] at h
            | some mr0 =>
              simp only [hmr, Option.map_some, Option.some.injEq] at h
              subst h
              obtain ⟨hm1, hm2, hm3⟩ := hw.modelsLt _ mr0 hmr
              right
              refine ⟨by simp; omega, by simp; omega, ?_⟩
              intro a ha
              simp only [List.mem_map] at ha
              obtain ⟨a0, ha0, rfl⟩ := ha
              have := hm3 a0 ha0
              simp; omega
          · simp at h
        · left; exact h
      · intro i r' h
        rcases upd_cases h with ⟨rfl, rfl⟩ | h
        · right
          refine ⟨by simp; omega, by simp; omega, ?_, ?_⟩
          · intro a ha
            simp only [List.mem_map] at ha
            obtain ⟨a0, ha0, rfl⟩ := ha
            have := h2 a0 (List.mem_filter.mp ha0).1
            simp; omega
          · intro m hm
            simp only [if_true, List.mem_map] at hm
            obtain ⟨m0, hm0, rfl⟩ := hm
            have hm0' := (mem_dedup m0 _).mp hm0
            simp only [List.mem_filterMap] at hm0'
            obtain ⟨a, _, hma⟩ := hm0'
            cases har : w.agents a with
            | none => simp [har] at hma
            | some ar =>
              simp only [har, Option.map_some, Option.some.injEq] at hma
              subst hma
              have := (hw.agentsLt a ar har).2
              simp; omega
        · left; exact h
      · intro t0 ht0
        simp only [List.mem_append, List.mem_singleton] at ht0
        rcases ht0 with ht0 | rfl
        · left; exact ht0
        · right; simp; omega

theorem WF.run (hw : WF w) (ops : List Op) : WF (run w ops) := by
  induction ops generalizing w with
  | nil => exact hw
  | cons op ops ih => exact ih (hw.step op)

end Mesa.CopySet
