import MesaModel.Proofs.CopySet
/-!
The frame lemma of `Model/CopySet.lean`, operation by operation: an operation that writes nothing in `deps w s`
leaves the world in agreement with `w` on everything the view of `s` reads; and every operation preserves `WF`.
-/
namespace Mesa.CopySet

variable {w : World} {s : Nat}

theorem agree_newModel (hw : WF w) (hs : s < w.next) (sc : List Nat) : Agree w (newModel w sc).1 s := by
  have hd := deps_lt hw hs
  apply Agree.of_fields
  · rfl
  · intro g hg
    have := hd g hg
    have hne : g ≠ w.next := Nat.ne_of_lt this
    exact upd_ne _ _ hne
  · intro a _
    rfl
  · intro m hm
    have := hd m hm
    have hne : m ≠ w.next + 1 := Nat.ne_of_lt (Nat.lt_succ_of_lt this)
    exact ⟨upd_ne _ _ hne, rfl, contains_append_single hne, owned_same rfl rfl m⟩

theorem agree_create (hw : WF w) (hs : s < w.next) {m : Nat} (v : Int) (hav : m ∉ deps w s) :
    Agree w (step w (.create m v)) s := by
  have hd := deps_lt hw hs
  simp only [step]
  cases hc : create w m v with
  | none => exact Agree.refl _ _
  | some p =>
    obtain ⟨w', a, uid⟩ := p
    simp only
    unfold create at hc
    split at hc
    · simp at hc
    split at hc
    · simp at hc
    rename_i mr hmr
    simp only [Option.some.injEq, Prod.mk.injEq] at hc
    obtain ⟨rfl, _, _⟩ := hc
    apply Agree.of_fields
    · rfl
    · intro g _
      rfl
    · intro x hx
      have := hd x hx
      have hne : x ≠ w.next := Nat.ne_of_lt this
      exact upd_ne _ _ hne
    · intro x hx
      have hne : x ≠ m := fun h => hav (h ▸ hx)
      exact ⟨upd_ne _ _ hne, upd_ne _ _ hne, rfl, owned_same rfl rfl x⟩

theorem agree_remove (a : Nat) (hav : ∀ x ∈ writes w (.remove a), x ∉ deps w s) :
    Agree w (step w (.remove a)) s := by
  simp only [step]
  cases hc : remove w a with
  | none => exact Agree.refl _ _
  | some w' =>
    simp only [Option.getD_some]
    unfold remove at hc
    split at hc
    · simp at hc
    split at hc
    · simp at hc
    rename_i ar har
    split at hc
    · simp at hc
    rename_i mr hmr
    simp only [Option.some.injEq] at hc
    subst hc
    have hm : ar.model ∉ deps w s := hav _ (by simp [writes, har])
    apply Agree.of_fields
    · rfl
    · intro g _
      rfl
    · intro x _
      rfl
    · intro x hx
      have hne : x ≠ ar.model := fun h => hm (h ▸ hx)
      exact ⟨upd_ne _ _ hne, rfl, rfl, owned_same rfl rfl x⟩

theorem agree_setW (a : Nat) (v : Int) (hav : a ∉ deps w s) : Agree w (step w (.setW a v)) s := by
  simp only [step]
  cases hc : setW w a v with
  | none => exact Agree.refl _ _
  | some w' =>
    simp only [Option.getD_some]
    unfold setW at hc
    split at hc
    · simp at hc
    split at hc
    · simp at hc
    simp only [Option.some.injEq] at hc
    subst hc
    apply Agree.of_fields
    · rfl
    · intro g _
      rfl
    · intro x hx
      exact upd_ne _ _ (fun h => hav (h ▸ hx))
    · intro x _
      exact ⟨rfl, rfl, rfl, owned_same rfl rfl x⟩

theorem ownersOf_upd_ne {w : World} {t k : Nat} (r : SetRec) (h : t ≠ k) :
    ownersOf { w with sets := upd w.sets k r } t = ownersOf w t := by
  simp [ownersOf, upd_ne _ _ h]

theorem agree_mkSet (hw : WF w) (hs : s < w.next) (m : Nat) (as : List Nat) : Agree w (step w (.mkSet m as)) s := by
  have hd := deps_lt hw hs
  simp only [step]
  cases hc : mkSet w m as with
  | none => exact Agree.refl _ _
  | some p =>
    obtain ⟨w', t⟩ := p
    simp only
    unfold mkSet at hc
    split at hc
    · simp at hc
    split at hc
    · simp at hc
    rename_i mr hmr
    simp only [Option.some.injEq, Prod.mk.injEq] at hc
    obtain ⟨rfl, _⟩ := hc
    have hne : s ≠ w.next := Nat.ne_of_lt hs
    apply Agree.of_fields
    · exact upd_ne _ _ hne
    · intro g _
      rfl
    · intro x _
      rfl
    · intro x _
      refine ⟨rfl, rfl, rfl, ?_⟩
      apply owned_congr [w.next] rfl
      · intro t ht
        have := hw.setIdsLt t ht
        have hne' : t ≠ w.next := Nat.ne_of_lt this
        exact ownersOf_upd_ne _ hne' 
      · intro t ht
        simp only [List.mem_singleton] at ht
        subst ht
        simp [ownersOf]

/-- replacing the member list of one set changes nobody's ownership -/
theorem owned_upd_members {w : World} {t : Nat} {r : SetRec} (hr : w.sets t = some r) (l : List Nat) (m : Nat) :
    owned { w with sets := upd w.sets t { r with members := l } } m = owned w m := by
  apply owned_congr [] (by simp)
  · intro t' _
    by_cases h : t' = t
    · subst h
      simp [ownersOf, hr]
    · exact ownersOf_upd_ne _ h
  · intro t' ht'
    simp at ht'

theorem agree_setMembers {t : Nat} {r : SetRec} (hr : w.sets t = some r) (l : List Nat) (hav : t ∉ deps w s) :
    Agree w { w with sets := upd w.sets t { r with members := l } } s := by
  have hne : s ≠ t := fun h => hav (h ▸ self_mem_deps w s)
  apply Agree.of_fields
  · exact upd_ne _ _ hne
  · intro g _
    rfl
  · intro x _
    rfl
  · intro x _
    exact ⟨rfl, rfl, rfl, owned_upd_members hr l x⟩

theorem agree_add (t a : Nat) (hav : t ∉ deps w s) : Agree w (step w (.add t a)) s := by
  simp only [step]
  cases hc : addTo w t a with
  | none => exact Agree.refl _ _
  | some w' =>
    simp only [Option.getD_some]
    unfold addTo at hc
    split at hc
    · simp at hc
    split at hc
    · simp at hc
    rename_i r hr
    simp only [Option.some.injEq] at hc
    subst hc
    exact agree_setMembers hr _ hav

theorem agree_discard (t a : Nat) (hav : t ∉ deps w s) : Agree w (step w (.discard t a)) s := by
  simp only [step]
  cases hc : discard w t a with
  | none => exact Agree.refl _ _
  | some w' =>
    simp only [Option.getD_some]
    unfold discard at hc
    split at hc
    · simp at hc
    split at hc
    · simp at hc
    rename_i r hr
    simp only [Option.some.injEq] at hc
    subst hc
    exact agree_setMembers hr _ hav

theorem agree_sortW (t : Nat) (hav : t ∉ deps w s) : Agree w (step w (.sortW t)) s := by
  simp only [step]
  cases hc : sortW w t with
  | none => exact Agree.refl _ _
  | some w' =>
    simp only [Option.getD_some]
    unfold sortW at hc
    split at hc
    · simp at hc
    rename_i r hr
    simp only [Option.some.injEq] at hc
    subst hc
    exact agree_setMembers hr _ hav

theorem agree_shuffle (t : Nat) (hav : ∀ x ∈ writes w (.shuffle t), x ∉ deps w s) :
    Agree w (step w (.shuffle t)) s := by
  simp only [step]
  cases hc : shuffleSet w t with
  | none => exact Agree.refl _ _
  | some w' =>
    simp only [Option.getD_some]
    unfold shuffleSet at hc
    split at hc
    · simp at hc
    rename_i r hr
    split at hc
    · simp at hc
    rename_i g hg
    simp only [Option.some.injEq] at hc
    subst hc
    have ht : t ∉ deps w s := hav _ (by simp [writes])
    have hgen : r.gen ∉ deps w s := hav _ (by simp [writes, hr])
    have hne : s ≠ t := fun h => ht (h ▸ self_mem_deps w s)
    apply Agree.of_fields
    · exact upd_ne _ _ hne
    · intro x hx
      exact upd_ne _ _ (fun h => hgen (h ▸ hx))
    · intro x _
      rfl
    · intro x _
      exact ⟨rfl, rfl, rfl, owned_upd_members hr _ x⟩

end Mesa.CopySet

namespace Mesa.CopySet

variable {w : World} {s : Nat}

/-- a copy writes fresh identities only: every set that existed shows what it showed (also for the code before S24) -/
theorem agree_copy (hw : WF w) (hs : s < w.next) (t : Nat) (k : Bool) {w' : World} {s' : Nat}
    (hc : copySet w t k = some (w', s')) : Agree w w' s := by
  have hd := deps_lt hw hs
  unfold copySet at hc
  split at hc
  · simp at hc
  rename_i r hr
  simp only [Option.some.injEq, Prod.mk.injEq] at hc
  obtain ⟨rfl, _⟩ := hc
  unfold copyWorld
  have hne : s ≠ t + w.next := by omega
  apply Agree.of_fields
  · exact upd_ne _ _ hne
  · intro g hg
    have := hd g hg
    have hlt : ¬ w.next ≤ g := by omega
    simp only [hlt, if_false]
  · intro x hx
    have := hd x hx
    have hlt : ¬ w.next ≤ x := by omega
    simp only [hlt, if_false]
  · intro x hx
    have hx' := hd x hx
    have hlt : ¬ w.next ≤ x := by omega
    refine ⟨by simp only [hlt, if_false], rfl, rfl, ?_⟩
    apply owned_congr [t + w.next] rfl
    · intro t' ht'
      have := hw.setIdsLt t' ht'
      have hne' : t' ≠ t + w.next := by omega
      exact ownersOf_upd_ne _ hne'
    · intro t' ht'
      simp only [List.mem_singleton] at ht'
      subst ht'
      simp only [ownersOf, upd_same]
      cases k
      · simp
      · simp only [if_true, List.mem_map, not_exists, not_and]
        intro m _ hm
        omega

end Mesa.CopySet
