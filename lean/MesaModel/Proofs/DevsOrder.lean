import MesaModel.Proofs.Devs
/-!
The order of execution inside one `run_until`, nested scheduling included.

`runUntilT` is `runUntil` that also returns what it executed: every popped live event together with the value of the id
counter at the moment it was popped.  Ids are handed out in scheduling order, so `n ≤ e'.id` says "`e'` was scheduled after
that pop".  Theorem `runUntilT_ordered`: of two events executed in one run, the earlier one has the smaller
(time, priority, id) key — unless the later one was scheduled only after the earlier one had been popped.
-/
namespace Mesa.Devs

/-- `run_until` with its trace: the events executed, each with `nextId` at its pop -/
def runUntilT : Nat → Sim → Int → Option (Sim × List (Ev × Nat))
  | 0, _, _ => none
  | f+1, s, T =>
    match popLive s.pending with
    | none => some ({ s with now := T, pending := [], gone := s.gone ++ (skipped s.pending).map (·.id) }, [])
    | some (e, rest) =>
      let g := s.gone ++ (skipped s.pending).map (·.id)
      if e.time ≤ T then
        let s' := exec { s with now := e.time, pending := rest, gone := g } e
        if s'.raised.isSome then some (s', [(e, s.nextId)])
        else
          match runUntilT f s' T with
          | some (s'', tr) => some (s'', (e, s.nextId) :: tr)
          | none => none
      else some ({ s with now := T, pending := insert e rest, gone := g }, [])

theorem runUntilT_none {f : Nat} {s : Sim} {T : Int} (hp : popLive s.pending = none) :
    runUntilT (f+1) s T = some ({ s with now := T, pending := [], gone := s.gone ++ (skipped s.pending).map (·.id) }, []) := by
  simp only [runUntilT, hp]

theorem runUntilT_late {f : Nat} {s : Sim} {T : Int} {e : Ev} {rest : List Ev} (hp : popLive s.pending = some (e, rest))
    (hT : ¬ e.time ≤ T) :
    runUntilT (f+1) s T = some ({ popped s e rest with now := T, pending := insert e rest }, []) := by
  simp only [runUntilT, hp, hT, if_false, popped]

theorem runUntilT_due_raised {f : Nat} {s : Sim} {T : Int} {e : Ev} {rest : List Ev} (hp : popLive s.pending = some (e, rest))
    (hT : e.time ≤ T) (hx : (exec (popped s e rest) e).raised.isSome = true) :
    runUntilT (f+1) s T = some (exec (popped s e rest) e, [(e, s.nextId)]) := by
  simp only [popped] at hx
  simp only [runUntilT, hp, hT, if_true, popped, hx]

theorem runUntilT_due {f : Nat} {s : Sim} {T : Int} {e : Ev} {rest : List Ev} (hp : popLive s.pending = some (e, rest))
    (hT : e.time ≤ T) (hx : (exec (popped s e rest) e).raised.isSome = false) :
    runUntilT (f+1) s T = (runUntilT f (exec (popped s e rest) e) T).map fun p => (p.1, (e, s.nextId) :: p.2) := by
  simp only [popped] at hx
  simp only [runUntilT, hp, hT, if_true, popped, hx, Bool.false_eq_true, if_false]
  cases runUntilT f _ T <;> rfl

/-- the four cases of one iteration, as an elimination principle for facts about a successful traced run -/
theorem runUntilT_cases {f : Nat} {s s' : Sim} {T : Int} {tr : List (Ev × Nat)} (h : runUntilT (f+1) s T = some (s', tr)) :
    (popLive s.pending = none ∧ tr = []) ∨
    (∃ e rest, popLive s.pending = some (e, rest) ∧ ¬ e.time ≤ T ∧ tr = []) ∨
    (∃ e rest, popLive s.pending = some (e, rest) ∧ e.time ≤ T ∧ (exec (popped s e rest) e).raised.isSome = true ∧
      s' = exec (popped s e rest) e ∧ tr = [(e, s.nextId)]) ∨
    (∃ e rest tr1, popLive s.pending = some (e, rest) ∧ e.time ≤ T ∧
      runUntilT f (exec (popped s e rest) e) T = some (s', tr1) ∧ tr = (e, s.nextId) :: tr1) := by
  cases hp : popLive s.pending with
  | none =>
    rw [runUntilT_none hp] at h
    simp only [Option.some.injEq, Prod.mk.injEq] at h
    exact Or.inl ⟨rfl, h.2.symm⟩
  | some p =>
    obtain ⟨e, rest⟩ := p
    by_cases hT : e.time ≤ T
    · cases hx : (exec (popped s e rest) e).raised.isSome with
      | true =>
        rw [runUntilT_due_raised hp hT hx] at h
        simp only [Option.some.injEq, Prod.mk.injEq] at h
        exact Or.inr (Or.inr (Or.inl ⟨e, rest, rfl, hT, hx, h.1.symm, h.2.symm⟩))
      | false =>
        rw [runUntilT_due hp hT hx] at h
        cases h1 : runUntilT f (exec (popped s e rest) e) T with
        | none => simp [h1] at h
        | some q =>
          simp only [h1, Option.map_some, Option.some.injEq, Prod.mk.injEq] at h
          exact Or.inr (Or.inr (Or.inr ⟨e, rest, q.2, rfl, hT, by rw [← h.1, h1], h.2.symm⟩))
    · rw [runUntilT_late hp hT] at h
      simp only [Option.some.injEq, Prod.mk.injEq] at h
      exact Or.inr (Or.inl ⟨e, rest, rfl, hT, h.2.symm⟩)

/-- erasing the trace gives `runUntil` -/
theorem runUntilT_erase (f : Nat) (s : Sim) (T : Int) : (runUntilT f s T).map (·.1) = runUntil f s T := by
  induction f generalizing s with
  | zero => rfl
  | succ f ih =>
    cases hp : popLive s.pending with
    | none => rw [runUntilT_none hp, runUntil_none hp]; rfl
    | some p =>
      obtain ⟨e, rest⟩ := p
      by_cases hT : e.time ≤ T
      · cases hx : (exec (popped s e rest) e).raised.isSome with
        | true => rw [runUntilT_due_raised hp hT hx, runUntil_due_raised hp hT hx]; rfl
        | false =>
          rw [runUntilT_due hp hT hx, runUntil_due hp hT hx, ← ih]
          cases runUntilT f (exec (popped s e rest) e) T <;> rfl
      · rw [runUntilT_late hp hT, runUntil_late hp hT]; rfl

theorem runUntilT_of_runUntil {f : Nat} {s s' : Sim} {T : Int} (h : runUntil f s T = some s') :
    ∃ tr, runUntilT f s T = some (s', tr) := by
  have := runUntilT_erase f s T
  rw [h] at this
  cases hT : runUntilT f s T with
  | none => simp [hT] at this
  | some p =>
    simp only [hT, Option.map_some, Option.some.injEq] at this
    exact ⟨p.2, by rw [← this]⟩

/-- what an executed event leaves in the log -/
def logOf (e : Ev) : List LogEntry :=
  if e.dead then [] else if e.isStep then [.step e.id e.time] else [.user e.id e.tag e.time]

theorem runUntilT_log {f : Nat} {s s' : Sim} {T : Int} {tr : List (Ev × Nat)} (h : runUntilT f s T = some (s', tr)) :
    s'.log = s.log ++ tr.flatMap (fun y => logOf y.1) := by
  induction f generalizing s tr with
  | zero => simp [runUntilT] at h
  | succ f ih =>
    rcases runUntilT_cases h with ⟨hp, rfl⟩ | ⟨e, rest, hp, hT, rfl⟩ | ⟨e, rest, hp, hT, hx, rfl, rfl⟩ |
      ⟨e, rest, tr1, hp, hT, h1, rfl⟩
    · rw [runUntilT_none hp] at h
      simp only [Option.some.injEq, Prod.mk.injEq] at h
      rw [← h.1]; simp
    · rw [runUntilT_late hp hT] at h
      simp only [Option.some.injEq, Prod.mk.injEq] at h
      rw [← h.1]; simp [popped]
    · rw [exec_log]
      simp [entryOf, logOf, popped]
    · rw [ih h1, exec_log]
      simp [entryOf, logOf, popped, List.append_assoc]

/-! ### where the events of a later state come from -/

/-- same ordering key -/
def SameKey (x y : Ev) : Prop := y.time = x.time ∧ y.prio = x.prio ∧ y.id = x.id

theorem SameKey.refl (x : Ev) : SameKey x x := ⟨rfl, rfl, rfl⟩

theorem SameKey.trans {x y z : Ev} (h1 : SameKey x y) (h2 : SameKey y z) : SameKey x z :=
  ⟨h2.1.trans h1.1, h2.2.1.trans h1.2.1, h2.2.2.trans h1.2.2⟩

/-- every pending event of `s` is (up to its flags) a pending event of `s₀` or was scheduled after `s₀` -/
def Origin (s₀ s : Sim) : Prop :=
  (∀ x ∈ s.pending, (∃ x₀ ∈ s₀.pending, SameKey x₀ x) ∨ s₀.nextId ≤ x.id) ∧ s₀.nextId ≤ s.nextId

theorem Origin.refl (s : Sim) : Origin s s := ⟨fun x hx => Or.inl ⟨x, hx, SameKey.refl x⟩, Nat.le_refl _⟩

theorem Origin.trans {a b c : Sim} (h1 : Origin a b) (h2 : Origin b c) : Origin a c := by
  refine ⟨?_, Nat.le_trans h1.2 h2.2⟩
  intro x hx
  rcases h2.1 x hx with ⟨y, hy, hk⟩ | h
  · rcases h1.1 y hy with ⟨z, hz, hk'⟩ | h'
    · exact Or.inl ⟨z, hz, hk'.trans hk⟩
    · right; rw [hk.2.2]; exact h'
  · right; exact Nat.le_trans h1.2 h

theorem pushUser_origin (s : Sim) (t : Int) (p a : Nat) (c : Option Nat := none) : Origin s (pushUser s t p a c) := by
  refine ⟨?_, by simp [pushUser]⟩
  intro x hx
  simp only [pushUser] at hx
  rcases mem_insert.mp hx with rfl | hx
  · right; simp
  · exact Or.inl ⟨x, hx, SameKey.refl x⟩

theorem pushStep_origin (s : Sim) : Origin s (pushStep s) := by
  refine ⟨?_, by simp [pushStep]⟩
  intro x hx
  simp only [pushStep] at hx
  rcases mem_insert.mp hx with rfl | hx
  · right; simp
  · exact Or.inl ⟨x, hx, SameKey.refl x⟩

theorem mapFlags_origin (s : Sim) (g : Ev → Ev) (hg : ∀ e, SameKey e (g e)) :
    Origin s { s with pending := s.pending.map g } := by
  refine ⟨?_, Nat.le_refl _⟩
  intro x hx
  obtain ⟨y, hy, rfl⟩ := List.mem_map.mp hx
  exact Or.inl ⟨y, hy, hg y⟩

theorem doCmd1_origin (s : Sim) (c : Cmd) : Origin s (doCmd1 s c) := by
  cases c with
  | schedAbs t p a =>
    simp only [doCmd1, schedAbs]
    split
    · rename_i s' hs
      split at hs
      · simp at hs
      · split at hs
        · simp at hs
        · simp only [Except.ok.injEq] at hs; subst hs; exact pushUser_origin s _ _ _
    · exact Origin.refl s
  | schedRel d p a =>
    simp only [doCmd1, schedRel]
    split
    · rename_i s' hs
      split at hs
      · simp at hs
      · split at hs
        · simp at hs
        · simp only [Except.ok.injEq] at hs; subst hs; exact pushUser_origin s _ _ _
    · exact Origin.refl s
  | again k d p =>
    rcases doCmd1_again_cases s k d p with he | ⟨a, _, _, he⟩ <;> rw [he]
    · exact Origin.refl s
    · exact pushUser_origin s _ _ _ _
  | cancel k => exact mapFlags_origin s _ (fun e => by unfold SameKey; split <;> simp)
  | drop k =>
    have o := mapFlags_origin s (fun e => if !e.isStep && e.fn == k then { e with dead := true } else e)
      (fun e => by unfold SameKey; split <;> simp)
    exact ⟨o.1, o.2⟩
  | halt => exact Origin.refl s
  | raise x => exact ⟨fun x hx => Or.inl ⟨x, hx, SameKey.refl x⟩, Nat.le_refl _⟩

theorem doCmd_origin (s : Sim) (c : Cmd) : Origin s (doCmd s c) := by
  unfold doCmd; split
  · exact Origin.refl s
  · exact doCmd1_origin s c

theorem foldl_doCmd_origin (s : Sim) (cs : List Cmd) : Origin s (cs.foldl doCmd s) := by
  induction cs generalizing s with
  | nil => exact Origin.refl s
  | cons c cs ih => exact (doCmd_origin s c).trans (ih _)

theorem rearm_origin (s : Sim) : Origin s (rearm s) := by
  unfold rearm; split
  · exact pushStep_origin s
  · exact Origin.refl s

/-- fields other than the list and the id counter do not matter for `Origin` -/
theorem Origin.of_eq {a b : Sim} (hp : b.pending = a.pending) (hn : b.nextId = a.nextId) : Origin a b :=
  ⟨fun x hx => Or.inl ⟨x, hp ▸ hx, SameKey.refl x⟩, by rw [hn]; exact Nat.le_refl _⟩

theorem exec_origin (s : Sim) (e : Ev) : Origin s (exec s e) := by
  unfold exec
  split
  · exact Origin.of_eq rfl rfl
  · split
    · exact ((rearm_origin s).trans (Origin.of_eq rfl rfl)).trans (foldl_doCmd_origin _ _)
    · exact (Origin.of_eq (a := s) rfl rfl).trans (foldl_doCmd_origin _ _)

/-- every event a run executes was pending at its start (up to flags) or was scheduled during the run -/
theorem runUntilT_origin {f : Nat} {s s' : Sim} {T : Int} {tr : List (Ev × Nat)} (h : runUntilT f s T = some (s', tr)) :
    ∀ y ∈ tr, (∃ x ∈ s.pending, SameKey x y.1) ∨ s.nextId ≤ y.1.id := by
  induction f generalizing s tr with
  | zero => simp [runUntilT] at h
  | succ f ih =>
    rcases runUntilT_cases h with ⟨_, rfl⟩ | ⟨e, rest, _, _, rfl⟩ | ⟨e, rest, hp, _, _, _, rfl⟩ | ⟨e, rest, tr1, hp, hT, h1, rfl⟩
    · simp
    · simp
    · intro y hy
      simp only [List.mem_singleton] at hy
      subst hy
      exact Or.inl ⟨e, (popLive_mem hp).1, SameKey.refl e⟩
    · obtain ⟨hme, hmr⟩ := popLive_mem hp
      intro y hy
      rcases List.mem_cons.mp hy with rfl | hy
      · exact Or.inl ⟨e, hme, SameKey.refl e⟩
      · have ho := exec_origin (popped s e rest) e
        rcases ih h1 y hy with ⟨x, hx, hk⟩ | hge
        · rcases ho.1 x hx with ⟨x₀, hx₀, hk₀⟩ | hge
          · exact Or.inl ⟨x₀, hmr x₀ hx₀, hk₀.trans hk⟩
          · right; rw [hk.2.2]; exact hge
        · right; exact Nat.le_trans ho.2 hge

/-- **Order of execution.**  In one run, an event executed earlier has the smaller (time, priority, id) key than one
    executed later, unless the later one was scheduled after the earlier one had been popped. -/
theorem runUntilT_ordered {f : Nat} {s s' : Sim} {T : Int} {tr : List (Ev × Nat)} (hw : WF s)
    (h : runUntilT f s T = some (s', tr)) :
    tr.Pairwise (fun x y => x.1.lt y.1 = true ∨ x.2 ≤ y.1.id) := by
  induction f generalizing s tr with
  | zero => simp [runUntilT] at h
  | succ f ih =>
    rcases runUntilT_cases h with ⟨_, rfl⟩ | ⟨e, rest, _, _, rfl⟩ | ⟨e, rest, _, _, _, _, rfl⟩ | ⟨e, rest, tr1, hp, hT, h1, rfl⟩
    · exact List.Pairwise.nil
    · exact List.Pairwise.nil
    · exact List.pairwise_singleton _ _
    · obtain ⟨_, hlt, _⟩ := popLive_spec hw.sorted hp
      have hw1 : WF (exec (popped s e rest) e) := exec_wf (popped_wf hw hp) e
      refine List.pairwise_cons.mpr ⟨?_, ih hw1 h1⟩
      intro y hy
      have ho := exec_origin (popped s e rest) e
      rcases runUntilT_origin h1 y hy with ⟨x, hx, hk⟩ | hge
      · rcases ho.1 x hx with ⟨x₀, hx₀, hk₀⟩ | hge
        · left
          have hk' := hk₀.trans hk
          rw [Ev.lt_congr (a := e) (a' := e) ⟨rfl, rfl, rfl⟩ hk']
          exact hlt x₀ hx₀
        · right; show s.nextId ≤ y.1.id; rw [hk.2.2]; exact hge
      · right; exact Nat.le_trans ho.2 hge

/-- the recorded number really is the id counter at the pop: the popped event itself is older -/
theorem runUntilT_born {f : Nat} {s s' : Sim} {T : Int} {tr : List (Ev × Nat)} (hw : WF s)
    (h : runUntilT f s T = some (s', tr)) : ∀ y ∈ tr, y.1.id < y.2 ∧ y.1.cancelled = false ∧ y.1.time ≤ T := by
  induction f generalizing s tr with
  | zero => simp [runUntilT] at h
  | succ f ih =>
    rcases runUntilT_cases h with ⟨_, rfl⟩ | ⟨e, rest, _, _, rfl⟩ | ⟨e, rest, hp, hT, _, _, rfl⟩ | ⟨e, rest, tr1, hp, hT, h1, rfl⟩
    · simp
    · simp
    · intro y hy
      simp only [List.mem_singleton] at hy
      subst hy
      exact ⟨hw.idlt e (popLive_mem hp).1, (popLive_decomp hp).2, hT⟩
    · intro y hy
      rcases List.mem_cons.mp hy with rfl | hy
      · exact ⟨hw.idlt e (popLive_mem hp).1, (popLive_decomp hp).2, hT⟩
      · exact ih (exec_wf (popped_wf hw hp) e) h1 y hy

end Mesa.Devs
