import MesaModel.Model.Copy
/-! Invariant of the identity-level copy model (C19): in every reachable world every cell of every space is
an instance of its space's own class, the descriptors on that class are exactly the space's own layers, and
different spaces share neither a class nor a layer object. -/
namespace Mesa.Copy

theorem lookup_iff_mem {l : List (String × Nat)} (h : (l.map (·.1)).Nodup) (n : String) (v : Nat) :
    l.lookup n = some v ↔ (n, v) ∈ l := by
  induction l with
  | nil => simp
  | cons p ps ih =>
    obtain ⟨k, x⟩ := p
    simp only [List.map_cons, List.nodup_cons] at h
    simp only [List.lookup_cons]
    by_cases hk : n = k
    · subst hk
      simp only [beq_self_eq_true, List.mem_cons, Prod.mk.injEq, true_and, Option.some.injEq]
      constructor
      · intro hx; exact Or.inl hx.symm
      · rintro (hx | hm)
        · exact hx.symm
        · exact absurd (List.mem_map.mpr ⟨(n, v), hm, rfl⟩) h.1
    · have : (n == k) = false := by simpa using hk
      simp only [this, List.mem_cons, Prod.mk.injEq, hk, false_and, false_or]
      exact ih h.2

theorem lookup_none_not_mem {l : List (String × Nat)} {n : String} (h : (l.lookup n).isSome = false) :
    ∀ v, (n, v) ∉ l := by
  induction l with
  | nil => simp
  | cons p ps ih =>
    obtain ⟨k, x⟩ := p
    intro v
    simp only [List.lookup_cons] at h
    by_cases hk : n = k
    · subst hk; simp at h
    · have hb : (n == k) = false := by simpa using hk
      simp only [hb] at h
      simp only [List.mem_cons, Prod.mk.injEq, hk, false_and, false_or]
      exact ih h v

theorem freshLayers_names (names : List String) (n : Nat) : (freshLayers names n).map (·.1) = names := by
  induction names generalizing n with
  | nil => rfl
  | cons x xs ih => simp [freshLayers, ih]

theorem freshLayers_range (names : List String) (n : Nat) :
    ∀ p ∈ freshLayers names n, n ≤ p.2 ∧ p.2 < n + names.length := by
  induction names generalizing n with
  | nil => simp [freshLayers]
  | cons x xs ih =>
    intro p hp
    simp only [freshLayers, List.mem_cons] at hp
    rcases hp with rfl | hp
    · simp
    · have := ih (n + 1) p hp
      simp only [List.length_cons]; omega

structure SpaceOK (w : World) (sp : SpaceObj) : Prop where
  klass_lt : sp.cellKlass < w.nextClass
  cells_klass : ∀ c ∈ sp.cells, c.klass = sp.cellKlass
  descr_iff : ∀ n l, w.descr sp.cellKlass n = some l ↔ (n, l) ∈ sp.layers
  layer_lt : ∀ p ∈ sp.layers, p.2 < w.nextLayer
  names_nodup : (sp.layers.map (·.1)).Nodup

structure Good (w : World) : Prop where
  ok : ∀ sid sp, w.spaces sid = some sp → SpaceOK w sp
  apart : ∀ i j si sj, i ≠ j → w.spaces i = some si → w.spaces j = some sj →
    si.cellKlass ≠ sj.cellKlass ∧ ∀ p ∈ si.layers, ∀ q ∈ sj.layers, p.2 ≠ q.2

theorem good_empty : Good World.empty :=
  ⟨fun _ _ h => by simp [World.empty] at h, fun _ _ _ _ _ h => by simp [World.empty] at h⟩

/-- the world after adding a whole new space (a new grid or a copy) whose class and layer objects are fresh -/
def addSpaceWorld (w : World) (names : List String) (cells : List CellObj) (dk dl : Nat) : World :=
  { nextClass := w.nextClass + dk, nextLayer := w.nextLayer + dl, nextSpace := w.nextSpace + 1,
    descr := installAll w.descr w.nextClass (freshLayers names w.nextLayer),
    spaces := fun i => if i = w.nextSpace then
      some { cellKlass := w.nextClass, cells := cells, layers := freshLayers names w.nextLayer } else w.spaces i }

theorem good_addSpace {w : World} (g : Good w) (names : List String) (hn : names.Nodup) (cells : List CellObj)
    (hc : ∀ c ∈ cells, c.klass = w.nextClass) (dk dl : Nat) (hdk : 0 < dk) (hdl : names.length ≤ dl) :
    Good (addSpaceWorld w names cells dk dl) := by
  have hnd : ((freshLayers names w.nextLayer).map (·.1)).Nodup := by rw [freshLayers_names]; exact hn
  have hnew : SpaceOK (addSpaceWorld w names cells dk dl)
      { cellKlass := w.nextClass, cells := cells, layers := freshLayers names w.nextLayer } :=
    ⟨by show w.nextClass < w.nextClass + dk; omega, hc,
     fun n l => by
      show installAll w.descr w.nextClass _ w.nextClass n = some l ↔ _
      simp only [installAll, if_true]; exact lookup_iff_mem hnd n l,
     fun p hp => by have := freshLayers_range names w.nextLayer p hp; show p.2 < w.nextLayer + dl; omega, hnd⟩
  have hold : ∀ sid sp, w.spaces sid = some sp → SpaceOK (addSpaceWorld w names cells dk dl) sp := fun sid sp h =>
    let o := g.ok sid sp h
    ⟨by show sp.cellKlass < w.nextClass + dk; have := o.klass_lt; omega, o.cells_klass,
     fun n l => by
      show installAll w.descr w.nextClass _ sp.cellKlass n = some l ↔ _
      have : sp.cellKlass ≠ w.nextClass := by have := o.klass_lt; omega
      simp only [installAll, this, if_false]; exact o.descr_iff n l,
     fun p hp => by have := o.layer_lt p hp; show p.2 < w.nextLayer + dl; omega, o.names_nodup⟩
  unfold addSpaceWorld
  refine ⟨?_, ?_⟩
  · intro sid sp h
    simp only at h
    split at h
    · simp only [Option.some.injEq] at h; subst h; exact hnew
    · exact hold sid sp h
  · intro i j si sj hij hi hj
    simp only at hi hj
    split at hi <;> split at hj
    · rename_i h1 h2; exact absurd (h1.trans h2.symm) hij
    · simp only [Option.some.injEq] at hi; subst hi
      have o := g.ok j sj hj
      refine ⟨by show w.nextClass ≠ sj.cellKlass; have := o.klass_lt; omega, fun p hp q hq => ?_⟩
      have := freshLayers_range names w.nextLayer p hp
      have := o.layer_lt q hq
      omega
    · simp only [Option.some.injEq] at hj; subst hj
      have o := g.ok i si hi
      refine ⟨by show si.cellKlass ≠ w.nextClass; have := o.klass_lt; omega, fun p hp q hq => ?_⟩
      have := freshLayers_range names w.nextLayer q hq
      have := o.layer_lt p hp
      omega
    · exact g.apart i j si sj hij hi hj

theorem good_newGrid {w : World} (g : Good w) (coords : List (List Int)) : Good (newGrid w coords) := by
  have := good_addSpace g ["empty"] (by simp) (coords.map (⟨·, w.nextClass⟩)) (by simp) 1 1 (by omega) (by simp)
  simpa [newGrid, freshLayers, addSpaceWorld] using this

theorem good_copySpace {w w' : World} (g : Good w) {sid : Nat} (h : copySpace w sid = .ok w') : Good w' := by
  unfold copySpace at h
  split at h
  · simp at h
  · rename_i sp hsp
    simp only [Except.ok.injEq] at h
    subst h
    have o := g.ok sid sp hsp
    have := good_addSpace g (sp.layers.map (·.1)) o.names_nodup (sp.cells.map fun c => { c with klass := w.nextClass })
      (by simp) (max 1 sp.cells.length) sp.layers.length (by omega) (by simp)
    simpa [addSpaceWorld, copiedSpace] using this

theorem good_addLayer {w w' : World} (g : Good w) {sid : Nat} {name : String}
    (h : addLayer w sid name = .ok w') : Good w' := by
  unfold addLayer at h
  split at h
  · simp at h
  · rename_i sp hsp
    split at h
    · simp at h
    · rename_i hfree
      simp only [Except.ok.injEq] at h
      subst h
      have hfree' : (sp.layers.lookup name).isSome = false := by
        cases hx : (sp.layers.lookup name).isSome
        · rfl
        · exact absurd hx hfree
      have o := g.ok sid sp hsp
      have hnot := lookup_none_not_mem hfree'
      have hname : name ∉ sp.layers.map (·.1) := by
        intro hm
        obtain ⟨p, hp, rfl⟩ := List.mem_map.mp hm
        exact hnot p.2 hp
      refine ⟨?_, ?_⟩
      · intro j sj hj
        simp only at hj
        split at hj
        · simp only [Option.some.injEq] at hj; subst hj
          refine ⟨o.klass_lt, o.cells_klass, fun n l => ?_, fun p hp => ?_, ?_⟩
          · show (if sp.cellKlass = sp.cellKlass ∧ n = name then some w.nextLayer else w.descr sp.cellKlass n) = some l ↔ _
            by_cases hn : n = name
            · subst hn
              simp only [and_self, if_true, Option.some.injEq, List.mem_append, List.mem_singleton, Prod.mk.injEq, true_and]
              constructor
              · intro hl; exact Or.inr hl.symm
              · rintro (hm | hl)
                · exact absurd hm (hnot l)
                · exact hl.symm
            · simp only [hn, and_false, if_false, List.mem_append, List.mem_singleton, Prod.mk.injEq, false_and, or_false]
              exact o.descr_iff n l
          · simp only [List.mem_append, List.mem_singleton] at hp
            rcases hp with hp | rfl
            · have := o.layer_lt p hp; show p.2 < w.nextLayer + 1; omega
            · show w.nextLayer < w.nextLayer + 1; omega
          · simp only [List.map_append, List.map_cons, List.map_nil]
            exact List.nodup_append.mpr ⟨o.names_nodup, by simp, fun a ha b hb => by
              simp only [List.mem_singleton] at hb; subst hb; intro hab; subst hab; exact hname ha⟩
        · rename_i hne
          have oj := g.ok j sj hj
          have hk := (g.apart j sid sj sp hne hj hsp).1
          refine ⟨oj.klass_lt, oj.cells_klass, fun n l => ?_, fun p hp => ?_, oj.names_nodup⟩
          · show (if sj.cellKlass = sp.cellKlass ∧ n = name then some w.nextLayer else w.descr sj.cellKlass n) = some l ↔ _
            simp only [hk, false_and, if_false]; exact oj.descr_iff n l
          · have := oj.layer_lt p hp; show p.2 < w.nextLayer + 1; omega
      · intro i j si sj hij hi hj
        simp only at hi hj
        split at hi <;> split at hj
        · rename_i h1 h2; exact absurd (h1.trans h2.symm) hij
        · rename_i h1 h2
          simp only [Option.some.injEq] at hi; subst hi
          have a := g.apart sid j sp sj (by rw [← h1]; exact hij) hsp hj
          refine ⟨a.1, fun p hp q hq => ?_⟩
          simp only [List.mem_append, List.mem_singleton] at hp
          rcases hp with hp | rfl
          · exact a.2 p hp q hq
          · have := (g.ok j sj hj).layer_lt q hq; show w.nextLayer ≠ q.2; omega
        · rename_i h1 h2
          simp only [Option.some.injEq] at hj; subst hj
          have a := g.apart i sid si sp (by rw [← h2]; exact hij) hi hsp
          refine ⟨a.1, fun p hp q hq => ?_⟩
          simp only [List.mem_append, List.mem_singleton] at hq
          rcases hq with hq | rfl
          · exact a.2 p hp q hq
          · have := (g.ok i si hi).layer_lt p hp; show p.2 ≠ w.nextLayer; omega
        · exact g.apart i j si sj hij hi hj

theorem good_removeLayer {w w' : World} (g : Good w) {sid : Nat} {name : String}
    (h : removeLayer w sid name = .ok w') : Good w' := by
  unfold removeLayer at h
  split at h
  · simp at h
  · rename_i sp hsp
    split at h
    · simp at h
    · simp only [Except.ok.injEq] at h
      subst h
      have o := g.ok sid sp hsp
      refine ⟨?_, ?_⟩
      · intro j sj hj
        simp only at hj
        split at hj
        · simp only [Option.some.injEq] at hj; subst hj
          refine ⟨o.klass_lt, o.cells_klass, fun n l => ?_, fun p hp => o.layer_lt p (List.mem_filter.mp hp).1, ?_⟩
          · show (if sp.cellKlass = sp.cellKlass ∧ n = name then none else w.descr sp.cellKlass n) = some l ↔ _
            by_cases hn : n = name
            · subst hn; simp
            · simp only [hn, and_false, if_false, List.mem_filter, ne_eq, decide_eq_true_eq, not_false_eq_true, and_true]
              exact o.descr_iff n l
          · exact (List.filter_sublist.map _).nodup o.names_nodup
        · rename_i hne
          have oj := g.ok j sj hj
          have hk := (g.apart j sid sj sp hne hj hsp).1
          refine ⟨oj.klass_lt, oj.cells_klass, fun n l => ?_, oj.layer_lt, oj.names_nodup⟩
          show (if sj.cellKlass = sp.cellKlass ∧ n = name then none else w.descr sj.cellKlass n) = some l ↔ _
          simp only [hk, false_and, if_false]; exact oj.descr_iff n l
      · intro i j si sj hij hi hj
        simp only at hi hj
        split at hi <;> split at hj
        · rename_i h1 h2; exact absurd (h1.trans h2.symm) hij
        · rename_i h1 h2
          simp only [Option.some.injEq] at hi; subst hi
          have a := g.apart sid j sp sj (by rw [← h1]; exact hij) hsp hj
          exact ⟨a.1, fun p hp q hq => a.2 p (List.mem_filter.mp hp).1 q hq⟩
        · rename_i h1 h2
          simp only [Option.some.injEq] at hj; subst hj
          have a := g.apart i sid si sp (by rw [← h2]; exact hij) hi hsp
          exact ⟨a.1, fun p hp q hq => a.2 p hp q (List.mem_filter.mp hq).1⟩
        · exact g.apart i j si sj hij hi hj

theorem good_step {w : World} (g : Good w) (op : Op) : Good (step w op) := by
  cases op with
  | newGrid cs => exact good_newGrid g cs
  | addLayer sid n =>
    simp only [step]; split
    · rename_i w' h; exact good_addLayer g h
    · exact g
  | removeLayer sid n =>
    simp only [step]; split
    · rename_i w' h; exact good_removeLayer g h
    · exact g
  | copy sid =>
    simp only [step]; split
    · rename_i w' h; exact good_copySpace g h
    · exact g

theorem good_foldl {w : World} (g : Good w) (ops : List Op) : Good (ops.foldl step w) := by
  induction ops generalizing w with
  | nil => exact g
  | cons op ops ih => exact ih (good_step g op)

theorem good_run (ops : List Op) : Good (run ops) := good_foldl good_empty ops

end Mesa.Copy
