import MesaModel.Model.VizLayers
import MesaModel.Proofs.Viz
/-!
Helper lemmas and spec functions for the property-layer part of C20 (`Model/VizLayers.lean`).
-/
namespace Mesa.Viz

/-! ## clip -/

theorem clamp_bounds {a lo hi : Int} (h : lo ≤ hi) : lo ≤ clamp a lo hi ∧ clamp a lo hi ≤ hi := by
  unfold clamp; omega

theorem clamp_mono {a b lo hi : Int} (h : a ≤ b) : clamp a lo hi ≤ clamp b lo hi := by
  unfold clamp; omega

theorem clamp_eq_self {a lo hi : Int} (h1 : lo ≤ a) (h2 : a ≤ hi) : clamp a lo hi = a := by
  unfold clamp; omega

theorem clamp_eq_lo {a lo hi : Int} (h : lo < hi) : clamp a lo hi = lo ↔ a ≤ lo := by
  unfold clamp; omega

theorem clamp_eq_hi {a lo hi : Int} (h : lo < hi) : clamp a lo hi = hi ↔ hi ≤ a := by
  unfold clamp; omega

/-! ## np.min / np.max -/

theorem foldl_min_spec : ∀ (xs : List Int) (a : Int),
    (xs.foldl min a ≤ a ∧ ∀ x ∈ xs, xs.foldl min a ≤ x) ∧ (xs.foldl min a = a ∨ xs.foldl min a ∈ xs)
  | [], a => by simp
  | x :: xs, a => by
    obtain ⟨⟨h1, h2⟩, h3⟩ := foldl_min_spec xs (min a x)
    rw [List.foldl_cons]
    refine ⟨⟨by omega, fun y hy => ?_⟩, ?_⟩
    · rcases List.mem_cons.mp hy with rfl | hy
      · omega
      · exact h2 y hy
    · rcases h3 with h3 | h3
      · by_cases hax : a ≤ x
        · left; rw [h3]; omega
        · right; rw [h3]; exact List.mem_cons.mpr (Or.inl (by omega))
      · right; exact List.mem_cons_of_mem _ h3

theorem foldl_max_spec : ∀ (xs : List Int) (a : Int),
    (a ≤ xs.foldl max a ∧ ∀ x ∈ xs, x ≤ xs.foldl max a) ∧ (xs.foldl max a = a ∨ xs.foldl max a ∈ xs)
  | [], a => by simp
  | x :: xs, a => by
    obtain ⟨⟨h1, h2⟩, h3⟩ := foldl_max_spec xs (max a x)
    rw [List.foldl_cons]
    refine ⟨⟨by omega, fun y hy => ?_⟩, ?_⟩
    · rcases List.mem_cons.mp hy with rfl | hy
      · omega
      · exact h2 y hy
    · rcases h3 with h3 | h3
      · by_cases hax : x ≤ a
        · left; rw [h3]; omega
        · right; rw [h3]; exact List.mem_cons.mpr (Or.inl (by omega))
      · right; exact List.mem_cons_of_mem _ h3

theorem minOf_spec {vals : List Int} {lo : Int} (h : minOf vals = some lo) : lo ∈ vals ∧ ∀ v ∈ vals, lo ≤ v := by
  cases vals with
  | nil => simp [minOf] at h
  | cons x xs =>
    simp only [minOf, Option.some.injEq] at h
    obtain ⟨⟨h1, h2⟩, h3⟩ := foldl_min_spec xs x
    rw [h] at h1 h2 h3
    refine ⟨?_, fun v hv => ?_⟩
    · rcases h3 with h3 | h3
      · rw [h3]; exact List.mem_cons_self
      · exact List.mem_cons_of_mem _ h3
    · rcases List.mem_cons.mp hv with rfl | hv
      · exact h1
      · exact h2 v hv

theorem maxOf_spec {vals : List Int} {hi : Int} (h : maxOf vals = some hi) : hi ∈ vals ∧ ∀ v ∈ vals, v ≤ hi := by
  cases vals with
  | nil => simp [maxOf] at h
  | cons x xs =>
    simp only [maxOf, Option.some.injEq] at h
    obtain ⟨⟨h1, h2⟩, h3⟩ := foldl_max_spec xs x
    rw [h] at h1 h2 h3
    refine ⟨?_, fun v hv => ?_⟩
    · rcases h3 with h3 | h3
      · rw [h3]; exact List.mem_cons_self
      · exact List.mem_cons_of_mem _ h3
    · rcases List.mem_cons.mp hv with rfl | hv
      · exact h1
      · exact h2 v hv

theorem Layer.at_mem {L : Layer} {x y : Nat} {v : Int} (h : L.at x y = some v) : v ∈ L.vals := by
  unfold Layer.at at h
  split at h
  · exact List.mem_of_getElem? h
  · cases h

/-! ## spec functions -/

/-- the range `[vmin, vmax]` a layer is drawn over: the portrayal's, else the layer's own minimum / maximum -/
def layerRange (L : Layer) (pt : LayerPortrayal) : Option (Int × Int) :=
  match minOf L.vals, maxOf L.vals with
  | some lo, some hi => some (pt.vmin.getD lo, pt.vmax.getD hi)
  | _, _ => none

/-- what one cell of a drawn layer shows -/
inductive Shown where
  | opacity (f : Frac)                               -- colour mode: the opacity of the one colour
  | level (f : Frac) (alpha : Nat)                   -- colormap mode on hexagons: the level handed to the colormap
  | raw (v : Int) (alpha : Nat) (vmin vmax : Int)    -- colormap mode through imshow: the value, with the range
deriving DecidableEq, Repr

/-- what a picture shows at cell `(x, y)` of a grid `w` wide: image row `y`, column `x`; hexagon `y * w + x` -/
def Picture.cell (p : Picture) (w x y : Nat) : Option Shown :=
  match p with
  | .imgRgba _ rows => (((rows[y]?).bind (·[x]?)).bind id).map .opacity
  | .imgCmap _ a lo hi rows => (((rows[y]?).bind (·[x]?)).bind id).map (.raw · a lo hi)
  | .hexRgba _ cells => ((cells[y * w + x]?).bind id).map .opacity
  | .hexCmap _ a cells => ((cells[y * w + x]?).bind id).map (.level · a)

theorem drawLayer_range {fam : Family} {name : String} {L : Layer} {pt : LayerPortrayal} {d : DrawnLayer}
    (hd : drawLayer fam name L pt = .ok d) : ∃ r, layerRange L pt = some r := by
  unfold drawLayer at hd
  unfold layerRange
  cases h1 : minOf L.vals <;> cases h2 : maxOf L.vals <;> rw [h1, h2] at hd <;> first | (cases hd; done) | exact ⟨_, rfl⟩

theorem rows_cell {α β} (rows : List (List (Option α))) (f : α → β) {x y : Nat} {row : List (Option α)} {o : Option α}
    (h1 : rows[y]? = some row) (h2 : row[x]? = some o) :
    (((rows.map (·.map (·.map f)))[y]?).bind (·[x]?)).bind id = o.map f := by
  rw [List.getElem?_map, h1]
  simp only [Option.map_some, Option.bind_some]
  rw [List.getElem?_map, h2]
  simp

/-- the cells, the range and the colour bar of a drawn layer -/
theorem drawLayer_cell {fam : Family} {name : String} {L : Layer} {pt : LayerPortrayal} {d : DrawnLayer}
    (hw : L.wellFormed = true) (hd : drawLayer fam name L pt = .ok d) {x y : Nat} (hx : x < L.w) (hy : y < L.h) :
    ∃ v vmin vmax, L.at x y = some v ∧ layerRange L pt = some (vmin, vmax) ∧ d.name = name ∧
      d.cbar = (if pt.colorbar then some (vmin, vmax) else none) ∧
      (fam.isHex = true → vmin ≤ vmax) ∧
      (∀ c, pt.mode = .color c → fam.isHex = false →
        d.pic.cell L.w x y = some (.opacity (orthoShade pt.alpha v vmin vmax))) ∧
      (∀ c, pt.mode = .color c → fam.isHex = true →
        d.pic.cell L.w x y = some (.opacity (hexShade pt.alpha v vmin vmax))) ∧
      (∀ c, pt.mode = .colormap c → fam.isHex = false →
        d.pic.cell L.w x y = some (.raw v pt.alpha vmin vmax)) ∧
      (∀ c, pt.mode = .colormap c → fam.isHex = true →
        d.pic.cell L.w x y = some (.level (normLevel v vmin vmax) pt.alpha)) ∧
      pt.mode ≠ .neither := by
  obtain ⟨v, hv⟩ := Layer.at_isSome hw hx hy
  obtain ⟨row, hr1, hr2⟩ := imshowRows_getElem L hy hx
  have hh := hexColors_getElem L hy hx
  unfold drawLayer at hd
  unfold layerRange
  cases h1 : minOf L.vals <;> cases h2 : maxOf L.vals <;> rw [h1, h2] at hd <;> try (cases hd; done)
  rename_i lo hi
  refine ⟨v, pt.vmin.getD lo, pt.vmax.getD hi, hv, rfl, ?_⟩
  simp only at hd
  cases hm : pt.mode with
  | neither => rw [hm] at hd; cases hd
  | color c =>
    rw [hm] at hd
    simp only at hd
    cases hf : fam.isHex with
    | true =>
      rw [hf] at hd
      simp only [if_true] at hd
      split at hd
      · cases hd
      · rename_i hlt
        injection hd with hd; subst hd
        refine ⟨rfl, rfl, (fun _ => by omega), ?_, ?_, ?_, ?_, (fun h => LayerMode.noConfusion h)⟩
        · intro _ _ h; cases h
        · intro c' _ _
          simp only [Picture.cell]
          rw [List.getElem?_map, hh, hv]; rfl
        · intro c' h; cases h
        · intro c' h; cases h
    | false =>
      rw [hf] at hd
      simp only [Bool.false_eq_true, if_false] at hd
      injection hd with hd; subst hd
      refine ⟨rfl, rfl, (fun h => Bool.noConfusion h), ?_, ?_, ?_, ?_, (fun h => LayerMode.noConfusion h)⟩
      · intro c' _ _
        simp only [Picture.cell]
        rw [rows_cell _ _ hr1 hr2, hv]; rfl
      · intro _ _ h; cases h
      · intro c' h; cases h
      · intro c' h; cases h
  | colormap c =>
    rw [hm] at hd
    simp only at hd
    cases hf : fam.isHex with
    | true =>
      rw [hf] at hd
      simp only [if_true] at hd
      split at hd
      · cases hd
      · rename_i hlt
        injection hd with hd; subst hd
        refine ⟨rfl, rfl, (fun _ => by omega), ?_, ?_, ?_, ?_, (fun h => LayerMode.noConfusion h)⟩
        · intro c' h; cases h
        · intro c' h; cases h
        · intro _ _ h; cases h
        · intro c' _ _
          simp only [Picture.cell]
          rw [List.getElem?_map, hh, hv]; rfl
    | false =>
      rw [hf] at hd
      simp only [Bool.false_eq_true, if_false] at hd
      injection hd with hd; subst hd
      refine ⟨rfl, rfl, (fun h => Bool.noConfusion h), ?_, ?_, ?_, ?_, (fun h => LayerMode.noConfusion h)⟩
      · intro c' h; cases h
      · intro c' h; cases h
      · intro c' _ _
        simp only [Picture.cell]
        rw [hr1]
        simp only [Option.bind_some]
        rw [hr2, hv]; rfl
      · intro _ _ h; cases h

/-! ## the loop -/

/-- the entries of the request the space has a layer for -/
def knownPorts (layers : List (String × Layer)) (ports : List (String × LayerPortrayal)) : List (String × LayerPortrayal) :=
  ports.filter fun p => (layers.lookup p.1).isSome

theorem drawLayersLoop_spec (fam : Family) (layers : List (String × Layer)) :
    ∀ (ports : List (String × LayerPortrayal)) (ds : List DrawnLayer), drawLayersLoop fam layers ports = .ok ds →
      ds.map (·.name) = (knownPorts layers ports).map (·.1) ∧
      ∀ d ∈ ds, ∃ pt L, (d.name, pt) ∈ knownPorts layers ports ∧ layers.lookup d.name = some L ∧
        drawLayer fam d.name L pt = .ok d
  | [], ds, h => by
    simp only [drawLayersLoop] at h
    injection h with h; subst h
    simp [knownPorts]
  | (name, pt) :: rest, ds, h => by
    unfold drawLayersLoop at h
    cases hl : layers.lookup name with
    | none =>
      rw [hl] at h
      simp only at h
      have ih := drawLayersLoop_spec fam layers rest ds h
      have hk : knownPorts layers ((name, pt) :: rest) = knownPorts layers rest := by
        simp [knownPorts, hl]
      rw [hk]
      exact ih
    | some L =>
      rw [hl] at h
      simp only at h
      cases hd : drawLayer fam name L pt with
      | error e => rw [hd] at h; cases h
      | ok d =>
        rw [hd] at h
        simp only at h
        cases hr : drawLayersLoop fam layers rest with
        | error e => rw [hr] at h; cases h
        | ok ds' =>
          rw [hr] at h
          injection h with h; subst h
          have ih := drawLayersLoop_spec fam layers rest ds' hr
          have hk : knownPorts layers ((name, pt) :: rest) = (name, pt) :: knownPorts layers rest := by
            simp [knownPorts, hl]
          have hn : d.name = name := by
            unfold drawLayer at hd
            cases h1 : minOf L.vals <;> cases h2 : maxOf L.vals <;> rw [h1, h2] at hd <;> try (cases hd; done)
            simp only at hd
            cases hm : pt.mode <;> rw [hm] at hd <;> simp only at hd
            · split at hd
              · split at hd
                · cases hd
                · injection hd with hd; subst hd; rfl
              · injection hd with hd; subst hd; rfl
            · split at hd
              · split at hd
                · cases hd
                · injection hd with hd; subst hd; rfl
              · injection hd with hd; subst hd; rfl
            · cases hd
          rw [hk]
          refine ⟨by simp [hn, ih.1], fun d' hd' => ?_⟩
          rcases List.mem_cons.mp hd' with rfl | hd'
          · exact ⟨pt, L, by rw [hn]; exact List.mem_cons_self, by rw [hn]; exact hl, by rw [hn]; exact hd⟩
          · obtain ⟨pt', L', h1, h2, h3⟩ := ih.2 d' hd'
            exact ⟨pt', L', List.mem_cons_of_mem _ h1, h2, h3⟩

end Mesa.Viz
