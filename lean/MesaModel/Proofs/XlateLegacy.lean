import MesaModel.Gen.FnLegacy
import MesaModel.Proofs.LegacyOrth
/-!
Equivalence of the definitions GENERATED from mesa/space.py (`Gen/FnLegacy.lean`, rewritten by `harness/py2lean.py` on
every check) with the hand-written model `Model/Legacy.lean` / `Model/LegacyNbhd.lean` (C09, C08).
-/
namespace Mesa.Legacy

/-- the record the generated functions read, for a model grid geometry and a neighbourhood cache -/
def keyConv (k : NKey) : (Int × Int) × Bool × Bool × Int := (k.pos, k.moore, k.ic, (k.r : Int))

def cacheConv (c : NCache) : List (((Int × Int) × Bool × Bool × Int) × List (Int × Int)) := c.map fun e => (keyConv e.1, e.2)

def lgrid (d : Dim) (c : NCache) : GenFn.LGrid := { width := d.w, height := d.h, torus := d.torus, _neighborhood_cache := cacheConv c }

/-- `_Grid.out_of_bounds` as generated = the model's `oob` -/
theorem C09_gen_out_of_bounds_eq_model (d : Dim) (c : NCache) (p : Coord) :
    GenFn.out_of_bounds (lgrid d c) p = d.oob p := by
  obtain ⟨x, y⟩ := p
  simp only [GenFn.out_of_bounds, Dim.oob, lgrid]
  first
    | (rw [Bool.eq_iff_iff]; simp <;> omega)
    | grind

/-- the same for the grid state of C08 (`Grid.oob`, used by `torus_adj`, `place_agent`, `move_agent`) -/
theorem C08_gen_out_of_bounds_eq_model (g : Grid) (c : NCache) (p : Coord) :
    GenFn.out_of_bounds (lgrid g.dim c) p = g.oob p := by
  rw [C09_gen_out_of_bounds_eq_model]; rfl

/-- the translation of the model's error for a position outside a bounded grid -/
def errConv {α : Type} (r : Except Err α) : Except Py.Err α :=
  match r with
  | .ok v => .ok v
  | .error _ => .error Py.Err.Exception

/-- `_Grid.torus_adj` as generated = the model's `torusAdj` (sizes positive, as `_Grid.__init__` is used) -/
theorem C08_gen_torus_adj_eq_model (g : Grid) (_hw : 0 < g.w) (_hh : 0 < g.h) (c : NCache) (p : Coord) :
    GenFn.torus_adj (lgrid g.dim c) p = errConv (g.torusAdj p) := by
  have hw : 0 ≤ g.w := by omega
  have hh : 0 ≤ g.h := by omega
  have ho : ∀ q, GenFn.out_of_bounds (lgrid g.dim c) q = g.oob q := C08_gen_out_of_bounds_eq_model g c
  obtain ⟨x, y⟩ := p
  unfold GenFn.torus_adj Grid.torusAdj
  simp only [ho]
  cases g.oob (x, y) <;> cases ht : g.torus <;>
    simp [errConv, lgrid, Grid.dim, ht, Int.fmod_eq_emod_of_nonneg, hw, hh]

/-! ### `_Grid.get_neighborhood` (cache lookup, interior fast path, border / torus slow path, centre pop, cache store) -/

theorem keyConv_beq (a k : NKey) : (keyConv a == keyConv k) = (a == k) := by
  cases a; cases k
  rw [Bool.eq_iff_iff]
  simp [keyConv]
  intros; omega

theorem lookup_cacheConv (k : NKey) (c : NCache) : List.lookup (keyConv k) (cacheConv c) = List.lookup k c := by
  induction c with
  | nil => rfl
  | cons e es ih =>
    obtain ⟨a, v⟩ := e
    simp only [cacheConv, List.map_cons, List.lookup_cons] at ih ⊢
    rw [show (keyConv k == keyConv a) = (k == a) from keyConv_beq k a]
    cases k == a <;> simp [ih]

theorem pyRange_eq_intRange (lo : Int) (n : Nat) (hi : Int) (h : hi = lo + n) : Py.range lo hi = intRange lo n := by
  subst h
  have : (lo + (n : Int) - lo).toNat = n := by omega
  simp [Py.range, intRange, this]

theorem setInsert_eq (l : List Coord) (c : Coord) : Py.setInsert l c = insertKey l c := by
  simp [Py.setInsert, insertKey]

theorem abs_eq (z : Int) : Py.abs z = Grid.iabs z := rfl


theorem foldl_congr2 {α β : Type} {f g : β → α → β} {i i' : β} {l l' : List α} (hf : ∀ b a, f b a = g b a)
    (hl : l = l') (hi : i = i') : l.foldl f i = l'.foldl g i' := by
  have : f = g := by funext b a; exact hf b a
  rw [this, hl, hi]

theorem setDiscard_eq (l : List Coord) (c : Coord) : Py.setDiscard l c = l.filter (fun q => q != c) := by
  simp [Py.setDiscard, bne]

/-- closes a leaf after case splitting: by simplification with the hypotheses, else by linear arithmetic over them -/
macro "xl_close" : tactic => `(tactic| first
  | (simp_all; done)
  | (simp_all [insertKey]; done)
  | ((try simp_all [insertKey]) <;> (repeat' split) <;> (first | (simp_all; done) | omega | grind)))

/-- leaf goals of the loop comparison: equal ranges, equal loop bodies -/
macro "xl_leaf" : tactic => `(tactic| first
  | rfl
  | (apply pyRange_eq_intRange; omega)
  | (simp [setInsert_eq, abs_eq]; done)
  | (simp [setInsert_eq, abs_eq] <;> (repeat' split) <;> xl_close; done))

/-- the two loop nests of the generated function against the model's `fastKeys` / `slowKeys` (as folds): the proof
    descends through the `foldl`s by congruence and compares ranges and loop bodies pointwise, so it does not depend on
    how the bodies are written -/
macro "xl_nbhd_loops" d:term "," x:term "," y:term "," r:term "," hw0:term "," hh0:term : tactic => `(tactic| (
  split
  next h =>
    have hi : interior $d ($x, $y) $r = true := by simp [interior] at h ⊢; omega
    rw [hi]
    simp only [if_true, dictKeys, fastKeys, List.foldl_flatMap, List.foldl_filterMap]
    exact foldl_congr2 (fun _ _ => foldl_congr2 (fun _ _ => by xl_leaf) (by xl_leaf) rfl) (by xl_leaf) rfl
  next h =>
    have hi : interior $d ($x, $y) $r = false := by simp [interior] at h ⊢; omega
    rw [hi]
    simp only [Bool.false_eq_true, if_false, dictKeys, slowKeys, List.foldl_flatMap, List.foldl_filterMap]
    exact foldl_congr2 (fun _ _ => foldl_congr2 (fun _ _ => by
      cases ht : Dim.torus $d <;> simp [setInsert_eq, abs_eq, Int.fmod_eq_emod_of_nonneg, $hw0:term, $hh0:term] <;>
        (repeat' split) <;> xl_close)
        (by xl_leaf) rfl) (by xl_leaf) rfl))

/-- `_Grid.get_neighborhood` as generated from the source = the model's `getNbhd`: same result (or the out-of-bounds
    exception) and the same cache afterwards, for every cache content, centre, radius and flag
    (width and height positive, as `_Grid.__init__` is used). -/
theorem C09_gen_get_neighborhood_eq_model (d : Dim) (hw : 0 < d.w) (hh : 0 < d.h) (cache : NCache) (k : NKey) :
    GenFn.get_neighborhood (lgrid d cache) k.pos k.moore k.ic (k.r : Int) =
      (errConv (getNbhd d cache k).2, cacheConv (getNbhd d cache k).1) := by
  have hw0 : 0 ≤ d.w := by omega
  have hh0 : 0 ≤ d.h := by omega
  obtain ⟨⟨x, y⟩, moore, ic, r⟩ := k
  have hl := lookup_cacheConv ⟨(x, y), moore, ic, r⟩ cache
  have hoob : ∀ p, GenFn.out_of_bounds (lgrid d cache) p = d.oob p := C09_gen_out_of_bounds_eq_model d cache
  generalize hs : lgrid d cache = self at hoob
  have h1 : self.width = d.w := by rw [← hs]; rfl
  have h2 : self.height = d.h := by rw [← hs]; rfl
  have h3 : self.torus = d.torus := by rw [← hs]; rfl
  have h4 : self._neighborhood_cache = cacheConv cache := by rw [← hs]; rfl
  unfold GenFn.get_neighborhood getNbhd
  simp only [hoob, h1, h2, h3, h4]
  dsimp only [keyConv] at hl
  rw [hl]
  cases hc : List.lookup (⟨(x, y), moore, ic, r⟩ : NKey) cache with
  | some v => simp [errConv]
  | none =>
    simp only [nbhdCompute]
    cases ho : d.oob (x, y) with
    | true => simp [errConv]
    | false =>
      simp only [Bool.false_eq_true, if_false]
      clear hl hc hoob h1 h2 h3 h4 hs
      cases ic <;> simp [errConv, cacheConv, keyConv, setDiscard_eq]
      · apply congrArg
        xl_nbhd_loops d, x, y, r, hw0, hh0
      · xl_nbhd_loops d, x, y, r, hw0, hh0

/-- C09's main clause about the code-derived text: on a grid whose cache is still empty, what the generated
    `get_neighborhood` returns has no duplicates and is exactly the set of cells in range. -/
theorem C09_orth_spec_generated (d : Dim) (hw : 0 < d.w) (hh : 0 < d.h) (k : NKey) (l : List Coord)
    (c' : List (((Int × Int) × Bool × Bool × Int) × List (Int × Int)))
    (h : GenFn.get_neighborhood (lgrid d []) k.pos k.moore k.ic (k.r : Int) = (.ok l, c')) :
    l.Nodup ∧ ∀ c, c ∈ l ↔ d.inGrid c ∧ (c = k.pos → k.ic = true) ∧ (c ≠ k.pos → InRange d k.pos k.moore k.r c) := by
  rw [C09_gen_get_neighborhood_eq_model d hw hh] at h
  apply orth_spec d hw hh k l
  cases hn : nbhdCompute d k with
  | error e => simp [getNbhd, hn, errConv] at h
  | ok v =>
    simp [getNbhd, hn, errConv] at h
    rw [h.1]
