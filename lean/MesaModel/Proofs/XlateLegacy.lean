import MesaModel.Gen.FnLegacy
import MesaModel.Proofs.LegacyOrth
import MesaModel.Proofs.LegacySet
import MesaModel.Proofs.Legacy
/-!
Equivalence of the definitions GENERATED from mesa/space.py (`Gen/FnLegacy.lean`, rewritten by `harness/py2lean.py` on
every check) with the hand-written model `Model/Legacy.lean` / `Model/LegacyNbhd.lean` (C09, C08).
-/
namespace Mesa.Legacy

/-- the record the generated functions read, for a model grid geometry and a neighbourhood cache -/
def keyConv (k : NKey) : (Int × Int) × Bool × Bool × Int := (k.pos, k.moore, k.ic, (k.r : Int))

def cacheConv (c : NCache) : List (((Int × Int) × Bool × Bool × Int) × List (Int × Int)) := c.map fun e => (keyConv e.1, e.2)

def lgrid (d : Dim) (c : NCache) : GenFn.LGrid := { width := d.w, height := d.h, torus := d.torus, _neighborhood_cache := cacheConv c }

/-- `_Grid.out_of_bounds` as generated = the model's `oob` -/
theorem C09_gen_out_of_bounds_eq_model (d : Dim) (c : NCache) (p : Coord) :
    GenFn.out_of_bounds (lgrid d c) p = d.oob p := by
  obtain ⟨x, y⟩ := p
  simp only [GenFn.out_of_bounds, Dim.oob, lgrid]
  first
    | (rw [Bool.eq_iff_iff]; simp <;> omega)
    | grind

/-- the same for the grid state of C08 (`Grid.oob`, used by `torus_adj`, `place_agent`, `move_agent`) -/
theorem C08_gen_out_of_bounds_eq_model (g : Grid) (c : NCache) (p : Coord) :
    GenFn.out_of_bounds (lgrid g.dim c) p = g.oob p := by
  rw [C09_gen_out_of_bounds_eq_model]; rfl

/-- the translation of the model's error for a position outside a bounded grid -/
def errConv {α : Type} (r : Except Err α) : Except Py.Err α :=
  match r with
  | .ok v => .ok v
  | .error _ => .error Py.Err.Exception

/-- `_Grid.torus_adj` as generated = the model's `torusAdj` (sizes positive, as `_Grid.__init__` is used) -/
theorem C08_gen_torus_adj_eq_model (g : Grid) (_hw : 0 < g.w) (_hh : 0 < g.h) (c : NCache) (p : Coord) :
    GenFn.torus_adj (lgrid g.dim c) p = errConv (g.torusAdj p) := by
  have hw : 0 ≤ g.w := by omega
  have hh : 0 ≤ g.h := by omega
  have ho : ∀ q, GenFn.out_of_bounds (lgrid g.dim c) q = g.oob q := C08_gen_out_of_bounds_eq_model g c
  obtain ⟨x, y⟩ := p
  unfold GenFn.torus_adj Grid.torusAdj
  simp only [ho]
  cases g.oob (x, y) <;> cases ht : g.torus <;>
    simp [errConv, lgrid, Grid.dim, ht, Int.fmod_eq_emod_of_nonneg, hw, hh]

/-! ### `_Grid.get_neighborhood` (cache lookup, interior fast path, border / torus slow path, centre pop, cache store) -/

theorem keyConv_beq (a k : NKey) : (keyConv a == keyConv k) = (a == k) := by
  cases a; cases k
  rw [Bool.eq_iff_iff]
  simp [keyConv]
  intros; omega

theorem lookup_cacheConv (k : NKey) (c : NCache) : List.lookup (keyConv k) (cacheConv c) = List.lookup k c := by
  induction c with
  | nil => rfl
  | cons e es ih =>
    obtain ⟨a, v⟩ := e
    simp only [cacheConv, List.map_cons, List.lookup_cons] at ih ⊢
    rw [show (keyConv k == keyConv a) = (k == a) from keyConv_beq k a]
    cases k == a <;> simp [ih]

theorem pyRange_eq_intRange (lo : Int) (n : Nat) (hi : Int) (h : hi = lo + n) : Py.range lo hi = intRange lo n := by
  subst h
  have : (lo + (n : Int) - lo).toNat = n := by omega
  simp [Py.range, intRange, this]

theorem setInsert_eq (l : List Coord) (c : Coord) : Py.setInsert l c = insertKey l c := by
  simp [Py.setInsert, insertKey]

theorem abs_eq (z : Int) : Py.abs z = Grid.iabs z := rfl


theorem foldl_congr2 {α β : Type} {f g : β → α → β} {i i' : β} {l l' : List α} (hf : ∀ b a, f b a = g b a)
    (hl : l = l') (hi : i = i') : l.foldl f i = l'.foldl g i' := by
  have : f = g := by funext b a; exact hf b a
  rw [this, hl, hi]

theorem setDiscard_eq (l : List Coord) (c : Coord) : Py.setDiscard l c = l.filter (fun q => q != c) := by
  simp [Py.setDiscard, bne]

/-- closes a leaf after case splitting: by simplification with the hypotheses, else by linear arithmetic over them -/
macro "xl_close" : tactic => `(tactic| first
  | (simp_all; done)
  | (simp_all [insertKey]; done)
  | ((try simp_all [insertKey]) <;> (repeat' split) <;> (first | (simp_all; done) | omega | grind)))

/-- leaf goals of the loop comparison: equal ranges, equal loop bodies -/
macro "xl_leaf" : tactic => `(tactic| first
  | rfl
  | (apply pyRange_eq_intRange; omega)
  | (simp [setInsert_eq, abs_eq]; done)
  | (simp [setInsert_eq, abs_eq] <;> (repeat' split) <;> xl_close; done))

/-- the two loop nests of the generated function against the model's `fastKeys` / `slowKeys` (as folds): the proof
    descends through the `foldl`s by congruence and compares ranges and loop bodies pointwise, so it does not depend on
    how the bodies are written -/
macro "xl_nbhd_loops" d:term "," x:term "," y:term "," r:term "," hw0:term "," hh0:term : tactic => `(tactic| (
  split
  next h =>
    have hi : interior $d ($x, $y) $r = true := by simp [interior] at h ⊢; omega
    rw [hi]
    simp only [if_true, dictKeys, fastKeys, List.foldl_flatMap, List.foldl_filterMap]
    exact foldl_congr2 (fun _ _ => foldl_congr2 (fun _ _ => by xl_leaf) (by xl_leaf) rfl) (by xl_leaf) rfl
  next h =>
    have hi : interior $d ($x, $y) $r = false := by simp [interior] at h ⊢; omega
    rw [hi]
    simp only [Bool.false_eq_true, if_false, dictKeys, slowKeys, List.foldl_flatMap, List.foldl_filterMap]
    exact foldl_congr2 (fun _ _ => foldl_congr2 (fun _ _ => by
      cases ht : Dim.torus $d <;> simp [setInsert_eq, abs_eq, Int.fmod_eq_emod_of_nonneg, $hw0:term, $hh0:term] <;>
        (repeat' split) <;> xl_close)
        (by xl_leaf) rfl) (by xl_leaf) rfl))

/-- `_Grid.get_neighborhood` as generated from the source = the model's `getNbhd`: same result (or the out-of-bounds
    exception) and the same cache afterwards, for every cache content, centre, radius and flag
    (width and height positive, as `_Grid.__init__` is used). -/
theorem C09_gen_get_neighborhood_eq_model (d : Dim) (hw : 0 < d.w) (hh : 0 < d.h) (cache : NCache) (k : NKey) :
    GenFn.get_neighborhood (lgrid d cache) k.pos k.moore k.ic (k.r : Int) =
      (errConv (getNbhd d cache k).2, cacheConv (getNbhd d cache k).1) := by
  have hw0 : 0 ≤ d.w := by omega
  have hh0 : 0 ≤ d.h := by omega
  obtain ⟨⟨x, y⟩, moore, ic, r⟩ := k
  have hl := lookup_cacheConv ⟨(x, y), moore, ic, r⟩ cache
  have hoob : ∀ p, GenFn.out_of_bounds (lgrid d cache) p = d.oob p := C09_gen_out_of_bounds_eq_model d cache
  generalize hs : lgrid d cache = self at hoob
  have h1 : self.width = d.w := by rw [← hs]; rfl
  have h2 : self.height = d.h := by rw [← hs]; rfl
  have h3 : self.torus = d.torus := by rw [← hs]; rfl
  have h4 : self._neighborhood_cache = cacheConv cache := by rw [← hs]; rfl
  unfold GenFn.get_neighborhood getNbhd
  simp only [hoob, h1, h2, h3, h4]
  dsimp only [keyConv] at hl
  rw [hl]
  cases hc : List.lookup (⟨(x, y), moore, ic, r⟩ : NKey) cache with
  | some v => simp [errConv]
  | none =>
    simp only [nbhdCompute]
    cases ho : d.oob (x, y) with
    | true => simp [errConv]
    | false =>
      simp only [Bool.false_eq_true, if_false]
      clear hl hc hoob h1 h2 h3 h4 hs
      cases ic <;> simp [errConv, cacheConv, keyConv, setDiscard_eq]
      · apply congrArg
        xl_nbhd_loops d, x, y, r, hw0, hh0
      · xl_nbhd_loops d, x, y, r, hw0, hh0

/-- C09's main clause about the code-derived text: on a grid whose cache is still empty, what the generated
    `get_neighborhood` returns has no duplicates and is exactly the set of cells in range. -/
theorem C09_orth_spec_generated (d : Dim) (hw : 0 < d.w) (hh : 0 < d.h) (k : NKey) (l : List Coord)
    (c' : List (((Int × Int) × Bool × Bool × Int) × List (Int × Int)))
    (h : GenFn.get_neighborhood (lgrid d []) k.pos k.moore k.ic (k.r : Int) = (.ok l, c')) :
    l.Nodup ∧ ∀ c, c ∈ l ↔ d.inGrid c ∧ (c = k.pos → k.ic = true) ∧ (c ≠ k.pos → InRange d k.pos k.moore k.r c) := by
  rw [C09_gen_get_neighborhood_eq_model d hw hh] at h
  apply orth_spec d hw hh k l
  cases hn : nbhdCompute d k with
  | error e => simp [getNbhd, hn, errConv] at h
  | ok v =>
    simp [getNbhd, hn, errConv] at h
    rw [h.1]

/-! ### the grid mutators (`is_cell_empty`, `SingleGrid.place_agent`, `SingleGrid.remove_agent`)

The generated definitions work on a concrete state record (`GenFn.LSpace`: `_grid` and `_empty_mask` as lists of rows, `_empties`
as the list of the set's members, the agent as `GenFn.LAgent` = id + `pos`) and return the tables they leave behind.  The tie to the
hand-written model is a REFINEMENT through the explicit abstraction function `absSingle`: the model grid of the state the generated
function returns is the state the model's `place` / `remove` returns on the model grid of the state before (equal as records for
`place`; for `remove` equal up to the membership of `empties`, `Grid.sameSets`: the model keeps the set sorted, the translation in
insertion order).  Guards: the tables have the grid's shape (`Shaped`, what `__init__` builds) and the touched coordinate is inside
the grid (`inGrid`) — outside it Python's `_grid[x][y]` wraps negative indices / raises IndexError, which is outside the subset. -/

theorem get2_set2 {α : Type} [Inhabited α] (t : List (List α)) (i j i' j' : Int) (v : α)
    (hi : 0 ≤ i) (hj : 0 ≤ j) (hi' : 0 ≤ i') (hj' : 0 ≤ j')
    (h1 : i.toNat < t.length) (h2 : j.toNat < (t.getD i.toNat []).length) :
    Py.get2 (Py.set2 t i j v) i' j' = if i' = i ∧ j' = j then v else Py.get2 t i' j' := by
  unfold Py.get2 Py.set2
  by_cases hii : i' = i
  · subst hii
    by_cases hjj : j' = j
    · subst hjj
      simp [List.getD_eq_getElem?_getD, List.getElem?_set, h1] at h2 ⊢
      simp [h2]
    · have : j.toNat ≠ j'.toNat := by omega
      simp [List.getD_eq_getElem?_getD, h1, hjj, this]
  · have : i.toNat ≠ i'.toNat := by omega
    simp [List.getD_eq_getElem?_getD, hii, this]

/-- a `w × h` table: `w` rows of length `h` -/
def Table {α : Type} (t : List (List α)) (w h : Int) : Prop :=
  t.length = w.toNat ∧ ∀ i : Nat, i < w.toNat → (t.getD i []).length = h.toNat

theorem Table.set2 {α : Type} {t : List (List α)} {w h : Int} (ht : Table t w h) (i j : Int) (v : α) :
    Table (Py.set2 t i j v) w h := by
  refine ⟨by simp [Py.set2, ht.1], fun k hk => ?_⟩
  unfold Py.set2
  by_cases hki : i.toNat = k
  · subst hki
    have := ht.2 _ hk
    simp [List.getD_eq_getElem?_getD, ht.1, hk] at this ⊢
    exact this
  · have := ht.2 _ hk
    simpa [List.getD_eq_getElem?_getD, hki] using this

def inGrid (w h : Int) (p : Coord) : Prop := 0 ≤ p.1 ∧ p.1 < w ∧ 0 ≤ p.2 ∧ p.2 < h
instance (w h : Int) (p : Coord) : Decidable (inGrid w h p) := by unfold inGrid; infer_instance

/-- a table read as a total function of the coordinate (`d` outside the grid) -/
def tabAbs {α β : Type} [Inhabited α] (w h : Int) (f : α → β) (d : β) (t : List (List α)) : Coord → β :=
  fun p => if inGrid w h p then f (Py.get2 t p.1 p.2) else d

theorem tabAbs_set2 {α β : Type} [Inhabited α] (w h : Int) (f : α → β) (d : β) (t : List (List α)) (ht : Table t w h)
    (p : Coord) (hp : inGrid w h p) (v : α) :
    tabAbs w h f d (Py.set2 t p.1 p.2 v) = upd (tabAbs w h f d t) p (f v) := by
  obtain ⟨h1, h2, h3, h4⟩ := hp
  funext q
  unfold upd tabAbs
  by_cases hq : inGrid w h q
  · obtain ⟨q1, q2, q3, q4⟩ := hq
    have hlen : p.1.toNat < t.length := by rw [ht.1]; omega
    have hrow : p.2.toNat < (t.getD p.1.toNat []).length := by rw [ht.2 _ (by omega)]; omega
    rw [get2_set2 _ _ _ _ _ _ h1 h3 q1 q3 hlen hrow]
    by_cases hqp : q = p
    · subst hqp; simp [inGrid, q1, q2, q3, q4]
    · have : ¬ (q.1 = p.1 ∧ q.2 = p.2) := fun h => hqp (Prod.ext h.1 h.2)
      simp [hqp, this, inGrid, q1, q2, q3, q4]
  · have hqp : q ≠ p := fun h => hq (h ▸ ⟨h1, h2, h3, h4⟩)
    simp [hqp, hq]

/-- the cell of a SingleGrid (`None` or the agent, named by its `unique_id`) as the model's content list -/
def cellAbs (c : Option Int) : List Aid := match c with | none => [] | some a => [a.toNat]

/-- THE ABSTRACTION FUNCTION: the model grid a SingleGrid state record stands for (`posf` = every agent's `pos`; `cutoff` is
    not read by the mutators) -/
def absSingle (s : GenFn.LSpace) (cutoff : Nat) (posf : Aid → Option Coord) : Grid :=
  { w := s.width, h := s.height, torus := s.torus, multi := false, cutoff := cutoff,
    content := tabAbs s.width s.height cellAbs [] s._grid,
    pos := posf,
    empties := if s._empties_built then some s._empties else none,
    mask := tabAbs s.width s.height id true s._empty_mask }

/-- the state record after a generated mutator returned these tables -/
def GenFn.LSpace.put (s : GenFn.LSpace) (r : List (List (Option Int)) × List (Int × Int) × List (List Bool) × Option (Int × Int)) :
    GenFn.LSpace :=
  { s with _grid := r.1, _empties := r.2.1, _empty_mask := r.2.2.1 }

/-- shape invariant of the state record (what `_Grid.__init__` / `_PropertyGrid.__init__` build) -/
def Shaped (s : GenFn.LSpace) : Prop := Table s._grid s.width s.height ∧ Table s._empty_mask s.width s.height

/-- the agent object the generated functions are handed: agent `a` of the model with its current `pos` -/
def lagent (posf : Aid → Option Coord) (a : Aid) : GenFn.LAgent := { unique_id := (a : Int), pos := posf a }

def resConv (r : Except Py.Err Unit) : Res := match r with | .ok _ => .ok | .error _ => .err .full

theorem updA_self {β : Type} (f : Aid → β) (a : Aid) : updA f a (f a) = f := by
  funext b; unfold updA; split <;> simp_all

/-- `_Grid.is_cell_empty` (with `_Grid.default_val`) as generated = the model's `isCellEmpty`, inside the grid -/
theorem C08_gen_is_cell_empty_eq_model (s : GenFn.LSpace) (cutoff : Nat) (posf : Aid → Option Coord) (p : Coord)
    (hp : inGrid s.width s.height p) :
    GenFn.is_cell_empty s p = (absSingle s cutoff posf).isCellEmpty p := by
  obtain ⟨x, y⟩ := p
  simp only [GenFn.is_cell_empty, GenFn.default_val, Grid.isCellEmpty, absSingle, tabAbs, hp, if_true]
  cases Py.get2 s._grid x y <;> rfl

/-- `is_cell_empty` only reads `_grid`: calling it on `{ self with _grid := <the current table> }` is calling it on that table -/
theorem is_cell_empty_congr (s t : GenFn.LSpace) (p : Coord) (h : t._grid = s._grid) :
    GenFn.is_cell_empty t p = GenFn.is_cell_empty s p := by
  obtain ⟨x, y⟩ := p
  simp only [GenFn.is_cell_empty, h]

theorem is_cell_empty_self (s : GenFn.LSpace) (p : Coord) :
    GenFn.is_cell_empty { s with _grid := s._grid } p = GenFn.is_cell_empty s p := is_cell_empty_congr s _ p rfl

/-- `SingleGrid.place_agent` as generated refines the model's `place`: same model state afterwards, same outcome -/
theorem C08_gen_place_agent_eq_model (s : GenFn.LSpace) (cutoff : Nat) (posf : Aid → Option Coord) (a : Aid) (p : Coord)
    (hs : Shaped s) (hp : inGrid s.width s.height p) :
    absSingle (s.put (GenFn.place_agent s (lagent posf a) p).2) cutoff (updA posf a (GenFn.place_agent s (lagent posf a) p).2.2.2.2)
        = ((absSingle s cutoff posf).place a p).1
      ∧ resConv (GenFn.place_agent s (lagent posf a) p).1 = ((absSingle s cutoff posf).place a p).2 := by
  have he := C08_gen_is_cell_empty_eq_model s cutoff posf p hp
  unfold GenFn.place_agent Grid.place
  simp only [show (absSingle s cutoff posf).multi = false from rfl, Bool.false_eq_true, if_false]
  rw [← he]
  rw [is_cell_empty_self]
  cases hc : GenFn.is_cell_empty s p
  · simp only [Bool.not_false, Bool.false_eq_true, if_true, if_false, resConv, GenFn.LSpace.put, lagent, updA_self, and_true]
  · obtain ⟨x, y⟩ := p
    simp only [Bool.not_true, Bool.false_eq_true, if_true, if_false, resConv, GenFn.LSpace.put, lagent, and_true]
    simp only [absSingle]
    rw [tabAbs_set2 _ _ _ _ _ hs.1 (x, y) hp, tabAbs_set2 _ _ _ _ _ hs.2 (x, y) hp]
    cases s._empties_built <;> simp [cellAbs, Py.setDiscard, sdiscard, bne]

/-- two optional coordinate sets with the same members (`None` = not built) -/
def sameMembers (a b : Option (List Coord)) : Prop :=
  match a, b with
  | none, none => True
  | some x, some y => ∀ q, q ∈ x ↔ q ∈ y
  | _, _ => False

/-- two model grids that are equal except for the representation of the `empties` set, which has the same members -/
def Grid.sameSets (g1 g2 : Grid) : Prop :=
  ({ g1 with empties := none } : Grid) = { g2 with empties := none } ∧ sameMembers g1.empties g2.empties

theorem Grid.sameSets_refl (g : Grid) : g.sameSets g := by
  refine ⟨rfl, ?_⟩
  unfold sameMembers
  cases g.empties <;> simp

theorem mem_setInsert (l : List Coord) (p q : Coord) : q ∈ Py.setInsert l p ↔ q = p ∨ q ∈ l := by
  unfold Py.setInsert
  by_cases h : l.contains p
  · have hp : p ∈ l := by simpa using h
    simp only [h, if_true]
    constructor
    · exact Or.inr
    · rintro (rfl | h') <;> assumption
  · simp only [h, Bool.false_eq_true, if_false, List.mem_append, List.mem_singleton]
    exact Or.comm

/-- `SingleGrid.remove_agent` as generated refines the model's `remove` (the agent's `pos`, if any, inside the grid):
    same model state afterwards up to the order of the `empties` set; the call never raises -/
theorem C08_gen_remove_agent_eq_model (s : GenFn.LSpace) (cutoff : Nat) (posf : Aid → Option Coord) (a : Aid)
    (hs : Shaped s) (hp : ∀ p, posf a = some p → inGrid s.width s.height p) :
    (absSingle (s.put (GenFn.remove_agent s (lagent posf a))) cutoff (updA posf a (GenFn.remove_agent s (lagent posf a)).2.2.2)).sameSets
        ((absSingle s cutoff posf).remove a).1
      ∧ ((absSingle s cutoff posf).remove a).2 = .ok := by
  unfold GenFn.remove_agent Grid.remove
  simp only [show (absSingle s cutoff posf).multi = false from rfl, Bool.false_eq_true, if_false,
    show (absSingle s cutoff posf).pos a = posf a from rfl, lagent]
  cases hpa : posf a with
  | none =>
    simp only [GenFn.LSpace.put, and_true]
    rw [← hpa, updA_self]
    exact Grid.sameSets_refl _
  | some p =>
    have hin := hp p hpa
    obtain ⟨x, y⟩ := p
    simp only [GenFn.LSpace.put, GenFn.default_val, and_true]
    simp only [absSingle]
    rw [tabAbs_set2 _ _ _ _ _ hs.1 (x, y) hin, tabAbs_set2 _ _ _ _ _ hs.2 (x, y) hin]
    refine ⟨by simp [cellAbs], ?_⟩
    cases s._empties_built
    · simp [sameMembers]
    · simp only [sameMembers, if_true, Option.map_some]
      intro q
      rw [mem_setInsert, mem_sadd]

/-- C08 over the generated text: after an accepted `place_agent` at a coordinate of the grid the four views agree at the touched
    cell — `agent.pos` is the cell, the cell holds the agent, the cell is not in `_empties`, `_empty_mask` is False there -/
theorem C08_place_agent_views_generated (s : GenFn.LSpace) (ag : GenFn.LAgent) (p : Coord)
    (hs : Shaped s) (hp : inGrid s.width s.height p) (he : GenFn.is_cell_empty s p = true) :
    let r := GenFn.place_agent s ag p
    r.1 = .ok () ∧ r.2.2.2.2 = some p ∧ Py.get2 r.2.1 p.1 p.2 = some ag.unique_id
      ∧ (s._empties_built = true → p ∉ r.2.2.1) ∧ Py.get2 r.2.2.2.1 p.1 p.2 = false := by
  obtain ⟨h1, h2, h3, h4⟩ := hp
  have hg : p.1.toNat < s._grid.length := by rw [hs.1.1]; omega
  have hgr : p.2.toNat < (s._grid.getD p.1.toNat []).length := by rw [hs.1.2 _ (by omega)]; omega
  have hm : p.1.toNat < s._empty_mask.length := by rw [hs.2.1]; omega
  have hmr : p.2.toNat < (s._empty_mask.getD p.1.toNat []).length := by rw [hs.2.2 _ (by omega)]; omega
  obtain ⟨x, y⟩ := p
  simp only [GenFn.place_agent, he, Bool.not_true, Bool.false_eq_true, if_true, if_false]
  refine ⟨trivial, trivial, ?_, ?_, ?_⟩
  · rw [get2_set2 _ _ _ _ _ _ h1 h3 h1 h3 hg hgr]; simp
  · intro hb; simp [hb, Py.setDiscard]
  · rw [get2_set2 _ _ _ _ _ _ h1 h3 h1 h3 hm hmr]; simp

/-- C08 over the generated text: after `remove_agent` of an agent standing on a coordinate of the grid — `agent.pos` is None,
    the cell is empty again, the cell is in `_empties` (if built), `_empty_mask` is True there -/
theorem C08_remove_agent_views_generated (s : GenFn.LSpace) (ag : GenFn.LAgent) (p : Coord)
    (hs : Shaped s) (hp : inGrid s.width s.height p) (ha : ag.pos = some p) :
    let r := GenFn.remove_agent s ag
    r.2.2.2 = none ∧ GenFn.is_cell_empty (s.put r) p = true
      ∧ (s._empties_built = true → p ∈ r.2.1) ∧ Py.get2 r.2.2.1 p.1 p.2 = true := by
  obtain ⟨h1, h2, h3, h4⟩ := hp
  have hg : p.1.toNat < s._grid.length := by rw [hs.1.1]; omega
  have hgr : p.2.toNat < (s._grid.getD p.1.toNat []).length := by rw [hs.1.2 _ (by omega)]; omega
  have hm : p.1.toNat < s._empty_mask.length := by rw [hs.2.1]; omega
  have hmr : p.2.toNat < (s._empty_mask.getD p.1.toNat []).length := by rw [hs.2.2 _ (by omega)]; omega
  obtain ⟨x, y⟩ := p
  simp only [GenFn.remove_agent, ha, GenFn.is_cell_empty, GenFn.LSpace.put, GenFn.default_val]
  refine ⟨trivial, ?_, ?_, ?_⟩
  · rw [get2_set2 _ _ _ _ _ _ h1 h3 h1 h3 hg hgr]; simp
  · intro hb; simp only [hb, if_true]; rw [mem_setInsert]; exact Or.inl rfl
  · rw [get2_set2 _ _ _ _ _ _ h1 h3 h1 h3 hm hmr]; simp

/-- C18 over the generated text: `place_agent` on an occupied cell raises and hands back every table and `agent.pos` untouched -/
theorem C18_place_agent_rejected_unchanged_generated (s : GenFn.LSpace) (ag : GenFn.LAgent) (p : Coord)
    (he : GenFn.is_cell_empty s p = false) :
    GenFn.place_agent s ag p = (.error Py.Err.Exception, s._grid, s._empties, s._empty_mask, ag.pos) := by
  simp only [GenFn.place_agent, he, Bool.not_false, Bool.false_eq_true, if_true, if_false]

/-! ### `_Grid.move_agent` on a SingleGrid and `SingleGrid.move_agent` (torus_adj, remove, place chained) -/

theorem updA_updA {β : Type} (f : Aid → β) (a : Aid) (x y : β) : updA (updA f a x) a y = updA f a y := by
  funext b; unfold updA; split <;> rfl

/-- `torus_adj` reads the geometry only -/
theorem torus_adj_congr (s t : GenFn.LGrid) (p : Coord) (h1 : s.width = t.width) (h2 : s.height = t.height) (h3 : s.torus = t.torus) :
    GenFn.torus_adj s p = GenFn.torus_adj t p := by
  obtain ⟨x, y⟩ := p
  simp only [GenFn.torus_adj, GenFn.out_of_bounds, h1, h2, h3]

theorem Shaped_put_set2 (s : GenFn.LSpace) (hs : Shaped s) (i j i' j' : Int) (v : Option Int) (b : Bool) (e : List (Int × Int))
    (ap : Option (Int × Int)) : Shaped (s.put (Py.set2 s._grid i j v, e, Py.set2 s._empty_mask i' j' b, ap)) :=
  ⟨hs.1.set2 _ _ _, hs.2.set2 _ _ _⟩

theorem Shaped_remove (s : GenFn.LSpace) (hs : Shaped s) (ag : GenFn.LAgent) : Shaped (s.put (GenFn.remove_agent s ag)) := by
  unfold GenFn.remove_agent
  cases ag.pos with
  | none => exact hs
  | some p => obtain ⟨x, y⟩ := p; exact Shaped_put_set2 s hs _ _ _ _ _ _ _ _

/-- the model's `place` does not look at the representation of `empties` -/
theorem place_sameSets (g1 g2 : Grid) (h : g1.sameSets g2) (a : Aid) (p : Coord) :
    (g1.place a p).1.sameSets (g2.place a p).1 ∧ (g1.place a p).2 = (g2.place a p).2 := by
  obtain ⟨h1, h2⟩ := h
  have h1' := h1
  simp only [Grid.mk.injEq] at h1'
  obtain ⟨hw, hh, ht, hm, hcu, hc, hp, _, hk⟩ := h1'
  have he : sameMembers (g1.empties.map (sdiscard p)) (g2.empties.map (sdiscard p)) := by
    revert h2
    cases g1.empties <;> cases g2.empties <;> simp only [sameMembers, Option.map_some, Option.map_none, imp_self]
    intro h q; simp only [mem_sdiscard, h q]
  unfold Grid.place Grid.isCellEmpty
  simp only [hc, hm, hp, hk, hw, hh, ht, hcu]
  refine ⟨?_, ?_⟩
  · split
    · split
      · exact ⟨rfl, he⟩
      · exact ⟨h1, h2⟩
    · split
      · exact ⟨rfl, he⟩
      · exact ⟨h1, h2⟩
  · split <;> split <;> rfl

theorem sameSets_trans {g1 g2 g3 : Grid} (h : g1.sameSets g2) (h' : g2.sameSets g3) : g1.sameSets g3 := by
  refine ⟨h.1.trans h'.1, ?_⟩
  have a := h.2; have b := h'.2
  revert a b
  cases g1.empties <;> cases g2.empties <;> cases g3.empties <;> simp only [sameMembers, imp_self, implies_true, false_imp_iff, true_imp_iff]
  · intro a b q; exact (a q).trans (b q)

theorem abs_dims (s : GenFn.LSpace) (cutoff : Nat) (posf : Aid → Option Coord) :
    (absSingle s cutoff posf).w = s.width ∧ (absSingle s cutoff posf).h = s.height ∧ (absSingle s cutoff posf).torus = s.torus :=
  ⟨rfl, rfl, rfl⟩

/-- the generated `torus_adj`, called on the geometry of a state record, is the model's `torusAdj` of the grid it stands for -/
theorem gen_torus_adj_abs (s : GenFn.LSpace) (cutoff : Nat) (posf : Aid → Option Coord) (hw : 0 < s.width) (hh : 0 < s.height) (p : Coord) :
    GenFn.torus_adj ({ width := s.width, height := s.height, torus := s.torus, _neighborhood_cache := s._neighborhood_cache } : GenFn.LGrid) p
      = errConv ((absSingle s cutoff posf).torusAdj p) := by
  rw [← C08_gen_torus_adj_eq_model (absSingle s cutoff posf) hw hh [] p]
  exact torus_adj_congr _ _ p rfl rfl rfl

/-- remove then place, as `_Grid.move_agent` chains them, refines the model's remove then place -/
theorem gen_remove_place (s : GenFn.LSpace) (cutoff : Nat) (posf : Aid → Option Coord) (a : Aid) (q : Coord)
    (hs : Shaped s) (hq : inGrid s.width s.height q) (hpa : ∀ p, posf a = some p → inGrid s.width s.height p) :
    let r1 := GenFn.remove_agent s (lagent posf a)
    let r2 := GenFn.place_agent (s.put r1) (lagent (updA posf a r1.2.2.2) a) q
    (absSingle ((s.put r1).put r2.2) cutoff (updA posf a r2.2.2.2.2)).sameSets (((absSingle s cutoff posf).remove a).1.place a q).1
      ∧ resConv r2.1 = (((absSingle s cutoff posf).remove a).1.place a q).2 := by
  intro r1 r2
  have hrem := C08_gen_remove_agent_eq_model s cutoff posf a hs hpa
  have hs1 : Shaped (s.put r1) := Shaped_remove s hs _
  have hpl := C08_gen_place_agent_eq_model (s.put r1) cutoff (updA posf a r1.2.2.2) a q hs1 hq
  have hcong := place_sameSets _ _ hrem.1 a q
  rw [updA_updA] at hpl
  refine ⟨?_, hpl.2.trans hcong.2⟩
  have := hpl.1
  exact this ▸ hcong.1

/-- how a generated caller hands on the result of a raising mutator: same tables, same outcome -/
def rewrap {T : Type} (x : Except Py.Err Unit × T) : Except Py.Err Unit × T :=
  match x.1 with
  | .error e => (.error e, x.2)
  | .ok _ => (.ok (), x.2)

theorem rewrap_eq {T : Type} (x : Except Py.Err Unit × T) : rewrap x = x := by
  obtain ⟨r, t⟩ := x
  cases r <;> rfl

theorem resConv_ok (r : Except Py.Err Unit) (m : Res) (h : resConv r = m) : r = .ok () ↔ m = .ok := by
  subst h; cases r <;> simp [resConv]

theorem moveBase_ok_eq (g : Grid) (a : Aid) (p q : Coord) (ht : g.torusAdj p = .ok q) (hr : (g.remove a).2 = .ok) :
    g.moveBase a p = (g.remove a).1.place a q := by
  unfold Grid.moveBase
  rw [ht]
  rcases hrm : g.remove a with ⟨g1, r⟩
  rw [hrm] at hr
  simp only at hr
  subst hr
  rfl

theorem moveBase_err_eq (g : Grid) (a : Aid) (p : Coord) (e : Err) (ht : g.torusAdj p = .error e) :
    g.moveBase a p = (g, .err e) := by
  unfold Grid.moveBase
  rw [ht]

theorem C08_gen_move_agent_base_eq_model (s : GenFn.LSpace) (cutoff : Nat) (posf : Aid → Option Coord) (a : Aid) (p : Coord)
    (hs : Shaped s) (hw : 0 < s.width) (hh : 0 < s.height) (hpa : ∀ q, posf a = some q → inGrid s.width s.height q) :
    (absSingle (s.put (GenFn.move_agent_base s (lagent posf a) p).2) cutoff
        (updA posf a (GenFn.move_agent_base s (lagent posf a) p).2.2.2.2)).sameSets ((absSingle s cutoff posf).moveBase a p).1
      ∧ ((GenFn.move_agent_base s (lagent posf a) p).1 = .ok () ↔ ((absSingle s cutoff posf).moveBase a p).2 = .ok) := by
  unfold GenFn.move_agent_base
  simp only [gen_torus_adj_abs s cutoff posf hw hh]
  cases ht : (absSingle s cutoff posf).torusAdj p with
  | error e =>
    rw [moveBase_err_eq _ a p e ht]
    simp only [errConv, GenFn.LSpace.put, lagent, updA_self]
    exact ⟨Grid.sameSets_refl _, by simp⟩
  | ok q =>
    have hq : inGrid s.width s.height q := (torusAdj_ok _ hw hh p q ht).1
    obtain ⟨h1, h2⟩ := gen_remove_place s cutoff posf a q hs hq hpa
    have hr := (C08_gen_remove_agent_eq_model s cutoff posf a hs hpa).2
    simp only [lagent, updA_same] at h1 h2
    simp only [errConv]
    rw [moveBase_ok_eq _ a p q ht hr]
    change (absSingle (s.put (rewrap (GenFn.place_agent (s.put (GenFn.remove_agent s (lagent posf a)))
        { unique_id := (a : Int), pos := (GenFn.remove_agent s (lagent posf a)).2.2.2 } q)).2) cutoff
        (updA posf a (rewrap (GenFn.place_agent (s.put (GenFn.remove_agent s (lagent posf a)))
        { unique_id := (a : Int), pos := (GenFn.remove_agent s (lagent posf a)).2.2.2 } q)).2.2.2.2)).sameSets _
      ∧ ((rewrap (GenFn.place_agent (s.put (GenFn.remove_agent s (lagent posf a)))
        { unique_id := (a : Int), pos := (GenFn.remove_agent s (lagent posf a)).2.2.2 } q)).1 = .ok () ↔ _)
    rw [rewrap_eq]
    exact ⟨h1, resConv_ok _ _ h2⟩

theorem move_single_ok_eq (g : Grid) (hm : g.multi = false) (a : Aid) (p q : Coord) (ht : g.torusAdj p = .ok q) :
    g.move a p = if !g.isCellEmpty q && g.content q != [a] then (g, .err .full) else g.moveBase a q := by
  unfold Grid.move
  rw [ht]
  simp only [hm, Bool.false_eq_true, if_false]

theorem move_single_err_eq (g : Grid) (hm : g.multi = false) (a : Aid) (p : Coord) (e : Err) (ht : g.torusAdj p = .error e) :
    g.move a p = (g, .err e) := by
  unfold Grid.move
  rw [ht]
  simp only [hm, Bool.false_eq_true, if_false]

/-- agent ids stored in the cell table are naturals (`unique_id` counts from 1; the model's `Aid` is `Nat`) -/
def IdsNat (s : GenFn.LSpace) : Prop := ∀ x y b, Py.get2 s._grid x y = some b → 0 ≤ b

theorem cell_ne_agent (c : Option Int) (a : Aid) (h : ∀ b, c = some b → 0 ≤ b) : (c != some (a : Int)) = (cellAbs c != [a]) := by
  cases c with
  | none => first | rfl | simp [cellAbs, bne]
  | some b =>
    have := h b rfl
    rw [Bool.eq_iff_iff]
    simp only [cellAbs, bne_iff_ne, ne_eq, Option.some.injEq, List.cons.injEq, and_true]
    constructor
    · intro h1 h2; apply h1; rw [← h2, Int.toNat_of_nonneg this]
    · intro h1 h2; apply h1; rw [h2, Int.toNat_natCast]

/-- `SingleGrid.move_agent` as generated refines the model's `move` of a SingleGrid -/
theorem C08_gen_move_agent_eq_model (s : GenFn.LSpace) (cutoff : Nat) (posf : Aid → Option Coord) (a : Aid) (p : Coord)
    (hs : Shaped s) (hid : IdsNat s) (hw : 0 < s.width) (hh : 0 < s.height) (hpa : ∀ q, posf a = some q → inGrid s.width s.height q) :
    (absSingle (s.put (GenFn.move_agent s (lagent posf a) p).2) cutoff
        (updA posf a (GenFn.move_agent s (lagent posf a) p).2.2.2.2)).sameSets ((absSingle s cutoff posf).move a p).1
      ∧ ((GenFn.move_agent s (lagent posf a) p).1 = .ok () ↔ ((absSingle s cutoff posf).move a p).2 = .ok) := by
  unfold GenFn.move_agent
  simp only [gen_torus_adj_abs s cutoff posf hw hh]
  cases ht : (absSingle s cutoff posf).torusAdj p with
  | error e =>
    rw [move_single_err_eq _ rfl a p e ht]
    simp only [errConv, GenFn.LSpace.put, lagent, updA_self]
    exact ⟨Grid.sameSets_refl _, by simp⟩
  | ok q =>
    have hq : inGrid s.width s.height q := (torusAdj_ok _ hw hh p q ht).1
    have he := C08_gen_is_cell_empty_eq_model s cutoff posf q hq
    have hc : (Py.get2 s._grid q.1 q.2 != some (a : Int)) = ((absSingle s cutoff posf).content q != [a]) := by
      rw [cell_ne_agent _ a (hid q.1 q.2)]
      simp only [absSingle, tabAbs, hq, if_true]
    rw [move_single_ok_eq _ rfl a p q ht, ← he, ← hc]
    obtain ⟨x, y⟩ := q
    have hb := C08_gen_move_agent_base_eq_model s cutoff posf a (x, y) hs hw hh hpa
    -- the two outcomes, independent of how the source spells the test
    have hGo : (absSingle (s.put (rewrap (GenFn.move_agent_base s (lagent posf a) (x, y))).2) cutoff
          (updA posf a (rewrap (GenFn.move_agent_base s (lagent posf a) (x, y))).2.2.2.2)).sameSets
            ((absSingle s cutoff posf).moveBase a (x, y)).1
        ∧ ((rewrap (GenFn.move_agent_base s (lagent posf a) (x, y))).1 = .ok () ↔ ((absSingle s cutoff posf).moveBase a (x, y)).2 = .ok) := by
      rw [rewrap_eq]; exact hb
    have hRej : (absSingle (s.put (s._grid, s._empties, s._empty_mask, (lagent posf a).pos)) cutoff
          (updA posf a (lagent posf a).pos)).sameSets (absSingle s cutoff posf)
        ∧ ((Except.error Py.Err.Exception : Except Py.Err Unit) = .ok () ↔ Res.err Err.full = Res.ok) :=
      ⟨by simpa [lagent, updA_self, GenFn.LSpace.put] using Grid.sameSets_refl _, by simp⟩
    simp only [errConv]
    cases hE : GenFn.is_cell_empty s (x, y) <;> by_cases hN : Py.get2 s._grid x y = some (a : Int)
    all_goals
      have hN1 : (Py.get2 s._grid x y == some (a : Int)) = decide (Py.get2 s._grid x y = some (a : Int)) := by
        rw [Bool.eq_iff_iff]; simp
      have hN2 : (Py.get2 s._grid x y != some (a : Int)) = !decide (Py.get2 s._grid x y = some (a : Int)) := by
        rw [bne, hN1]
      simp only [lagent, hN1, hN2, hN, hE, beq_self_eq_true, bne_self_eq_false, decide_true, decide_false, Bool.not_true, Bool.not_false, Bool.and_true, Bool.and_false,
        Bool.true_and, Bool.false_and, Bool.or_true, Bool.or_false, Bool.true_or, Bool.false_or, Bool.false_eq_true,
        if_true, if_false]
      first
        | exact hGo
        | exact hRej

/-- C18 over the generated text: `SingleGrid.move_agent` to a cell occupied by ANOTHER agent (after the torus adjustment), or to a
    coordinate `torus_adj` rejects, raises and hands back every table and `agent.pos` untouched -/
theorem C18_move_agent_rejected_unchanged_generated (s : GenFn.LSpace) (ag : GenFn.LAgent) (p : Coord) :
    (∀ q, GenFn.torus_adj ({ width := s.width, height := s.height, torus := s.torus, _neighborhood_cache := s._neighborhood_cache } : GenFn.LGrid) p = .ok q →
        GenFn.is_cell_empty s q = false → Py.get2 s._grid q.1 q.2 ≠ some ag.unique_id →
        GenFn.move_agent s ag p = (.error Py.Err.Exception, s._grid, s._empties, s._empty_mask, ag.pos))
      ∧ (∀ e, GenFn.torus_adj ({ width := s.width, height := s.height, torus := s.torus, _neighborhood_cache := s._neighborhood_cache } : GenFn.LGrid) p = .error e →
        GenFn.move_agent s ag p = (.error e, s._grid, s._empties, s._empty_mask, ag.pos)) := by
  constructor
  · intro q ht he hne
    obtain ⟨x, y⟩ := q
    have hb : (Py.get2 s._grid x y != some ag.unique_id) = true := by simpa using hne
    have hb2 : (Py.get2 s._grid x y == some ag.unique_id) = false := by simpa using hne
    simp only [GenFn.move_agent, ht, he, hb, hb2, Bool.not_false, Bool.not_true, Bool.and_self, Bool.or_self, Bool.or_false,
      Bool.false_or, Bool.and_true, Bool.true_and, if_true]
  · intro e ht
    simp only [GenFn.move_agent, ht]
