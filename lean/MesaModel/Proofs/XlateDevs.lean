import MesaModel.Gen.FnDevs
import MesaModel.Proofs.DevsHeap
/-!
Equivalence of the definitions GENERATED from mesa/experimental/devs/eventlist.py (`Gen/FnDevs.lean`, rewritten by
`harness/py2lean.py` on every check) with the hand-written model (`Model/Devs.lean`, `Model/Heap.lean`, and the
heap-level `pop_event` `heapPopLive` of `Proofs/DevsHeap.lean`) — C14.  `SimulationEvent` is the model's own record `Ev`
(attribute ↦ field correspondence in harness/xlate_registry.py), so the statements are plain equalities.
-/
namespace Mesa.Devs
open Mesa.Heap

/-- the `CANCELED` property -/
theorem C14_gen_CANCELED_eq_model (e : Ev) : GenFn.CANCELED e = e.cancelled := by
  simp [GenFn.CANCELED]

/-- `SimulationEvent.__lt__` as generated (lexicographic comparison of the tuples) = the model's `Ev.lt` -/
theorem C14_gen_lt_eq_model (a b : Ev) : GenFn.lt a b = a.lt b := by
  simp only [GenFn.lt, Ev.lt]
  first
    | (rw [Bool.eq_iff_iff]; simp <;> omega)
    | grind

theorem gen_lt_eq : GenFn.lt = Ev.lt := funext fun a => funext fun b => C14_gen_lt_eq_model a b

/-- `EventList.add_event` as generated = `heappush` of the transcribed heapq with the model's order -/
theorem C14_gen_add_event_eq_model (evs : List Ev) (e : Ev) :
    GenFn.add_event ⟨evs⟩ e = heappush Ev.lt evs e := by
  simp [GenFn.add_event, gen_lt_eq]

/-- `len(event_list)` -/
theorem C14_gen_len_eq_model (evs : List Ev) : GenFn.len_ ⟨evs⟩ = (evs.length : Int) := by
  simp [GenFn.len_]

/-- `EventList.is_empty` -/
theorem C14_gen_is_empty_eq_model (evs : List Ev) : GenFn.is_empty ⟨evs⟩ = evs.isEmpty := by
  cases evs <;> simp [GenFn.is_empty, GenFn.len_] <;> omega

theorem heappop_none_iff {α : Type} (lt : α → α → Bool) (l : List α) : heappop lt l = none ↔ l = [] := by
  unfold heappop
  cases hl : l.getLast? with
  | none => simp [List.getLast?_eq_none_iff.mp hl]
  | some last =>
    have : l ≠ [] := by intro e; simp [e] at hl
    simp only [this, iff_false]
    split <;> simp

/-! #### `heappop` without a heap hypothesis: it hands out one element of the array and keeps the others -/

theorem siftDown_length {α : Type} (lt : α → α → Bool) (item : α) :
    ∀ (pos : Nat) (l : List α), (siftDown lt l pos item).length = l.length := by
  intro pos
  induction pos using Nat.strongRecOn with
  | ind pos ih =>
    intro l
    rw [siftDown]
    split
    · split
      · split
        · rw [ih _ (by omega)]; simp
        · simp
      · simp
    · simp

theorem bubble_range {α : Type} (lt : α → α → Bool) :
    ∀ (n : Nat) (l : List α) (pos : Nat), l.length - pos = n →
      (bubble lt l pos).1.length = l.length ∧ (pos < l.length → (bubble lt l pos).2 < l.length) := by
  intro n
  induction n using Nat.strongRecOn with
  | ind n ih =>
    intro l pos hn
    rw [bubble]
    split
    · rename_i hchild
      obtain ⟨hcases, hclen⟩ := smallerChild_range lt l pos hchild
      split
      · rename_i v hv
        have := ih (l.length - smallerChild lt l pos) (by omega) (l.set pos v) (smallerChild lt l pos) (by simp)
        simp only [List.length_set] at this
        exact ⟨this.1, fun _ => this.2 hclen⟩
      · exact ⟨rfl, id⟩
    · exact ⟨rfl, id⟩

/-- `heappop` on ANY array (heap or not): the popped element and the array left behind are the array, as a multiset -/
theorem heappop_perm {α : Type} [DecidableEq α] (lt : α → α → Bool) {l l' : List α} {m : α}
    (hp : heappop lt l = some (m, l')) : l.Perm (m :: l') := by
  unfold heappop at hp
  split at hp
  · cases hp
  · rename_i last hlast
    have hl : l = l.dropLast ++ [last] := by
      have hne : l ≠ [] := by intro e; rw [e] at hlast; cases hlast
      have h1 := List.dropLast_concat_getLast hne
      have h2 : l.getLast hne = last := by
        rw [List.getLast?_eq_some_getLast hne] at hlast; cases hlast; rfl
      rw [h2] at h1; exact h1.symm
    split at hp
    · rename_i hd
      simp only [Option.some.injEq, Prod.mk.injEq] at hp
      obtain ⟨rfl, rfl⟩ := hp
      rw [hd] at hl
      subst hl
      exact List.Perm.refl _
    · rename_i ret rest hd
      rw [hd] at hl
      obtain ⟨hb1, hb2⟩ := bubble_range lt _ (last :: rest) 0 rfl
      have hb3 : (bubble lt (last :: rest) 0).2 < (bubble lt (last :: rest) 0).1.length := by
        rw [hb1]; exact hb2 (by simp)
      have hres : (ret, siftDown lt (bubble lt (last :: rest) 0).1 (bubble lt (last :: rest) 0).2 last) = (m, l') := by
        simpa using hp
      simp only [Prod.mk.injEq] at hres
      obtain ⟨rfl, rfl⟩ := hres
      rw [List.perm_iff_count]
      intro y
      rw [List.count_cons, siftDown_count lt last _ _ hb3 y,
        bubble_count lt last _ (last :: rest) 0 rfl (by simp) y]
      conv => lhs; rw [hl]
      simp only [List.set_cons_zero, List.count_append, List.count_cons, List.count_nil]
      omega

/-- what a `pop_event` result is at the level of the heap model: the popped live event and the heap left behind
    (`some (some …)`), `IndexError` (`some none`); `Py.Err.Fuel` and every other error are NOT outcomes of the Python
    function and have no counterpart (`none`) -/
def popConv (r : Except Py.Err Ev × List Ev) : Option (Option (Ev × List Ev)) :=
  match r.1 with
  | .ok e => some (some (e, r.2))
  | .error Py.Err.Index => some none
  | .error _ => none

/-- one iteration of the generated `while` loop, whatever its textual shape: `heappop`; a live event is returned, a
    cancelled one is dropped and the loop goes on; nothing to pop is `IndexError` with the list empty -/
theorem gen_pop_event_while_succ (f : Nat) (self : GenFn.EventList) (evs : List Ev) :
    GenFn.pop_event.while1 (f + 1) self evs =
      match heappop Ev.lt evs with
      | none => (.error Py.Err.Index, [])
      | some (e, hp') => if e.cancelled then GenFn.pop_event.while1 f self hp' else (.ok e, hp') := by
  conv => lhs; unfold GenFn.pop_event.while1
  rw [gen_lt_eq]
  cases hp : heappop Ev.lt evs with
  | none =>
    have := (heappop_none_iff Ev.lt evs).mp hp
    subst this
    simp [heappop]
  | some r =>
    obtain ⟨e, hp'⟩ := r
    have hne : evs ≠ [] := fun h => by rw [(heappop_none_iff Ev.lt evs).mpr h] at hp; cases hp
    have hpos : 0 < evs.length := List.length_pos_iff.mpr hne
    have hemp : evs.isEmpty = false := by simp [hne]
    cases hc : e.cancelled <;> simp [hne, hpos, hemp, C14_gen_CANCELED_eq_model, hc]

/-- **fuel adequacy**: with more fuel than events the generated loop never runs out of fuel — `Py.Err.Fuel`, which is not
    a Python exception, is not a result of `pop_event` (every iteration pops one event). -/
theorem C14_gen_pop_event_fuel_adequate (fuel : Nat) (evs : List Ev) (hf : evs.length < fuel) :
    (GenFn.pop_event ⟨evs⟩ fuel).1 ≠ .error Py.Err.Fuel := by
  simp only [GenFn.pop_event]
  generalize (⟨evs⟩ : GenFn.EventList) = self
  induction fuel generalizing evs with
  | zero => omega
  | succ f ih =>
    rw [gen_pop_event_while_succ]
    cases hp : heappop Ev.lt evs with
    | none => simp
    | some r =>
      obtain ⟨e, hp'⟩ := r
      have hlen := (heappop_perm Ev.lt hp).length_eq
      simp only [List.length_cons] at hlen
      cases hc : e.cancelled
      · simp [hc]
      · simpa [hc] using ih hp' (by omega)

/-- `EventList.pop_event` as generated (the `while` loop as a fuel-bounded recursion) = the heap-level model
    `heapPopLive`: `heappop` until a live event comes out — same event, same heap afterwards, `IndexError` exactly where
    the model has no event, for every fuel that the loop does not exhaust (`C14_gen_pop_event_fuel_adequate`: every fuel
    above the number of events); and an `IndexError` is raised only with the event list left empty. -/
theorem C14_gen_pop_event_eq_model (fuel : Nat) (evs : List Ev) :
    ((GenFn.pop_event ⟨evs⟩ fuel).1 ≠ .error Py.Err.Fuel →
      popConv (GenFn.pop_event ⟨evs⟩ fuel) = some (heapPopLive fuel evs)) ∧
    ((GenFn.pop_event ⟨evs⟩ fuel).1 = .error Py.Err.Index → (GenFn.pop_event ⟨evs⟩ fuel).2 = []) := by
  simp only [GenFn.pop_event]
  generalize (⟨evs⟩ : GenFn.EventList) = self
  induction fuel generalizing evs with
  | zero => simp [GenFn.pop_event.while1]
  | succ f ih =>
    rw [gen_pop_event_while_succ]
    unfold heapPopLive
    cases hp : heappop Ev.lt evs with
    | none => simp [popConv]
    | some r =>
      obtain ⟨e, hp'⟩ := r
      cases hc : e.cancelled
      · simp [popConv, hc]
      · simpa [hc] using ih hp'

/-- **`IndexError` iff no live event**, about the generated text: with adequate fuel `pop_event` raises `IndexError`
    exactly when every event of the array is cancelled (in particular on the empty list), for any array. -/
theorem C14_pop_event_index_iff_generated (fuel : Nat) (evs : List Ev) (hf : evs.length < fuel) :
    (GenFn.pop_event ⟨evs⟩ fuel).1 = .error Py.Err.Index ↔ ∀ e ∈ evs, e.cancelled = true := by
  simp only [GenFn.pop_event]
  generalize (⟨evs⟩ : GenFn.EventList) = self
  induction fuel generalizing evs with
  | zero => omega
  | succ f ih =>
    rw [gen_pop_event_while_succ]
    cases hp : heappop Ev.lt evs with
    | none =>
      have := (heappop_none_iff Ev.lt evs).mp hp
      subst this
      simp
    | some r =>
      obtain ⟨e, hp'⟩ := r
      have hperm := heappop_perm Ev.lt hp
      have hlen := hperm.length_eq
      simp only [List.length_cons] at hlen
      have hmem : ∀ x, x ∈ evs ↔ x = e ∨ x ∈ hp' := fun x => by rw [hperm.mem_iff, List.mem_cons]
      cases hc : e.cancelled
      · simp only [hc, Bool.false_eq_true, if_false]
        constructor
        · intro h; cases h
        · intro h; have := h e ((hmem e).mpr (Or.inl rfl)); rw [hc] at this; cases this
      · simp only [hc, if_true]
        rw [ih hp' (by omega)]
        constructor
        · intro h x hx
          rcases (hmem x).mp hx with rfl | hx'
          · exact hc
          · exact h x hx'
        · intro h x hx; exact h x ((hmem x).mpr (Or.inr hx))

/-! ### C14 statements directly over the generated (code-derived) definitions -/

/-- the code's `__lt__` is a strict weak order; `add_event` keeps the heap invariant for it and adds exactly the event -/
theorem C14_add_event_generated (hp : List Ev) (e : Ev) (h : IsHeap GenFn.lt hp) :
    SWO GenFn.lt ∧ IsHeap GenFn.lt (GenFn.add_event ⟨hp⟩ e) ∧ (GenFn.add_event ⟨hp⟩ e).Perm (e :: hp) := by
  rw [gen_lt_eq] at h ⊢
  rw [C14_gen_add_event_eq_model]
  exact ⟨ev_swo, heappush_heap ev_swo h e, heappush_perm Ev.lt hp e⟩

theorem heapPopLive_spec (fuel : Nat) (hp hp' : List Ev) (e : Ev) (h : IsHeap Ev.lt hp)
    (hpop : heapPopLive fuel hp = some (e, hp')) :
    e.cancelled = false ∧ e ∈ hp ∧ IsHeap Ev.lt hp' ∧ (∀ y ∈ hp', y ∈ hp) ∧ ∀ y ∈ hp', y.lt e = false := by
  induction fuel generalizing hp with
  | zero => simp [heapPopLive] at hpop
  | succ f ih =>
    unfold heapPopLive at hpop
    cases hq : heappop Ev.lt hp with
    | none => simp [hq] at hpop
    | some r =>
      obtain ⟨m, hp1⟩ := r
      obtain ⟨hperm, hheap, hmin, _⟩ := heappop_spec ev_swo h hq
      simp only [hq] at hpop
      cases hc : m.cancelled with
      | true =>
        simp only [hc, if_true] at hpop
        obtain ⟨a, b, c, d, e'⟩ := ih hp1 hheap hpop
        exact ⟨a, hperm.mem_iff.mpr (List.mem_cons_of_mem _ b), c,
          fun y hy => hperm.mem_iff.mpr (List.mem_cons_of_mem _ (d y hy)), e'⟩
      | false =>
        simp only [hc, Bool.false_eq_true, if_false, Option.some.injEq, Prod.mk.injEq] at hpop
        obtain ⟨rfl, rfl⟩ := hpop
        exact ⟨hc, hperm.mem_iff.mpr (List.mem_cons_self ..), hheap,
          fun y hy => hperm.mem_iff.mpr (List.mem_cons_of_mem _ hy), hmin⟩

/-- C14's ordering clause about the code-derived text: on a heap (w.r.t. the code's `__lt__`), what the generated
    `pop_event` returns is a live event of the list, no event left in the list is smaller, and the list stays a heap. -/
theorem C14_pop_event_generated (fuel : Nat) (hp hp' : List Ev) (e : Ev) (h : IsHeap GenFn.lt hp)
    (hpop : GenFn.pop_event ⟨hp⟩ fuel = (.ok e, hp')) :
    e.cancelled = false ∧ e ∈ hp ∧ IsHeap GenFn.lt hp' ∧ ∀ y ∈ hp', GenFn.lt y e = false := by
  rw [gen_lt_eq] at h ⊢
  have h1 := (C14_gen_pop_event_eq_model fuel hp).1 (by rw [hpop]; simp)
  rw [hpop] at h1
  obtain ⟨a, b, c, _, d⟩ := heapPopLive_spec fuel hp hp' e h (by simpa [popConv] using h1.symm)
  exact ⟨a, b, c, d⟩

/-! ### `peak_ahead`: `nsmallest` over the heap array = the first live events of the model's sorted list -/

theorem pairwise_trichotomy {α : Type} {R : α → α → Prop} {l : List α} (h : l.Pairwise R) {a b : α} (ha : a ∈ l) (hb : b ∈ l) :
    a = b ∨ R a b ∨ R b a := by
  induction h with
  | nil => cases ha
  | cons hx _ ih =>
    rcases List.mem_cons.mp ha with rfl | ha' <;> rcases List.mem_cons.mp hb with rfl | hb'
    · exact Or.inl rfl
    · exact Or.inr (Or.inl (hx _ hb'))
    · exact Or.inr (Or.inr (hx _ ha'))
    · exact ih ha' hb'

/-- sorting any arrangement of a strictly sorted event list (stable sort that only uses `<`) gives back the sorted list -/
theorem mergeSort_eq_of_sorted {l s : List Ev} (hp : l.Perm s) (hs : Sorted s) :
    l.mergeSort (fun a b => !Ev.lt b a) = s := by
  have asym : ∀ a b : Ev, a.lt b = true → b.lt a = false := ev_swo.asymm
  apply List.Perm.eq_of_pairwise (le := fun a b => (!Ev.lt b a) = true)
  · intro a b ha hb h1 h2
    have ha' : a ∈ s := hp.mem_iff.mp ((List.mergeSort_perm _ _).mem_iff.mp ha)
    rcases pairwise_trichotomy hs ha' hb with h | h | h
    · exact h
    · simp [h] at h2
    · simp [h] at h1
  · exact List.pairwise_mergeSort (le := fun a b => !Ev.lt b a)
      (fun a b c h1 h2 => by
        simp only [Bool.not_eq_true'] at h1 h2 ⊢
        exact ev_swo.2 c b a h2 h1)
      (fun a b => by
        cases h : Ev.lt b a
        · simp
        · simp [asym b a h]) l
  · exact hs.imp fun {a b} h => by simp [asym a b h]
  · exact (List.mergeSort_perm _ _).trans hp

/-- `EventList.peak_ahead` as generated (`nsmallest` over the live events of the heap array) = the model's `peek` on the
    sorted list that the array refines: `IndexError` on an empty list, else the first `n` live events in execution order. -/
theorem C14_gen_peak_ahead_eq_model (hp s : List Ev) (r : Refines hp s) (n : Nat) :
    GenFn.peak_ahead ⟨hp⟩ (n : Int) =
      if hp.isEmpty then .error Py.Err.Index else .ok ((s.filter Ev.live).take n) := by
  have hlive : (fun e : Ev => !GenFn.CANCELED e) = Ev.live := funext fun e => by simp [C14_gen_CANCELED_eq_model, Ev.live]
  have hsort : (hp.filter Ev.live).mergeSort (fun a b => !Ev.lt b a) = s.filter Ev.live :=
    mergeSort_eq_of_sorted (r.perm.filter _) (r.sorted.sublist List.filter_sublist)
  simp only [GenFn.peak_ahead, C14_gen_is_empty_eq_model, C14_gen_len_eq_model, gen_lt_eq, hlive, Py.nsmallest,
    Int.toNat_natCast, hsort]
  all_goals (cases hp <;> simp <;> (try omega))

/-! ### simulator.py -/

/-- what the effect list of the generated `run_for` means IN THE MODEL: every recorded call `self.run_until(T)` is the
    model's `runUntil` to `T`, one after the other on the state the previous one left (`none` = out of fuel). -/
def interpRunUntil (f : Nat) (es : List Int) (s : Sim) : Option Sim := es.foldlM (fun s T => runUntil f s T) s

/-- `Simulator.run_for` as generated = the model's `runFor`: running the calls the generated text makes (exactly one,
    `run_until(self.time + time_delta)`) in the model is `runFor` (C15: the pieces a run is chunked into by `run_for` are
    `run_until` pieces from the current clock). -/
theorem C15_gen_run_for_eq_model (f : Nat) (s : Sim) (d : Int) :
    interpRunUntil f (GenFn.run_for ⟨s.now⟩ d) s = runFor f s d ∧ GenFn.run_for ⟨s.now⟩ d = [s.now + d] := by
  have h : GenFn.run_for ⟨s.now⟩ d = [s.now + d] := by
    simp only [GenFn.run_for]
    first
      | (simp; done)
      | (simp <;> omega)
  rw [h]
  exact ⟨by simp [interpRunUntil, runFor], rfl⟩

/-! ### `Simulator.run_next_event` (try / except IndexError / else around the translated `pop_event`) -/

/-- more fuel than events changes nothing at the heap level either -/
theorem heapPopLive_fuel (f : Nat) (hp : List Ev) (hf : hp.length < f) :
    heapPopLive f hp = heapPopLive (hp.length + 1) hp := by
  induction f generalizing hp with
  | zero => omega
  | succ f ih =>
    unfold heapPopLive
    cases hq : heappop Ev.lt hp with
    | none => rfl
    | some r =>
      obtain ⟨e, hp'⟩ := r
      have hlen := (heappop_perm Ev.lt hq).length_eq
      simp only [List.length_cons] at hlen
      cases hc : e.cancelled
      · simp [hc]
      · simp only [hc, if_true]
        rw [hlen]
        exact ih hp' (by omega)

/-- the generated `pop_event` with adequate fuel, as a case distinction on the heap-level model -/
theorem gen_pop_event_cases (fuel : Nat) (hp : List Ev) (hf : hp.length < fuel) :
    match heapPopLive (hp.length + 1) hp with
    | some (e, hp') => GenFn.pop_event ⟨hp⟩ fuel = (.ok e, hp')
    | none => GenFn.pop_event ⟨hp⟩ fuel = (.error Py.Err.Index, []) := by
  have hA := C14_gen_pop_event_fuel_adequate fuel hp hf
  obtain ⟨h1, h2⟩ := C14_gen_pop_event_eq_model fuel hp
  have h1 := h1 hA
  rw [heapPopLive_fuel fuel hp hf] at h1
  revert hA h1 h2
  generalize GenFn.pop_event ⟨hp⟩ fuel = r
  obtain ⟨v, st⟩ := r
  intro hA h2 h1
  cases v with
  | ok e =>
    simp only [popConv, Option.some.injEq] at h1
    rw [← h1]
  | error err =>
    cases err <;> simp [popConv] at h1 hA
    rw [← h1]
    simp at h2
    simp [h2]

/-- what the outputs of the generated `run_next_event` mean IN THE MODEL: the recorded `event.execute()` calls are the model's
    `exec`, on the state whose clock / event list are the ones the generated text computed -/
def interpExec (es : List Ev) (s : Sim) : Sim := es.foldl exec s

/-- **`Simulator.run_next_event` as generated = the model's `runNext`** under the guard of the code (`self.model is not None`),
    for every heap array `hp` that holds the model's sorted pending list (the inner `pop_event` runs with its own measure,
    the number of events + 1, as fuel): no
    exception; the array left behind holds what the model leaves pending; and the model's `runNext` is the recorded
    `event.execute()` (none on a list without live events — the `except IndexError: return` path) run by the model's `exec` on
    the state with the clock the generated text computed. -/
theorem C14_gen_run_next_event_eq_model (s : Sim) (hp : List Ev) (m : Int) (r : Refines hp s.pending) :
    (GenFn.run_next_event ⟨s.now, some m, ⟨hp⟩⟩).1 = .ok () ∧
    Refines (GenFn.run_next_event ⟨s.now, some m, ⟨hp⟩⟩).2.2.2 ((popLive s.pending).elim [] (·.2)) ∧
    runNext s = interpExec (GenFn.run_next_event ⟨s.now, some m, ⟨hp⟩⟩).2.1
      { s with now := (GenFn.run_next_event ⟨s.now, some m, ⟨hp⟩⟩).2.2.1,
               pending := (popLive s.pending).elim [] (·.2),
               gone := s.gone ++ (skipped s.pending).map (·.id) } := by
  have hc := gen_pop_event_cases (hp.length + 1) hp (by omega)
  have hr := refines_popLive r
  rw [← r.perm.length_eq] at hr
  cases hpl : popLive s.pending with
  | none =>
    simp only [hpl] at hr
    rw [hr] at hc
    simp only at hc
    simp [GenFn.run_next_event, hc, runNext, hpl, interpExec, refines_nil]
  | some p =>
    obtain ⟨e, rest⟩ := p
    simp only [hpl] at hr
    obtain ⟨hp', hq, r'⟩ := hr
    rw [hq] at hc
    simp only at hc
    simp [GenFn.run_next_event, hc, runNext, hpl, interpExec, r']

/-- the guard: without a model (`self.model is None`) `run_next_event` raises `Exception` and touches nothing -/
theorem C14_gen_run_next_event_guard (t : Int) (hp : List Ev) :
    GenFn.run_next_event ⟨t, none, ⟨hp⟩⟩ = (.error Py.Err.Exception, [], t, hp) := by
  simp [GenFn.run_next_event]

/-- C14's ordering clause for one `run_next_event`, about the code-derived text: on a heap w.r.t. the code's `__lt__`, with a
    model set up, `run_next_event` never raises; it executes exactly one event — a live one, no event left in the list is
    smaller in the (time, priority, id) order, the clock is its time — or, when every event is cancelled, executes nothing
    and leaves the clock alone. -/
theorem C14_run_next_event_generated (t m : Int) (hp : List Ev) (h : IsHeap GenFn.lt hp) :
    (GenFn.run_next_event ⟨t, some m, ⟨hp⟩⟩).1 = .ok () ∧
    (((∀ e ∈ hp, e.cancelled = true) ∧ (GenFn.run_next_event ⟨t, some m, ⟨hp⟩⟩).2 = ([], t, [])) ∨
     ∃ e, (GenFn.run_next_event ⟨t, some m, ⟨hp⟩⟩).2.1 = [e] ∧ (GenFn.run_next_event ⟨t, some m, ⟨hp⟩⟩).2.2.1 = e.time ∧
       e.cancelled = false ∧ e ∈ hp ∧ ∀ y ∈ (GenFn.run_next_event ⟨t, some m, ⟨hp⟩⟩).2.2.2, GenFn.lt y e = false) := by
  have hc := gen_pop_event_cases (hp.length + 1) hp (by omega)
  cases hpl : heapPopLive (hp.length + 1) hp with
  | none =>
    rw [hpl] at hc
    simp only at hc
    have hi := (C14_pop_event_index_iff_generated (hp.length + 1) hp (by omega)).mp (by rw [hc])
    simp [GenFn.run_next_event, hc]
    exact hi
  | some p =>
    obtain ⟨e, hp'⟩ := p
    rw [hpl] at hc
    simp only at hc
    obtain ⟨a, b, _, d⟩ := C14_pop_event_generated (hp.length + 1) hp hp' e h hc
    refine ⟨by simp [GenFn.run_next_event, hc], Or.inr ⟨e, ?_⟩⟩
    simp [GenFn.run_next_event, hc, a, b]
    exact d

/-! ### `Simulator.run_until`: `while True` with fuel, `try: pop_event() except IndexError: …; break`, and `event.execute()`
as a callback PARAMETER `exec_` acting on (clock, heap array, world) — the world `ω` is everything else a callable touches -/

/-- one iteration of the generated `while True`, whatever its textual shape: `pop_event` (heap level); nothing live →
    clock := end, stop; a due event → clock := its time, the callback runs on the state after the pop, an exception of
    the callback ends the run with the state it left; a later event → clock := end, the event is pushed back, stop -/
theorem gen_run_until_while_succ (F : Nat) (self : GenFn.SimRun) (T : Int) (ω : Type)
    (ex : (Int × List Ev × ω) → Ev → (Except Py.Err Unit × (Int × List Ev × ω))) (w : ω) (t : Int) (hp : List Ev) :
    GenFn.run_until.while1 (F + 1) self T ω ex w t hp =
      match heapPopLive (hp.length + 1) hp with
      | none => (.ok (), T, [], w)
      | some (e, hp') =>
        if e.time ≤ T then
          match ex (e.time, hp', w) e with
          | (.ok _, st) => GenFn.run_until.while1 F self T ω ex st.2.2 st.1 st.2.1
          | (.error err, st) => (.error err, st)
        else (.ok (), T, heappush Ev.lt hp' e, w) := by
  have hc := gen_pop_event_cases (hp.length + 1) hp (by omega)
  conv => lhs; unfold GenFn.run_until.while1
  cases hpl : heapPopLive (hp.length + 1) hp with
  | none =>
    rw [hpl] at hc
    simp only at hc
    simp [hc]
  | some p =>
    obtain ⟨e, hp'⟩ := p
    rw [hpl] at hc
    simp only at hc
    show _ = (if e.time ≤ T then _ else _)
    by_cases hT : e.time ≤ T
    · have hT' : ¬ (T < e.time) := by omega
      rw [if_pos hT]
      generalize hres : ex (e.time, hp', w) e = res
      obtain ⟨v, a, b, c⟩ := res
      cases v <;> simp [hc, hT, hT', hres]
    · have hT' : T < e.time := by omega
      rw [if_neg hT]
      simp [hc, hT, hT', C14_gen_add_event_eq_model]

/-- what the callback parameter has to be for the generated loop to be the model's loop: `A w s` says that the world `w`
    stands for the part of the model state `s` the simulator itself does not write (it does not look at the clock, the
    pending list and the ghost `gone`); on corresponding states the callback does what the model's `exec` does — same
    clock, a heap array holding the model's new pending list, corresponding world — and fails iff `exec` raises. -/
structure ExecSim {ω : Type} (A : ω → Sim → Prop)
    (ex : (Int × List Ev × ω) → Ev → (Except Py.Err Unit × (Int × List Ev × ω))) : Prop where
  frame : ∀ w s t p g, A w s → A w { s with now := t, pending := p, gone := g }
  step : ∀ t hp w s e, A w s → t = s.now → Refines hp s.pending →
    (ex (t, hp, w) e).2.1 = (exec s e).now ∧ Refines (ex (t, hp, w) e).2.2.1 (exec s e).pending ∧
    A (ex (t, hp, w) e).2.2.2 (exec s e) ∧ ((ex (t, hp, w) e).1 = .ok () ↔ (exec s e).raised.isSome = false)

theorem gen_run_until_while_sim {ω : Type} {A : ω → Sim → Prop}
    {ex : (Int × List Ev × ω) → Ev → (Except Py.Err Unit × (Int × List Ev × ω))} (hx : ExecSim A ex)
    (self : GenFn.SimRun) (T : Int) (F : Nat) :
    ∀ (s : Sim) (hp : List Ev) (w : ω), Refines hp s.pending → A w s → s.raised = none →
      match runUntil F s T with
      | none => (GenFn.run_until.while1 F self T ω ex w s.now hp).1 = .error Py.Err.Fuel
      | some s' =>
        ((GenFn.run_until.while1 F self T ω ex w s.now hp).1 = .ok () ↔ s'.raised.isSome = false) ∧
        (GenFn.run_until.while1 F self T ω ex w s.now hp).2.1 = s'.now ∧
        Refines (GenFn.run_until.while1 F self T ω ex w s.now hp).2.2.1 s'.pending ∧
        A (GenFn.run_until.while1 F self T ω ex w s.now hp).2.2.2 s' := by
  induction F with
  | zero =>
    intro s hp w r ha h0
    simp [runUntil, GenFn.run_until.while1]
  | succ F ih =>
    intro s hp w r ha h0
    rw [gen_run_until_while_succ]
    have hr := refines_popLive r
    rw [← r.perm.length_eq] at hr
    cases hpl : popLive s.pending with
    | none =>
      simp only [hpl] at hr
      rw [runUntil_none hpl, hr]
      exact ⟨by simp [h0], rfl, refines_nil, hx.frame _ _ _ _ _ ha⟩
    | some p =>
      obtain ⟨e, rest⟩ := p
      simp only [hpl] at hr
      obtain ⟨hp', hq, r'⟩ := hr
      rw [hq]
      dsimp only
      obtain ⟨_, hlt, hs⟩ := popLive_spec r.sorted hpl
      by_cases hT : e.time ≤ T
      · have hst := hx.step e.time hp' w (popped s e rest) e (hx.frame _ _ _ _ _ ha) rfl r'
        obtain ⟨h1, h2, h3, h4⟩ := hst
        rw [if_pos hT]
        cases hraise : (exec (popped s e rest) e).raised.isSome with
        | true =>
          rw [runUntil_due_raised hpl hT hraise]
          revert h1 h2 h3 h4
          generalize ex (e.time, hp', w) e = res
          obtain ⟨v, st⟩ := res
          intro h1 h2 h3 h4
          cases v with
          | ok u => simp [hraise] at h4
          | error err => exact ⟨by simp [hraise], h1, h2, h3⟩
        | false =>
          rw [runUntil_due hpl hT hraise]
          have h0' : (exec (popped s e rest) e).raised = none := by
            cases hh : (exec (popped s e rest) e).raised with
            | none => rfl
            | some x => simp [hh] at hraise
          have := ih (exec (popped s e rest) e) (ex (e.time, hp', w) e).2.2.1 (ex (e.time, hp', w) e).2.2.2 h2 h3 h0'
          rw [← h1] at this
          revert this h4
          generalize ex (e.time, hp', w) e = res
          obtain ⟨v, st⟩ := res
          intro h4 this
          cases v with
          | ok u => exact this
          | error err => simp [hraise] at h4
      · rw [runUntil_late hpl hT, if_neg hT]
        have hA : A w (popped s e rest) := hx.frame w s e.time rest (s.gone ++ (skipped s.pending).map (·.id)) ha
        refine ⟨by simp [popped, h0], by simp, ?_, hx.frame w (popped s e rest) T (insert e rest) (popped s e rest).gone hA⟩
        show Refines (heappush Ev.lt hp' e) (insert e rest)
        rw [insert_of_all_lt e rest hlt]
        exact ⟨heappush_heap ev_swo r'.heap e, (heappush_perm Ev.lt hp' e).trans (List.Perm.cons e r'.perm),
          List.pairwise_cons.mpr ⟨hlt, hs⟩⟩

/-- **`Simulator.run_until` as generated = the model's `runUntil`**, under the guard of the code (`self.model is not None`), for
    every heap array that holds the model's sorted pending list, every callback that does on (clock, array, world) what the
    model's `exec` does (`ExecSim`), and EVERY fuel `F` — the fuel of the generated `while True` is the model's own fuel, one unit
    per popped event (the model has no other termination measure: callables may schedule for ever), the inner `pop_event` loop
    runs on its own measure: out of fuel together (`Py.Err.Fuel` ⇔ `none`); otherwise the run returns normally iff the model's
    run has no exception pending, an exception of a callable comes out of `run_until` with the state the model has, and
    clock, event list and world correspond. -/
theorem C14_gen_run_until_eq_model {ω : Type} {A : ω → Sim → Prop}
    {ex : (Int × List Ev × ω) → Ev → (Except Py.Err Unit × (Int × List Ev × ω))} (hx : ExecSim A ex)
    (F : Nat) (s : Sim) (T : Int) (hp : List Ev) (w : ω) (m : Int)
    (r : Refines hp s.pending) (ha : A w s) (h0 : s.raised = none) :
    match runUntil F s T with
    | none => (GenFn.run_until ⟨s.now, some m, ⟨hp⟩⟩ T ω ex w F).1 = .error Py.Err.Fuel
    | some s' =>
      ((GenFn.run_until ⟨s.now, some m, ⟨hp⟩⟩ T ω ex w F).1 = .ok () ↔ s'.raised.isSome = false) ∧
      (GenFn.run_until ⟨s.now, some m, ⟨hp⟩⟩ T ω ex w F).2.1 = s'.now ∧
      Refines (GenFn.run_until ⟨s.now, some m, ⟨hp⟩⟩ T ω ex w F).2.2.1 s'.pending ∧
      A (GenFn.run_until ⟨s.now, some m, ⟨hp⟩⟩ T ω ex w F).2.2.2 s' := by
  have h := gen_run_until_while_sim hx ⟨s.now, some m, ⟨hp⟩⟩ T F s hp w r ha h0
  have e : GenFn.run_until ⟨s.now, some m, ⟨hp⟩⟩ T ω ex w F =
      GenFn.run_until.while1 F ⟨s.now, some m, ⟨hp⟩⟩ T ω ex w s.now hp := by
    simp [GenFn.run_until]
  rw [e]
  exact h

/-- the guard: without a model `run_until` raises `Exception` before it touches the clock or the event list -/
theorem C14_gen_run_until_guard {ω : Type} (ex : (Int × List Ev × ω) → Ev → (Except Py.Err Unit × (Int × List Ev × ω)))
    (t T : Int) (hp : List Ev) (w : ω) (F : Nat) :
    GenFn.run_until ⟨t, none, ⟨hp⟩⟩ T ω ex w F = (.error Py.Err.Exception, t, hp, w) := by
  simp [GenFn.run_until]

/-- **C15's chunking clause about the code-derived text**: the generated `run_until` to `T₁` followed by the generated
    `run_until` to `T₂ ≥ T₁` from the state the first call left (no exception in between) ends where ONE generated
    `run_until` to `T₂` ends — same outcome, same clock, the same events on the event list (as a multiset: the heap arrays may
    differ in layout), worlds that stand for one and the same model state. -/
theorem C15_chunking_generated {ω : Type} {A : ω → Sim → Prop}
    {ex : (Int × List Ev × ω) → Ev → (Except Py.Err Unit × (Int × List Ev × ω))} (hx : ExecSim A ex)
    (F₁ F₂ : Nat) (s s₁ s₂ : Sim) (T₁ T₂ : Int) (hT : T₁ ≤ T₂) (hw : WF s) (hp : List Ev) (w : ω) (m : Int)
    (r : Refines hp s.pending) (ha : A w s) (h0 : s.raised = none)
    (h₁ : runUntil F₁ s T₁ = some s₁) (hn : s₁.raised = none) (h₂ : runUntil F₂ s₁ T₂ = some s₂) :
    ∃ F,
      ((GenFn.run_until ⟨s.now, some m, ⟨hp⟩⟩ T₂ ω ex w F).1 = .ok () ↔
        (GenFn.run_until ⟨(GenFn.run_until ⟨s.now, some m, ⟨hp⟩⟩ T₁ ω ex w F₁).2.1, some m,
          ⟨(GenFn.run_until ⟨s.now, some m, ⟨hp⟩⟩ T₁ ω ex w F₁).2.2.1⟩⟩ T₂ ω ex
          (GenFn.run_until ⟨s.now, some m, ⟨hp⟩⟩ T₁ ω ex w F₁).2.2.2 F₂).1 = .ok ()) ∧
      (GenFn.run_until ⟨s.now, some m, ⟨hp⟩⟩ T₂ ω ex w F).2.1 =
        (GenFn.run_until ⟨(GenFn.run_until ⟨s.now, some m, ⟨hp⟩⟩ T₁ ω ex w F₁).2.1, some m,
          ⟨(GenFn.run_until ⟨s.now, some m, ⟨hp⟩⟩ T₁ ω ex w F₁).2.2.1⟩⟩ T₂ ω ex
          (GenFn.run_until ⟨s.now, some m, ⟨hp⟩⟩ T₁ ω ex w F₁).2.2.2 F₂).2.1 ∧
      (GenFn.run_until ⟨s.now, some m, ⟨hp⟩⟩ T₂ ω ex w F).2.2.1.Perm
        (GenFn.run_until ⟨(GenFn.run_until ⟨s.now, some m, ⟨hp⟩⟩ T₁ ω ex w F₁).2.1, some m,
          ⟨(GenFn.run_until ⟨s.now, some m, ⟨hp⟩⟩ T₁ ω ex w F₁).2.2.1⟩⟩ T₂ ω ex
          (GenFn.run_until ⟨s.now, some m, ⟨hp⟩⟩ T₁ ω ex w F₁).2.2.2 F₂).2.2.1 ∧
      A (GenFn.run_until ⟨s.now, some m, ⟨hp⟩⟩ T₂ ω ex w F).2.2.2 s₂ ∧
      A (GenFn.run_until ⟨(GenFn.run_until ⟨s.now, some m, ⟨hp⟩⟩ T₁ ω ex w F₁).2.1, some m,
          ⟨(GenFn.run_until ⟨s.now, some m, ⟨hp⟩⟩ T₁ ω ex w F₁).2.2.1⟩⟩ T₂ ω ex
          (GenFn.run_until ⟨s.now, some m, ⟨hp⟩⟩ T₁ ω ex w F₁).2.2.2 F₂).2.2.2 s₂ := by
  have e1 := C14_gen_run_until_eq_model hx F₁ s T₁ hp w m r ha h0
  rw [h₁] at e1
  obtain ⟨_, b1, c1, d1⟩ := e1
  have e2 := C14_gen_run_until_eq_model hx F₂ s₁ T₂ _ _ m c1 d1 hn
  rw [h₂, ← b1] at e2
  obtain ⟨a2, b2, c2, d2⟩ := e2
  obtain ⟨F, hF⟩ := chunk_until hT hw h₁ hn h₂
  have e3 := C14_gen_run_until_eq_model hx F s T₂ hp w m r ha h0
  rw [hF] at e3
  obtain ⟨a3, b3, c3, d3⟩ := e3
  exact ⟨F, a3.trans a2.symm, b3.trans b2.symm, c3.perm.trans c2.perm.symm, d3, d2⟩

/-! #### C14's execution clause over the generated loop, with the callback that only records what is executed -/

/-- the callable that does nothing but record the event it is executed for (world = the record) -/
def exLog (st : Int × List Ev × List Ev) (e : Ev) : Except Py.Err Unit × (Int × List Ev × List Ev) :=
  (.ok (), (st.1, st.2.1, st.2.2 ++ [e]))

theorem popLive_none_filter {l : List Ev} (h : popLive l = none) : l.filter Ev.live = [] := by
  induction l with
  | nil => rfl
  | cons x xs ih =>
    unfold popLive at h
    by_cases hc : x.cancelled = true
    · simp only [hc, if_true] at h
      simp [Ev.live, hc, ih h]
    · simp [hc] at h

theorem popLive_some_filter {l : List Ev} {e : Ev} {rest : List Ev} (h : popLive l = some (e, rest)) :
    l.filter Ev.live = e :: rest.filter Ev.live ∧ rest.length < l.length := by
  induction l with
  | nil => simp [popLive] at h
  | cons x xs ih =>
    unfold popLive at h
    by_cases hc : x.cancelled = true
    · simp only [hc, if_true] at h
      obtain ⟨a, b⟩ := ih h
      exact ⟨by simp [Ev.live, hc, a], by simp; omega⟩
    · simp [hc] at h
      obtain ⟨rfl, rfl⟩ := h
      exact ⟨by simp [Ev.live, hc], by simp⟩

theorem gen_run_until_log (self : GenFn.SimRun) (T : Int) (F : Nat) :
    ∀ (hp s : List Ev) (t : Int) (log : List Ev), Refines hp s → s.length < F →
      (GenFn.run_until.while1 F self T (List Ev) exLog log t hp).1 = .ok () ∧
      (GenFn.run_until.while1 F self T (List Ev) exLog log t hp).2.1 = T ∧
      (GenFn.run_until.while1 F self T (List Ev) exLog log t hp).2.2.2 =
        log ++ (s.filter Ev.live).takeWhile (fun e => decide (e.time ≤ T)) := by
  induction F with
  | zero => intro _ s _ _ _ h; omega
  | succ F ih =>
    intro hp s t log r hF
    rw [gen_run_until_while_succ]
    have hr := refines_popLive r
    rw [← r.perm.length_eq] at hr
    cases hpl : popLive s with
    | none =>
      simp only [hpl] at hr
      rw [hr]
      simp [popLive_none_filter hpl]
    | some p =>
      obtain ⟨e, rest⟩ := p
      simp only [hpl] at hr
      obtain ⟨hp', hq, r'⟩ := hr
      obtain ⟨hf, hl⟩ := popLive_some_filter hpl
      rw [hq, hf]
      by_cases hT : e.time ≤ T
      · obtain ⟨a, b, c⟩ := ih hp' rest e.time (log ++ [e]) r' (by omega)
        simp [hT, exLog, List.takeWhile_cons, a, b, c]
      · simp [hT, List.takeWhile_cons]

/-- **C14's execution clause about the code-derived text**: on an event list holding the events `s` (sorted by the code's
    `__lt__`: (time, priority, id)), with more fuel than events, the generated `run_until(T)` hands to `event.execute()` exactly
    the live events with time ≤ T — each once, in (time, priority, id) order (the record is a strictly increasing list) — never a
    cancelled or a later one, returns normally and leaves the clock at `T`. -/
theorem C14_run_until_generated (hp s : List Ev) (r : Refines hp s) (t T m : Int) (F : Nat) (hF : s.length < F) :
    (GenFn.run_until ⟨t, some m, ⟨hp⟩⟩ T (List Ev) exLog [] F).1 = .ok () ∧
    (GenFn.run_until ⟨t, some m, ⟨hp⟩⟩ T (List Ev) exLog [] F).2.1 = T ∧
    (GenFn.run_until ⟨t, some m, ⟨hp⟩⟩ T (List Ev) exLog [] F).2.2.2 =
      (s.filter fun e => !e.cancelled && decide (e.time ≤ T)) ∧
    (GenFn.run_until ⟨t, some m, ⟨hp⟩⟩ T (List Ev) exLog [] F).2.2.2.Pairwise (fun a b => GenFn.lt a b = true) := by
  have e : GenFn.run_until ⟨t, some m, ⟨hp⟩⟩ T (List Ev) exLog [] F =
      GenFn.run_until.while1 F ⟨t, some m, ⟨hp⟩⟩ T (List Ev) exLog [] t hp := by
    simp [GenFn.run_until]
  obtain ⟨a, b, c⟩ := gen_run_until_log ⟨t, some m, ⟨hp⟩⟩ T F hp s t [] r hF
  rw [e, gen_lt_eq]
  have hsub : ((s.filter Ev.live).takeWhile (fun e => decide (e.time ≤ T))).Sublist s :=
    (List.takeWhile_sublist _).trans List.filter_sublist
  refine ⟨a, b, ?_, by rw [c]; exact r.sorted.sublist (by simpa using hsub)⟩
  rw [c, List.nil_append]
  -- in a list sorted by time first, the live events up to T are a prefix of the live events
  have hs : (s.filter Ev.live).Pairwise (fun a b => a.lt b = true) := r.sorted.sublist List.filter_sublist
  have : ∀ l : List Ev, l.Pairwise (fun a b => a.lt b = true) →
      l.takeWhile (fun e => decide (e.time ≤ T)) = l.filter (fun e => decide (e.time ≤ T)) := by
    intro l hl
    induction l with
    | nil => rfl
    | cons x xs ih =>
      obtain ⟨hx, hxs⟩ := List.pairwise_cons.mp hl
      by_cases hT : x.time ≤ T
      · simp [List.takeWhile_cons, hT, ih hxs]
      · have : ∀ y ∈ xs, ¬ y.time ≤ T := fun y hy => by
          have := Ev.time_le_of_lt (hx y hy); omega
        simp [List.takeWhile_cons, hT]
        exact fun y hy => by have := this y hy; omega
  rw [this _ hs, List.filter_filter]
  congr 1
  funext x
  simp [Ev.live, Bool.and_comm]

end Mesa.Devs
