import MesaModel.Gen.FnDevs
import MesaModel.Proofs.DevsHeap
/-!
Equivalence of the definitions GENERATED from mesa/experimental/devs/eventlist.py (`Gen/FnDevs.lean`, rewritten by
`harness/py2lean.py` on every check) with the hand-written model (`Model/Devs.lean`, `Model/Heap.lean`, and the
heap-level `pop_event` `heapPopLive` of `Proofs/DevsHeap.lean`) — C14.  `SimulationEvent` is the model's own record `Ev`
(attribute ↦ field correspondence in harness/xlate_registry.py), so the statements are plain equalities.
-/
namespace Mesa.Devs
open Mesa.Heap

/-- the `CANCELED` property -/
theorem C14_gen_CANCELED_eq_model (e : Ev) : GenFn.CANCELED e = e.cancelled := by
  simp [GenFn.CANCELED]

/-- `SimulationEvent.__lt__` as generated (lexicographic comparison of the tuples) = the model's `Ev.lt` -/
theorem C14_gen_lt_eq_model (a b : Ev) : GenFn.lt a b = a.lt b := by
  simp only [GenFn.lt, Ev.lt]
  first
    | (rw [Bool.eq_iff_iff]; simp <;> omega)
    | grind

theorem gen_lt_eq : GenFn.lt = Ev.lt := funext fun a => funext fun b => C14_gen_lt_eq_model a b

/-- `EventList.add_event` as generated = `heappush` of the transcribed heapq with the model's order -/
theorem C14_gen_add_event_eq_model (evs : List Ev) (e : Ev) :
    GenFn.add_event ⟨evs⟩ e = heappush Ev.lt evs e := by
  simp [GenFn.add_event, gen_lt_eq]

/-- `len(event_list)` -/
theorem C14_gen_len_eq_model (evs : List Ev) : GenFn.len_ ⟨evs⟩ = (evs.length : Int) := by
  simp [GenFn.len_]

/-- `EventList.is_empty` -/
theorem C14_gen_is_empty_eq_model (evs : List Ev) : GenFn.is_empty ⟨evs⟩ = evs.isEmpty := by
  cases evs <;> simp [GenFn.is_empty, GenFn.len_] <;> omega

theorem heappop_none_iff {α : Type} (lt : α → α → Bool) (l : List α) : heappop lt l = none ↔ l = [] := by
  unfold heappop
  cases hl : l.getLast? with
  | none => simp [List.getLast?_eq_none_iff.mp hl]
  | some last =>
    have : l ≠ [] := by intro e; simp [e] at hl
    simp only [this, iff_false]
    split <;> simp

/-! #### `heappop` without a heap hypothesis: it hands out one element of the array and keeps the others -/

theorem siftDown_length {α : Type} (lt : α → α → Bool) (item : α) :
    ∀ (pos : Nat) (l : List α), (siftDown lt l pos item).length = l.length := by
  intro pos
  induction pos using Nat.strongRecOn with
  | ind pos ih =>
    intro l
    rw [siftDown]
    split
    · split
      · split
        · rw [ih _ (by omega)]; simp
        · simp
      · simp
    · simp

theorem bubble_range {α : Type} (lt : α → α → Bool) :
    ∀ (n : Nat) (l : List α) (pos : Nat), l.length - pos = n →
      (bubble lt l pos).1.length = l.length ∧ (pos < l.length → (bubble lt l pos).2 < l.length) := by
  intro n
  induction n using Nat.strongRecOn with
  | ind n ih =>
    intro l pos hn
    rw [bubble]
    split
    · rename_i hchild
      obtain ⟨hcases, hclen⟩ := smallerChild_range lt l pos hchild
      split
      · rename_i v hv
        have := ih (l.length - smallerChild lt l pos) (by omega) (l.set pos v) (smallerChild lt l pos) (by simp)
        simp only [List.length_set] at this
        exact ⟨this.1, fun _ => this.2 hclen⟩
      · exact ⟨rfl, id⟩
    · exact ⟨rfl, id⟩

/-- `heappop` on ANY array (heap or not): the popped element and the array left behind are the array, as a multiset -/
theorem heappop_perm {α : Type} [DecidableEq α] (lt : α → α → Bool) {l l' : List α} {m : α}
    (hp : heappop lt l = some (m, l')) : l.Perm (m :: l') := by
  unfold heappop at hp
  split at hp
  · cases hp
  · rename_i last hlast
    have hl : l = l.dropLast ++ [last] := by
      have hne : l ≠ [] := by intro e; rw [e] at hlast; cases hlast
      have h1 := List.dropLast_concat_getLast hne
      have h2 : l.getLast hne = last := by
        rw [List.getLast?_eq_some_getLast hne] at hlast; cases hlast; rfl
      rw [h2] at h1; exact h1.symm
    split at hp
    · rename_i hd
      simp only [Option.some.injEq, Prod.mk.injEq] at hp
      obtain ⟨rfl, rfl⟩ := hp
      rw [hd] at hl
      subst hl
      exact List.Perm.refl _
    · rename_i ret rest hd
      rw [hd] at hl
      obtain ⟨hb1, hb2⟩ := bubble_range lt _ (last :: rest) 0 rfl
      have hb3 : (bubble lt (last :: rest) 0).2 < (bubble lt (last :: rest) 0).1.length := by
        rw [hb1]; exact hb2 (by simp)
      have hres : (ret, siftDown lt (bubble lt (last :: rest) 0).1 (bubble lt (last :: rest) 0).2 last) = (m, l') := by
        simpa using hp
      simp only [Prod.mk.injEq] at hres
      obtain ⟨rfl, rfl⟩ := hres
      rw [List.perm_iff_count]
      intro y
      rw [List.count_cons, siftDown_count lt last _ _ hb3 y,
        bubble_count lt last _ (last :: rest) 0 rfl (by simp) y]
      conv => lhs; rw [hl]
      simp only [List.set_cons_zero, List.count_append, List.count_cons, List.count_nil]
      omega

/-- what a `pop_event` result is at the level of the heap model: the popped live event and the heap left behind
    (`some (some …)`), `IndexError` (`some none`); `Py.Err.Fuel` and every other error are NOT outcomes of the Python
    function and have no counterpart (`none`) -/
def popConv (r : Except Py.Err Ev × List Ev) : Option (Option (Ev × List Ev)) :=
  match r.1 with
  | .ok e => some (some (e, r.2))
  | .error Py.Err.Index => some none
  | .error _ => none

/-- one iteration of the generated `while` loop, whatever its textual shape: `heappop`; a live event is returned, a
    cancelled one is dropped and the loop goes on; nothing to pop is `IndexError` with the list empty -/
theorem gen_pop_event_while_succ (f : Nat) (self : GenFn.EventList) (evs : List Ev) :
    GenFn.pop_event.while1 (f + 1) self evs =
      match heappop Ev.lt evs with
      | none => (.error Py.Err.Index, [])
      | some (e, hp') => if e.cancelled then GenFn.pop_event.while1 f self hp' else (.ok e, hp') := by
  conv => lhs; unfold GenFn.pop_event.while1
  rw [gen_lt_eq]
  cases hp : heappop Ev.lt evs with
  | none =>
    have := (heappop_none_iff Ev.lt evs).mp hp
    subst this
    simp [heappop]
  | some r =>
    obtain ⟨e, hp'⟩ := r
    have hne : evs ≠ [] := fun h => by rw [(heappop_none_iff Ev.lt evs).mpr h] at hp; cases hp
    have hpos : 0 < evs.length := List.length_pos_iff.mpr hne
    have hemp : evs.isEmpty = false := by simp [hne]
    cases hc : e.cancelled <;> simp [hne, hpos, hemp, C14_gen_CANCELED_eq_model, hc]

/-- **fuel adequacy**: with more fuel than events the generated loop never runs out of fuel — `Py.Err.Fuel`, which is not
    a Python exception, is not a result of `pop_event` (every iteration pops one event). -/
theorem C14_gen_pop_event_fuel_adequate (fuel : Nat) (evs : List Ev) (hf : evs.length < fuel) :
    (GenFn.pop_event ⟨evs⟩ fuel).1 ≠ .error Py.Err.Fuel := by
  simp only [GenFn.pop_event]
  generalize (⟨evs⟩ : GenFn.EventList) = self
  induction fuel generalizing evs with
  | zero => omega
  | succ f ih =>
    rw [gen_pop_event_while_succ]
    cases hp : heappop Ev.lt evs with
    | none => simp
    | some r =>
      obtain ⟨e, hp'⟩ := r
      have hlen := (heappop_perm Ev.lt hp).length_eq
      simp only [List.length_cons] at hlen
      cases hc : e.cancelled
      · simp [hc]
      · simpa [hc] using ih hp' (by omega)

/-- `EventList.pop_event` as generated (the `while` loop as a fuel-bounded recursion) = the heap-level model
    `heapPopLive`: `heappop` until a live event comes out — same event, same heap afterwards, `IndexError` exactly where
    the model has no event, for every fuel that the loop does not exhaust (`C14_gen_pop_event_fuel_adequate`: every fuel
    above the number of events); and an `IndexError` is raised only with the event list left empty. -/
theorem C14_gen_pop_event_eq_model (fuel : Nat) (evs : List Ev) :
    ((GenFn.pop_event ⟨evs⟩ fuel).1 ≠ .error Py.Err.Fuel →
      popConv (GenFn.pop_event ⟨evs⟩ fuel) = some (heapPopLive fuel evs)) ∧
    ((GenFn.pop_event ⟨evs⟩ fuel).1 = .error Py.Err.Index → (GenFn.pop_event ⟨evs⟩ fuel).2 = []) := by
  simp only [GenFn.pop_event]
  generalize (⟨evs⟩ : GenFn.EventList) = self
  induction fuel generalizing evs with
  | zero => simp [GenFn.pop_event.while1]
  | succ f ih =>
    rw [gen_pop_event_while_succ]
    unfold heapPopLive
    cases hp : heappop Ev.lt evs with
    | none => simp [popConv]
    | some r =>
      obtain ⟨e, hp'⟩ := r
      cases hc : e.cancelled
      · simp [popConv, hc]
      · simpa [hc] using ih hp'

/-- **`IndexError` iff no live event**, about the generated text: with adequate fuel `pop_event` raises `IndexError`
    exactly when every event of the array is cancelled (in particular on the empty list), for any array. -/
theorem C14_pop_event_index_iff_generated (fuel : Nat) (evs : List Ev) (hf : evs.length < fuel) :
    (GenFn.pop_event ⟨evs⟩ fuel).1 = .error Py.Err.Index ↔ ∀ e ∈ evs, e.cancelled = true := by
  simp only [GenFn.pop_event]
  generalize (⟨evs⟩ : GenFn.EventList) = self
  induction fuel generalizing evs with
  | zero => omega
  | succ f ih =>
    rw [gen_pop_event_while_succ]
    cases hp : heappop Ev.lt evs with
    | none =>
      have := (heappop_none_iff Ev.lt evs).mp hp
      subst this
      simp
    | some r =>
      obtain ⟨e, hp'⟩ := r
      have hperm := heappop_perm Ev.lt hp
      have hlen := hperm.length_eq
      simp only [List.length_cons] at hlen
      have hmem : ∀ x, x ∈ evs ↔ x = e ∨ x ∈ hp' := fun x => by rw [hperm.mem_iff, List.mem_cons]
      cases hc : e.cancelled
      · simp only [hc, Bool.false_eq_true, if_false]
        constructor
        · intro h; cases h
        · intro h; have := h e ((hmem e).mpr (Or.inl rfl)); rw [hc] at this; cases this
      · simp only [hc, if_true]
        rw [ih hp' (by omega)]
        constructor
        · intro h x hx
          rcases (hmem x).mp hx with rfl | hx'
          · exact hc
          · exact h x hx'
        · intro h x hx; exact h x ((hmem x).mpr (Or.inr hx))

/-! ### C14 statements directly over the generated (code-derived) definitions -/

/-- the code's `__lt__` is a strict weak order; `add_event` keeps the heap invariant for it and adds exactly the event -/
theorem C14_add_event_generated (hp : List Ev) (e : Ev) (h : IsHeap GenFn.lt hp) :
    SWO GenFn.lt ∧ IsHeap GenFn.lt (GenFn.add_event ⟨hp⟩ e) ∧ (GenFn.add_event ⟨hp⟩ e).Perm (e :: hp) := by
  rw [gen_lt_eq] at h ⊢
  rw [C14_gen_add_event_eq_model]
  exact ⟨ev_swo, heappush_heap ev_swo h e, heappush_perm Ev.lt hp e⟩

theorem heapPopLive_spec (fuel : Nat) (hp hp' : List Ev) (e : Ev) (h : IsHeap Ev.lt hp)
    (hpop : heapPopLive fuel hp = some (e, hp')) :
    e.cancelled = false ∧ e ∈ hp ∧ IsHeap Ev.lt hp' ∧ (∀ y ∈ hp', y ∈ hp) ∧ ∀ y ∈ hp', y.lt e = false := by
  induction fuel generalizing hp with
  | zero => simp [heapPopLive] at hpop
  | succ f ih =>
    unfold heapPopLive at hpop
    cases hq : heappop Ev.lt hp with
    | none => simp [hq] at hpop
    | some r =>
      obtain ⟨m, hp1⟩ := r
      obtain ⟨hperm, hheap, hmin, _⟩ := heappop_spec ev_swo h hq
      simp only [hq] at hpop
      cases hc : m.cancelled with
      | true =>
        simp only [hc, if_true] at hpop
        obtain ⟨a, b, c, d, e'⟩ := ih hp1 hheap hpop
        exact ⟨a, hperm.mem_iff.mpr (List.mem_cons_of_mem _ b), c,
          fun y hy => hperm.mem_iff.mpr (List.mem_cons_of_mem _ (d y hy)), e'⟩
      | false =>
        simp only [hc, Bool.false_eq_true, if_false, Option.some.injEq, Prod.mk.injEq] at hpop
        obtain ⟨rfl, rfl⟩ := hpop
        exact ⟨hc, hperm.mem_iff.mpr (List.mem_cons_self ..), hheap,
          fun y hy => hperm.mem_iff.mpr (List.mem_cons_of_mem _ hy), hmin⟩

/-- C14's ordering clause about the code-derived text: on a heap (w.r.t. the code's `__lt__`), what the generated
    `pop_event` returns is a live event of the list, no event left in the list is smaller, and the list stays a heap. -/
theorem C14_pop_event_generated (fuel : Nat) (hp hp' : List Ev) (e : Ev) (h : IsHeap GenFn.lt hp)
    (hpop : GenFn.pop_event ⟨hp⟩ fuel = (.ok e, hp')) :
    e.cancelled = false ∧ e ∈ hp ∧ IsHeap GenFn.lt hp' ∧ ∀ y ∈ hp', GenFn.lt y e = false := by
  rw [gen_lt_eq] at h ⊢
  have h1 := (C14_gen_pop_event_eq_model fuel hp).1 (by rw [hpop]; simp)
  rw [hpop] at h1
  obtain ⟨a, b, c, _, d⟩ := heapPopLive_spec fuel hp hp' e h (by simpa [popConv] using h1.symm)
  exact ⟨a, b, c, d⟩

/-! ### `peak_ahead`: `nsmallest` over the heap array = the first live events of the model's sorted list -/

theorem pairwise_trichotomy {α : Type} {R : α → α → Prop} {l : List α} (h : l.Pairwise R) {a b : α} (ha : a ∈ l) (hb : b ∈ l) :
    a = b ∨ R a b ∨ R b a := by
  induction h with
  | nil => cases ha
  | cons hx _ ih =>
    rcases List.mem_cons.mp ha with rfl | ha' <;> rcases List.mem_cons.mp hb with rfl | hb'
    · exact Or.inl rfl
    · exact Or.inr (Or.inl (hx _ hb'))
    · exact Or.inr (Or.inr (hx _ ha'))
    · exact ih ha' hb'

/-- sorting any arrangement of a strictly sorted event list (stable sort that only uses `<`) gives back the sorted list -/
theorem mergeSort_eq_of_sorted {l s : List Ev} (hp : l.Perm s) (hs : Sorted s) :
    l.mergeSort (fun a b => !Ev.lt b a) = s := by
  have asym : ∀ a b : Ev, a.lt b = true → b.lt a = false := ev_swo.asymm
  apply List.Perm.eq_of_pairwise (le := fun a b => (!Ev.lt b a) = true)
  · intro a b ha hb h1 h2
    have ha' : a ∈ s := hp.mem_iff.mp ((List.mergeSort_perm _ _).mem_iff.mp ha)
    rcases pairwise_trichotomy hs ha' hb with h | h | h
    · exact h
    · simp [h] at h2
    · simp [h] at h1
  · exact List.pairwise_mergeSort (le := fun a b => !Ev.lt b a)
      (fun a b c h1 h2 => by
        simp only [Bool.not_eq_true'] at h1 h2 ⊢
        exact ev_swo.2 c b a h2 h1)
      (fun a b => by
        cases h : Ev.lt b a
        · simp
        · simp [asym b a h]) l
  · exact hs.imp fun {a b} h => by simp [asym a b h]
  · exact (List.mergeSort_perm _ _).trans hp

/-- `EventList.peak_ahead` as generated (`nsmallest` over the live events of the heap array) = the model's `peek` on the
    sorted list that the array refines: `IndexError` on an empty list, else the first `n` live events in execution order. -/
theorem C14_gen_peak_ahead_eq_model (hp s : List Ev) (r : Refines hp s) (n : Nat) :
    GenFn.peak_ahead ⟨hp⟩ (n : Int) =
      if hp.isEmpty then .error Py.Err.Index else .ok ((s.filter Ev.live).take n) := by
  have hlive : (fun e : Ev => !GenFn.CANCELED e) = Ev.live := funext fun e => by simp [C14_gen_CANCELED_eq_model, Ev.live]
  have hsort : (hp.filter Ev.live).mergeSort (fun a b => !Ev.lt b a) = s.filter Ev.live :=
    mergeSort_eq_of_sorted (r.perm.filter _) (r.sorted.sublist List.filter_sublist)
  simp only [GenFn.peak_ahead, C14_gen_is_empty_eq_model, C14_gen_len_eq_model, gen_lt_eq, hlive, Py.nsmallest,
    Int.toNat_natCast, hsort]
  all_goals (cases hp <;> simp <;> (try omega))

/-! ### simulator.py -/

/-- what the effect list of the generated `run_for` means IN THE MODEL: every recorded call `self.run_until(T)` is the
    model's `runUntil` to `T`, one after the other on the state the previous one left (`none` = out of fuel). -/
def interpRunUntil (f : Nat) (es : List Int) (s : Sim) : Option Sim := es.foldlM (fun s T => runUntil f s T) s

/-- `Simulator.run_for` as generated = the model's `runFor`: running the calls the generated text makes (exactly one,
    `run_until(self.time + time_delta)`) in the model is `runFor` (C15: the pieces a run is chunked into by `run_for` are
    `run_until` pieces from the current clock). -/
theorem C15_gen_run_for_eq_model (f : Nat) (s : Sim) (d : Int) :
    interpRunUntil f (GenFn.run_for ⟨s.now⟩ d) s = runFor f s d ∧ GenFn.run_for ⟨s.now⟩ d = [s.now + d] := by
  have h : GenFn.run_for ⟨s.now⟩ d = [s.now + d] := by
    simp only [GenFn.run_for]
    first
      | (simp; done)
      | (simp <;> omega)
  rw [h]
  exact ⟨by simp [interpRunUntil, runFor], rfl⟩

/-! ### `Simulator.run_next_event` (try / except IndexError / else around the translated `pop_event`) -/

/-- more fuel than events changes nothing at the heap level either -/
theorem heapPopLive_fuel (f : Nat) (hp : List Ev) (hf : hp.length < f) :
    heapPopLive f hp = heapPopLive (hp.length + 1) hp := by
  induction f generalizing hp with
  | zero => omega
  | succ f ih =>
    unfold heapPopLive
    cases hq : heappop Ev.lt hp with
    | none => rfl
    | some r =>
      obtain ⟨e, hp'⟩ := r
      have hlen := (heappop_perm Ev.lt hq).length_eq
      simp only [List.length_cons] at hlen
      cases hc : e.cancelled
      · simp [hc]
      · simp only [hc, if_true]
        rw [hlen]
        exact ih hp' (by omega)

/-- the generated `pop_event` with adequate fuel, as a case distinction on the heap-level model -/
theorem gen_pop_event_cases (fuel : Nat) (hp : List Ev) (hf : hp.length < fuel) :
    match heapPopLive (hp.length + 1) hp with
    | some (e, hp') => GenFn.pop_event ⟨hp⟩ fuel = (.ok e, hp')
    | none => GenFn.pop_event ⟨hp⟩ fuel = (.error Py.Err.Index, []) := by
  have hA := C14_gen_pop_event_fuel_adequate fuel hp hf
  obtain ⟨h1, h2⟩ := C14_gen_pop_event_eq_model fuel hp
  have h1 := h1 hA
  rw [heapPopLive_fuel fuel hp hf] at h1
  revert hA h1 h2
  generalize GenFn.pop_event ⟨hp⟩ fuel = r
  obtain ⟨v, st⟩ := r
  intro hA h2 h1
  cases v with
  | ok e =>
    simp only [popConv, Option.some.injEq] at h1
    rw [← h1]
  | error err =>
    cases err <;> simp [popConv] at h1 hA
    rw [← h1]
    simp at h2
    simp [h2]

/-- what the outputs of the generated `run_next_event` mean IN THE MODEL: the recorded `event.execute()` calls are the model's
    `exec`, on the state whose clock / event list are the ones the generated text computed -/
def interpExec (es : List Ev) (s : Sim) : Sim := es.foldl exec s

/-- **`Simulator.run_next_event` as generated = the model's `runNext`** under the guard of the code (`self.model is not None`),
    for every heap array `hp` that holds the model's sorted pending list and every fuel above the number of events: no
    exception; the array left behind holds what the model leaves pending; and the model's `runNext` is the recorded
    `event.execute()` (none on a list without live events — the `except IndexError: return` path) run by the model's `exec` on
    the state with the clock the generated text computed. -/
theorem C14_gen_run_next_event_eq_model (s : Sim) (hp : List Ev) (m : Int) (fuel : Nat) (r : Refines hp s.pending)
    (hf : hp.length < fuel) :
    (GenFn.run_next_event ⟨s.now, some m, ⟨hp⟩⟩ fuel).1 = .ok () ∧
    Refines (GenFn.run_next_event ⟨s.now, some m, ⟨hp⟩⟩ fuel).2.2.2 ((popLive s.pending).elim [] (·.2)) ∧
    runNext s = interpExec (GenFn.run_next_event ⟨s.now, some m, ⟨hp⟩⟩ fuel).2.1
      { s with now := (GenFn.run_next_event ⟨s.now, some m, ⟨hp⟩⟩ fuel).2.2.1,
               pending := (popLive s.pending).elim [] (·.2),
               gone := s.gone ++ (skipped s.pending).map (·.id) } := by
  have hc := gen_pop_event_cases fuel hp hf
  have hr := refines_popLive r
  rw [← r.perm.length_eq] at hr
  cases hpl : popLive s.pending with
  | none =>
    simp only [hpl] at hr
    rw [hr] at hc
    simp only at hc
    simp [GenFn.run_next_event, hc, runNext, hpl, interpExec, refines_nil]
  | some p =>
    obtain ⟨e, rest⟩ := p
    simp only [hpl] at hr
    obtain ⟨hp', hq, r'⟩ := hr
    rw [hq] at hc
    simp only at hc
    simp [GenFn.run_next_event, hc, runNext, hpl, interpExec, r']

/-- the guard: without a model (`self.model is None`) `run_next_event` raises `Exception` and touches nothing -/
theorem C14_gen_run_next_event_guard (t : Int) (hp : List Ev) (fuel : Nat) :
    GenFn.run_next_event ⟨t, none, ⟨hp⟩⟩ fuel = (.error Py.Err.Exception, [], t, hp) := by
  simp [GenFn.run_next_event]

/-- C14's ordering clause for one `run_next_event`, about the code-derived text: on a heap w.r.t. the code's `__lt__`, with a
    model set up, `run_next_event` never raises; it executes exactly one event — a live one, no event left in the list is
    smaller in the (time, priority, id) order, the clock is its time — or, when every event is cancelled, executes nothing
    and leaves the clock alone. -/
theorem C14_run_next_event_generated (t m : Int) (hp : List Ev) (fuel : Nat) (h : IsHeap GenFn.lt hp) (hf : hp.length < fuel) :
    (GenFn.run_next_event ⟨t, some m, ⟨hp⟩⟩ fuel).1 = .ok () ∧
    (((∀ e ∈ hp, e.cancelled = true) ∧ (GenFn.run_next_event ⟨t, some m, ⟨hp⟩⟩ fuel).2 = ([], t, [])) ∨
     ∃ e, (GenFn.run_next_event ⟨t, some m, ⟨hp⟩⟩ fuel).2.1 = [e] ∧ (GenFn.run_next_event ⟨t, some m, ⟨hp⟩⟩ fuel).2.2.1 = e.time ∧
       e.cancelled = false ∧ e ∈ hp ∧ ∀ y ∈ (GenFn.run_next_event ⟨t, some m, ⟨hp⟩⟩ fuel).2.2.2, GenFn.lt y e = false) := by
  have hc := gen_pop_event_cases fuel hp hf
  cases hpl : heapPopLive (hp.length + 1) hp with
  | none =>
    rw [hpl] at hc
    simp only at hc
    have hi := (C14_pop_event_index_iff_generated fuel hp hf).mp (by rw [hc])
    simp [GenFn.run_next_event, hc]
    exact hi
  | some p =>
    obtain ⟨e, hp'⟩ := p
    rw [hpl] at hc
    simp only at hc
    obtain ⟨a, b, _, d⟩ := C14_pop_event_generated fuel hp hp' e h hc
    refine ⟨by simp [GenFn.run_next_event, hc], Or.inr ⟨e, ?_⟩⟩
    simp [GenFn.run_next_event, hc, a, b]
    exact d

end Mesa.Devs
