import MesaModel.Gen.FnDevs
import MesaModel.Proofs.DevsHeap
/-!
Equivalence of the definitions GENERATED from mesa/experimental/devs/eventlist.py (`Gen/FnDevs.lean`, rewritten by
`harness/py2lean.py` on every check) with the hand-written model (`Model/Devs.lean`, `Model/Heap.lean`, and the
heap-level `pop_event` `heapPopLive` of `Proofs/DevsHeap.lean`) — C14.  `SimulationEvent` is the model's own record `Ev`
(attribute ↦ field correspondence in harness/xlate_registry.py), so the statements are plain equalities.
-/
namespace Mesa.Devs
open Mesa.Heap

/-- the `CANCELED` property -/
theorem C14_gen_CANCELED_eq_model (e : Ev) : GenFn.CANCELED e = e.cancelled := by
  simp [GenFn.CANCELED]

/-- `SimulationEvent.__lt__` as generated (lexicographic comparison of the tuples) = the model's `Ev.lt` -/
theorem C14_gen_lt_eq_model (a b : Ev) : GenFn.lt a b = a.lt b := by
  simp only [GenFn.lt, Ev.lt]
  first
    | (rw [Bool.eq_iff_iff]; simp <;> omega)
    | grind

theorem gen_lt_eq : GenFn.lt = Ev.lt := funext fun a => funext fun b => C14_gen_lt_eq_model a b

/-- `EventList.add_event` as generated = `heappush` of the transcribed heapq with the model's order -/
theorem C14_gen_add_event_eq_model (evs : List Ev) (e : Ev) :
    GenFn.add_event ⟨evs⟩ e = heappush Ev.lt evs e := by
  simp [GenFn.add_event, gen_lt_eq]

/-- `len(event_list)` -/
theorem C14_gen_len_eq_model (evs : List Ev) : GenFn.len_ ⟨evs⟩ = (evs.length : Int) := by
  simp [GenFn.len_]

/-- `EventList.is_empty` -/
theorem C14_gen_is_empty_eq_model (evs : List Ev) : GenFn.is_empty ⟨evs⟩ = evs.isEmpty := by
  cases evs <;> simp [GenFn.is_empty, GenFn.len_] <;> omega

theorem heappop_none_iff {α : Type} (lt : α → α → Bool) (l : List α) : heappop lt l = none ↔ l = [] := by
  unfold heappop
  cases hl : l.getLast? with
  | none => simp [List.getLast?_eq_none_iff.mp hl]
  | some last =>
    have : l ≠ [] := by intro e; simp [e] at hl
    simp only [this, iff_false]
    split <;> simp

/-- what a `pop_event` result is at the level of the heap model: the popped live event and the heap left behind -/
def popConv (r : Except Py.Err Ev × List Ev) : Option (Ev × List Ev) :=
  match r.1 with
  | .ok e => some (e, r.2)
  | .error _ => none

/-- `EventList.pop_event` as generated (the `while` loop as a fuel-bounded recursion) = the heap-level model
    `heapPopLive`: `heappop` until a live event comes out — same event, same heap afterwards, for every fuel; and an
    `IndexError` is raised only with the event list left empty. -/
theorem C14_gen_pop_event_eq_model (fuel : Nat) (evs : List Ev) :
    popConv (GenFn.pop_event ⟨evs⟩ fuel) = heapPopLive fuel evs ∧
    ((GenFn.pop_event ⟨evs⟩ fuel).1 = .error Py.Err.Index → (GenFn.pop_event ⟨evs⟩ fuel).2 = []) := by
  simp only [GenFn.pop_event]
  generalize (⟨evs⟩ : GenFn.EventList) = self
  induction fuel generalizing evs with
  | zero => simp [GenFn.pop_event.while1, heapPopLive, popConv]
  | succ f ih =>
    unfold GenFn.pop_event.while1 heapPopLive
    rw [gen_lt_eq]
    cases hp : heappop Ev.lt evs with
    | none =>
      have := (heappop_none_iff Ev.lt evs).mp hp
      subst this
      simp [popConv, heappop]
    | some r =>
      obtain ⟨e, hp'⟩ := r
      have hne : evs ≠ [] := fun h => by rw [(heappop_none_iff Ev.lt evs).mpr h] at hp; cases hp
      have hpos : 0 < evs.length := List.length_pos_iff.mpr hne
      have hemp : evs.isEmpty = false := by simp [hne]
      cases hc : e.cancelled <;> simp [hne, hpos, hemp, C14_gen_CANCELED_eq_model, hc, popConv] <;>
        (try exact ih hp')

/-! ### C14 statements directly over the generated (code-derived) definitions -/

/-- the code's `__lt__` is a strict weak order; `add_event` keeps the heap invariant for it and adds exactly the event -/
theorem C14_add_event_generated (hp : List Ev) (e : Ev) (h : IsHeap GenFn.lt hp) :
    SWO GenFn.lt ∧ IsHeap GenFn.lt (GenFn.add_event ⟨hp⟩ e) ∧ (GenFn.add_event ⟨hp⟩ e).Perm (e :: hp) := by
  rw [gen_lt_eq] at h ⊢
  rw [C14_gen_add_event_eq_model]
  exact ⟨ev_swo, heappush_heap ev_swo h e, heappush_perm Ev.lt hp e⟩

theorem heapPopLive_spec (fuel : Nat) (hp hp' : List Ev) (e : Ev) (h : IsHeap Ev.lt hp)
    (hpop : heapPopLive fuel hp = some (e, hp')) :
    e.cancelled = false ∧ e ∈ hp ∧ IsHeap Ev.lt hp' ∧ (∀ y ∈ hp', y ∈ hp) ∧ ∀ y ∈ hp', y.lt e = false := by
  induction fuel generalizing hp with
  | zero => simp [heapPopLive] at hpop
  | succ f ih =>
    unfold heapPopLive at hpop
    cases hq : heappop Ev.lt hp with
    | none => simp [hq] at hpop
    | some r =>
      obtain ⟨m, hp1⟩ := r
      obtain ⟨hperm, hheap, hmin, _⟩ := heappop_spec ev_swo h hq
      simp only [hq] at hpop
      cases hc : m.cancelled with
      | true =>
        simp only [hc, if_true] at hpop
        obtain ⟨a, b, c, d, e'⟩ := ih hp1 hheap hpop
        exact ⟨a, hperm.mem_iff.mpr (List.mem_cons_of_mem _ b), c,
          fun y hy => hperm.mem_iff.mpr (List.mem_cons_of_mem _ (d y hy)), e'⟩
      | false =>
        simp only [hc, Bool.false_eq_true, if_false, Option.some.injEq, Prod.mk.injEq] at hpop
        obtain ⟨rfl, rfl⟩ := hpop
        exact ⟨hc, hperm.mem_iff.mpr (List.mem_cons_self ..), hheap,
          fun y hy => hperm.mem_iff.mpr (List.mem_cons_of_mem _ hy), hmin⟩

/-- C14's ordering clause about the code-derived text: on a heap (w.r.t. the code's `__lt__`), what the generated
    `pop_event` returns is a live event of the list, no event left in the list is smaller, and the list stays a heap. -/
theorem C14_pop_event_generated (fuel : Nat) (hp hp' : List Ev) (e : Ev) (h : IsHeap GenFn.lt hp)
    (hpop : GenFn.pop_event ⟨hp⟩ fuel = (.ok e, hp')) :
    e.cancelled = false ∧ e ∈ hp ∧ IsHeap GenFn.lt hp' ∧ ∀ y ∈ hp', GenFn.lt y e = false := by
  rw [gen_lt_eq] at h ⊢
  have h1 := (C14_gen_pop_event_eq_model fuel hp).1
  rw [hpop] at h1
  obtain ⟨a, b, c, _, d⟩ := heapPopLive_spec fuel hp hp' e h (by simpa [popConv] using h1.symm)
  exact ⟨a, b, c, d⟩

/-! ### `peak_ahead`: `nsmallest` over the heap array = the first live events of the model's sorted list -/

theorem pairwise_trichotomy {α : Type} {R : α → α → Prop} {l : List α} (h : l.Pairwise R) {a b : α} (ha : a ∈ l) (hb : b ∈ l) :
    a = b ∨ R a b ∨ R b a := by
  induction h with
  | nil => cases ha
  | cons hx _ ih =>
    rcases List.mem_cons.mp ha with rfl | ha' <;> rcases List.mem_cons.mp hb with rfl | hb'
    · exact Or.inl rfl
    · exact Or.inr (Or.inl (hx _ hb'))
    · exact Or.inr (Or.inr (hx _ ha'))
    · exact ih ha' hb'

/-- sorting any arrangement of a strictly sorted event list (stable sort that only uses `<`) gives back the sorted list -/
theorem mergeSort_eq_of_sorted {l s : List Ev} (hp : l.Perm s) (hs : Sorted s) :
    l.mergeSort (fun a b => !Ev.lt b a) = s := by
  have asym : ∀ a b : Ev, a.lt b = true → b.lt a = false := ev_swo.asymm
  apply List.Perm.eq_of_pairwise (le := fun a b => (!Ev.lt b a) = true)
  · intro a b ha hb h1 h2
    have ha' : a ∈ s := hp.mem_iff.mp ((List.mergeSort_perm _ _).mem_iff.mp ha)
    rcases pairwise_trichotomy hs ha' hb with h | h | h
    · exact h
    · simp [h] at h2
    · simp [h] at h1
  · exact List.pairwise_mergeSort (le := fun a b => !Ev.lt b a)
      (fun a b c h1 h2 => by
        simp only [Bool.not_eq_true'] at h1 h2 ⊢
        exact ev_swo.2 c b a h2 h1)
      (fun a b => by
        cases h : Ev.lt b a
        · simp
        · simp [asym b a h]) l
  · exact hs.imp fun {a b} h => by simp [asym a b h]
  · exact (List.mergeSort_perm _ _).trans hp

/-- `EventList.peak_ahead` as generated (`nsmallest` over the live events of the heap array) = the model's `peek` on the
    sorted list that the array refines: `IndexError` on an empty list, else the first `n` live events in execution order. -/
theorem C14_gen_peak_ahead_eq_model (hp s : List Ev) (r : Refines hp s) (n : Nat) :
    GenFn.peak_ahead ⟨hp⟩ (n : Int) =
      if hp.isEmpty then .error Py.Err.Index else .ok ((s.filter Ev.live).take n) := by
  have hlive : (fun e : Ev => !GenFn.CANCELED e) = Ev.live := funext fun e => by simp [C14_gen_CANCELED_eq_model, Ev.live]
  have hsort : (hp.filter Ev.live).mergeSort (fun a b => !Ev.lt b a) = s.filter Ev.live :=
    mergeSort_eq_of_sorted (r.perm.filter _) (r.sorted.sublist List.filter_sublist)
  simp only [GenFn.peak_ahead, C14_gen_is_empty_eq_model, C14_gen_len_eq_model, gen_lt_eq, hlive, Py.nsmallest,
    Int.toNat_natCast, hsort]
  all_goals (cases hp <;> simp <;> (try omega))

/-! ### simulator.py -/

/-- `Simulator.run_for` as generated makes exactly one call `run_until(self.time + time_delta)` — the model's `runFor`
    (C15: the pieces a run is chunked into by `run_for` are `run_until` pieces from the current clock). -/
theorem C15_gen_run_for_eq_model (f : Nat) (s : Sim) (d : Int) :
    GenFn.run_for ⟨s.now⟩ d = [s.now + d] ∧ runFor f s d = runUntil f s (s.now + d) := by
  refine ⟨?_, rfl⟩
  simp only [GenFn.run_for]
  first
    | (simp; done)
    | (simp <;> omega)
