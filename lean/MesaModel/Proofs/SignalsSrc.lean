import MesaModel.Model.SignalsSrc
import MesaModel.Proofs.SignalsSlices
/-!
Helper lemmas about `extend` / `+=` from an iterable that raises part-way (`Model/SignalsSrc.lean`).
-/
namespace Mesa.Signals

theorem mExtendSrc_acc (n : Nat) : ∀ (vs d : List Int) (k : Nat) (acc : List Sig),
    mExtendSrc n d vs k acc =
      ((d ++ vs.take k, acc ++ specAppends n d.length (vs.take k)), decide (k < vs.length)) := by
  intro vs
  induction vs with
  | nil => intro d k acc; simp [mExtendSrc, specAppends]
  | cons v vs ih =>
    intro d k acc
    cases k with
    | zero => simp [mExtendSrc, specAppends]
    | succ k =>
      simp only [mExtendSrc, pAppend]
      rw [ih]
      simp [specAppends, List.append_assoc]

theorem replay_specAppends (n : Nat) : ∀ (vs d : List Int),
    replay d (specAppends n d.length vs) = some (d ++ vs) := by
  intro vs
  induction vs with
  | nil => intro d; simp [specAppends, replay]
  | cons v vs ih =>
    intro d
    have h := ih (d ++ [v])
    simp only [List.length_append, List.length_cons, List.length_nil, Nat.zero_add] at h
    simp [specAppends, replay, applySig, h]

end Mesa.Signals
