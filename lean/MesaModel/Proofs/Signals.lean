import MesaModel.Model.Signals
/-!
Helper lemmas for C16 / C18-signals: the loops of `observe` / `unobserve` refine to pointwise updates of
the subscriber table; delivery; list primitives versus the listener's `applySig`.
-/
namespace Mesa.Signals

/-! ### selectors -/

def Sel.matches {α : Type} [DecidableEq α] : Sel α → α → Bool
  | .all, _ => true
  | .one a, b => decide (a = b)

namespace Reg
variable {H : Type}

/-- well-formed declarations: names are dictionary keys, type collections are sets -/
structure WF (r : Reg H) : Prop where
  names : r.names.Nodup
  types : ∀ d ∈ r.decls, d.types.Nodup

/-- `t` is one of the signal types the observable `n` is declared to emit -/
def emits (r : Reg H) (n : Nat) (t : SigType) : Prop := t ∈ (r.typesOf n).getD []

instance (r : Reg H) (n : Nat) (t : SigType) : Decidable (r.emits n t) := by unfold emits; infer_instance

@[simp] theorem add_decls (r : Reg H) (n t h) : (r.add n t h).decls = r.decls := rfl
@[simp] theorem setSubs_decls (r : Reg H) (n t l) : (r.setSubs n t l).decls = r.decls := rfl
@[simp] theorem add_typesOf (r : Reg H) (n t h a) : (r.add n t h).typesOf a = r.typesOf a := rfl
@[simp] theorem setSubs_typesOf (r : Reg H) (n t l a) : (r.setSubs n t l).typesOf a = r.typesOf a := rfl
@[simp] theorem add_selTypes (r : Reg H) (n t h s a) : (r.add n t h).selTypes s a = r.selTypes s a := by
  cases s <;> rfl
@[simp] theorem setSubs_selTypes (r : Reg H) (n t l s a) : (r.setSubs n t l).selTypes s a = r.selTypes s a := by
  cases s <;> rfl

theorem typesOf_nodup {r : Reg H} (w : r.WF) (n : Nat) : ((r.typesOf n).getD []).Nodup := by
  unfold typesOf
  cases hf : r.decls.find? (fun d => d.name == n) with
  | none => simp
  | some d => simpa using w.types d (List.mem_of_find?_eq_some hf)

theorem typesOf_isSome {r : Reg H} {n : Nat} : (r.typesOf n).isSome ↔ n ∈ r.names := by
  unfold typesOf names
  simp [List.find?_isSome]

/-- a generic step of the loops: update one (name, type) entry by `f` -/
def upd (f : List H → List H) (r : Reg H) (a : Nat) (ty : SigType) : Reg H :=
  r.setSubs a ty (f (r.subs a ty))

@[simp] theorem upd_decls (f : List H → List H) (r : Reg H) (a ty) : (upd f r a ty).decls = r.decls := rfl
@[simp] theorem upd_selTypes (f : List H → List H) (r : Reg H) (a ty s b) :
    (upd f r a ty).selTypes s b = r.selTypes s b := by cases s <;> rfl

theorem upd_subs (f : List H → List H) (r : Reg H) (a ty n t) :
    (upd f r a ty).subs n t = if n = a ∧ t = ty then f (r.subs n t) else r.subs n t := by
  unfold upd setSubs
  by_cases h : n = a ∧ t = ty
  · obtain ⟨rfl, rfl⟩ := h; simp
  · simp [h]

theorem add_eq_upd (r : Reg H) (a ty h) : r.add a ty h = upd (· ++ [h]) r a ty := by
  unfold add upd setSubs
  congr 1
  funext n t
  by_cases hh : n = a ∧ t = ty
  · obtain ⟨rfl, rfl⟩ := hh; simp
  · simp [hh]

/-- inner loop over the types of one name -/
theorem foldl_types (f : List H → List H) (a : Nat) (tys : List SigType) (hnd : tys.Nodup) (r : Reg H) :
    (tys.foldl (fun r ty => upd f r a ty) r).decls = r.decls ∧
    ∀ n t, (tys.foldl (fun r ty => upd f r a ty) r).subs n t =
      if n = a ∧ t ∈ tys then f (r.subs n t) else r.subs n t := by
  induction tys generalizing r with
  | nil => simp
  | cons ty tys ih =>
    obtain ⟨hnot, hnd'⟩ := List.nodup_cons.mp hnd
    obtain ⟨hd, hs⟩ := ih hnd' (upd f r a ty)
    refine ⟨by simpa using hd, fun n t => ?_⟩
    rw [List.foldl_cons, hs n t, upd_subs]
    by_cases hn : n = a
    · subst hn
      by_cases ht : t = ty
      · subst ht; simp [hnot]
      · simp [ht]
    · simp [hn]

theorem foldl_types_decls (f : List H → List H) (a : Nat) (l : List SigType) (r : Reg H) :
    (l.foldl (fun r ty => upd f r a ty) r).decls = r.decls := by
  induction l generalizing r with
  | nil => rfl
  | cons x l ihl => rw [List.foldl_cons, ihl]; rfl

theorem foldl_names_decls (f : List H → List H) (s : Sel SigType) (ns : List Nat) (r : Reg H) :
    (ns.foldl (fun r a => (r.selTypes s a).foldl (fun r ty => upd f r a ty) r) r).decls = r.decls := by
  induction ns generalizing r with
  | nil => rfl
  | cons a ns ih => rw [List.foldl_cons, ih, foldl_types_decls]

theorem selTypes_congr {r r' : Reg H} (h : r'.decls = r.decls) (s : Sel SigType) (b : Nat) :
    r'.selTypes s b = r.selTypes s b := by
  cases s with
  | all => simp [selTypes, typesOf, h]
  | one ty => rfl

/-- outer loop over the names -/
theorem foldl_names (f : List H → List H) (s : Sel SigType) (ns : List Nat) (hnd : ns.Nodup) (r : Reg H) :
    (ns.foldl (fun r a => (r.selTypes s a).foldl (fun r ty => upd f r a ty) r) r).decls = r.decls ∧
    ((∀ a, (r.selTypes s a).Nodup) → ∀ n t,
      (ns.foldl (fun r a => (r.selTypes s a).foldl (fun r ty => upd f r a ty) r) r).subs n t =
        if n ∈ ns ∧ t ∈ r.selTypes s n then f (r.subs n t) else r.subs n t) := by
  induction ns generalizing r with
  | nil => simp
  | cons a ns ih =>
    obtain ⟨hnot, hnd'⟩ := List.nodup_cons.mp hnd
    rw [List.foldl_cons]
    have hdecl := foldl_types_decls f a (r.selTypes s a) r
    have hty := fun (h : (r.selTypes s a).Nodup) => (foldl_types f a (r.selTypes s a) h r).2
    generalize (r.selTypes s a).foldl (fun r ty => upd f r a ty) r = r1 at hdecl hty
    have hsel : ∀ b, r1.selTypes s b = r.selTypes s b := selTypes_congr hdecl s
    obtain ⟨hd, hs⟩ := ih hnd' r1
    refine ⟨by rw [hd, hdecl], fun hall n t => ?_⟩
    have hall1 : ∀ b, (r1.selTypes s b).Nodup := fun b => by rw [hsel]; exact hall b
    rw [hs hall1 n t, hsel, hty (hall a) n t]
    by_cases hn : n = a
    · subst hn; simp [hnot]
    · simp [hn]

theorem emits_mem_names {r : Reg H} {a : Nat} {ty : SigType} (h : r.emits a ty) : a ∈ r.names := by
  apply typesOf_isSome.mp
  unfold emits at h
  cases hh : r.typesOf a with
  | none => simp [hh] at h
  | some l => rfl

/-- a call of `observe` is acceptable: a concrete name is known, a concrete type is emitted by every
    observable the call ranges over -/
def validObserve (r : Reg H) (n : Sel Nat) (t : Sel SigType) : Prop :=
  (∀ a, n = .one a → a ∈ r.names) ∧ (∀ ty, t = .one ty → ∀ a ∈ r.names, n.matches a = true → r.emits a ty)

theorem observe_loop_eq (r : Reg H) (t : Sel SigType) (h : H) (ns : List Nat) :
    ns.foldl (fun r a => (r.selTypes t a).foldl (fun r ty => r.add a ty h) r) r =
    ns.foldl (fun r a => (r.selTypes t a).foldl (fun r ty => upd (· ++ [h]) r a ty) r) r := by
  congr 1; funext r a; congr 1; funext r ty; exact add_eq_upd r a ty h

theorem selTypes_nodup {r : Reg H} (w : r.WF) (t : Sel SigType) (a : Nat) : (r.selTypes t a).Nodup := by
  cases t with
  | all => exact typesOf_nodup w a
  | one ty => simp [selTypes]

/-- **`observe` is a pointwise update** (independent of the order in which names and signal-type sets are
    iterated): it either rejects with `ValueError` — exactly when the call is not valid — or appends the
    handler to the subscriber list of every (name, type) the selectors match, once, and touches nothing else. -/
theorem observe_spec {r : Reg H} (w : r.WF) (n : Sel Nat) (t : Sel SigType) (h : H) :
    (validObserve r n t ∧ ∃ r', r.observe n t h = .ok r' ∧ r'.decls = r.decls ∧
      ∀ a ty, r'.subs a ty =
        if n.matches a = true ∧ t.matches ty = true ∧ r.emits a ty then r.subs a ty ++ [h] else r.subs a ty) ∨
    (¬ validObserve r n t ∧ r.observe n t h = .error .value) := by
  unfold observe
  cases n with
  | one a0 =>
    by_cases hk : a0 ∈ r.names
    · simp only [selNames, hk, if_true]
      cases t with
      | all =>
        left
        refine ⟨⟨fun a ha => by cases ha; exact hk, fun ty hty => by cases hty⟩, ?_⟩
        simp only [Bool.not_true, Bool.false_eq_true, if_false]
        rw [observe_loop_eq]
        obtain ⟨hd, hs⟩ := foldl_names (· ++ [h]) .all [a0] (by simp) r
        refine ⟨_, rfl, hd, fun a ty => ?_⟩
        rw [hs (selTypes_nodup w .all) a ty]
        simp only [List.mem_singleton, Sel.matches, decide_eq_true_eq, selTypes, emits, true_and]
        by_cases ha : a = a0
        · subst ha; simp
        · have : ¬ a0 = a := fun e => ha e.symm
          simp [ha, this]
      | one ty0 =>
        by_cases hv : ty0 ∈ (r.typesOf a0).getD []
        · left
          refine ⟨⟨fun a ha => by cases ha; exact hk, fun ty hty a _ hm => ?_⟩, ?_⟩
          · cases hty
            simp only [Sel.matches, decide_eq_true_eq] at hm
            subst hm; exact hv
          · have hc : (List.all [a0] fun a => ((r.typesOf a).getD []).contains ty0) = true := by
              simp [hv]
            simp only [hc, Bool.not_true, Bool.false_eq_true, if_false]
            rw [observe_loop_eq]
            obtain ⟨hd, hs⟩ := foldl_names (· ++ [h]) (.one ty0) [a0] (by simp) r
            refine ⟨_, rfl, hd, fun a ty => ?_⟩
            rw [hs (selTypes_nodup w (.one ty0)) a ty]
            simp only [List.mem_singleton, Sel.matches, decide_eq_true_eq, selTypes, emits]
            by_cases ha : a = a0
            · subst ha
              by_cases hty : ty = ty0
              · subst hty; simp [hv]
              · have : ¬ ty0 = ty := fun e => hty e.symm
                simp [hty, this]
            · have : ¬ a0 = a := fun e => ha e.symm
              simp [ha, this]
        · right
          refine ⟨fun hval => hv (hval.2 ty0 rfl a0 hk (by simp [Sel.matches])), ?_⟩
          have hc : (List.all [a0] fun a => ((r.typesOf a).getD []).contains ty0) = false := by
            simp [hv]
          simp only [hc, Bool.not_false, if_true]
    · right
      refine ⟨fun hval => hk (hval.1 a0 rfl), ?_⟩
      simp [selNames, hk]
  | all =>
    simp only [selNames]
    cases t with
    | all =>
      left
      refine ⟨?_, ?_⟩
      · exact ⟨fun a ha => (by cases ha), fun ty hty => (by cases hty)⟩
      simp only [Bool.not_true, Bool.false_eq_true, if_false]
      rw [observe_loop_eq]
      obtain ⟨hd, hs⟩ := foldl_names (· ++ [h]) .all r.names w.names r
      refine ⟨_, rfl, hd, fun a ty => ?_⟩
      rw [hs (selTypes_nodup w .all) a ty]
      simp only [Sel.matches, selTypes, emits, true_and]
      by_cases he : ty ∈ (r.typesOf a).getD []
      · simp [he, emits_mem_names he]
      · simp [he]
    | one ty0 =>
      by_cases hv : ∀ a ∈ r.names, ty0 ∈ (r.typesOf a).getD []
      · left
        refine ⟨?_, ?_⟩
        · exact ⟨fun a ha => (by cases ha), fun ty hty a ha _ => (by cases hty; exact hv a ha)⟩
        have hc : (r.names.all fun a => ((r.typesOf a).getD []).contains ty0) = true := by
          simpa [List.all_eq_true] using hv
        simp only [hc, Bool.not_true, Bool.false_eq_true, if_false]
        rw [observe_loop_eq]
        obtain ⟨hd, hs⟩ := foldl_names (· ++ [h]) (.one ty0) r.names w.names r
        refine ⟨_, rfl, hd, fun a ty => ?_⟩
        rw [hs (selTypes_nodup w (.one ty0)) a ty]
        simp only [Sel.matches, decide_eq_true_eq, selTypes, emits, List.mem_singleton, true_and]
        by_cases hty : ty = ty0
        · subst hty
          by_cases ha : a ∈ r.names
          · simp [ha, hv a ha]
          · have : ¬ ty ∈ (r.typesOf a).getD [] := fun he => ha (emits_mem_names he)
            simp [ha, this]
        · have : ¬ ty0 = ty := fun e => hty e.symm
          simp [hty, this]
      · right
        refine ⟨fun hval => hv (fun a ha => hval.2 ty0 rfl a ha rfl), ?_⟩
        have hc : (r.names.all fun a => ((r.typesOf a).getD []).contains ty0) = false := by
          rw [← Bool.not_eq_true]
          simpa [List.all_eq_true] using hv
        simp only [hc, Bool.not_false, if_true]

/-- the (name, type) entries an `unobserve` call rewrites -/
def touches (r : Reg H) (n : Sel Nat) (t : Sel SigType) (a : Nat) (ty : SigType) : Prop :=
  n.matches a = true ∧ t.matches ty = true ∧ (n = .all → a ∈ r.names) ∧ (t = .all → r.emits a ty)

instance (r : Reg H) (n : Sel Nat) (t : Sel SigType) (a : Nat) (ty : SigType) : Decidable (r.touches n t a ty) := by
  unfold touches; infer_instance

theorem names_any_isNone (r : Reg H) : (r.names.any fun a => (r.typesOf a).isNone) = false := by
  rw [← Bool.not_eq_true]
  simp only [List.any_eq_true, not_exists, not_and]
  intro a ha hn
  have := typesOf_isSome.mpr ha
  cases hh : r.typesOf a <;> simp_all

/-- **`unobserve` is a pointwise update**: `KeyError` exactly for an unknown concrete name with `All()` as
    type (nothing is changed then); otherwise every entry the selectors match keeps exactly its live
    references to *other* handlers, in their order, and no other entry is touched. -/
theorem unobserve_spec [DecidableEq H] {r : Reg H} (w : r.WF) (alive : H → Bool) (n : Sel Nat)
    (t : Sel SigType) (h : H) :
    ((∃ a, n = .one a ∧ t = .all ∧ a ∉ r.names) ∧ r.unobserve alive n t h = .error .key) ∨
    ((¬ ∃ a, n = .one a ∧ t = .all ∧ a ∉ r.names) ∧ ∃ r', r.unobserve alive n t h = .ok r' ∧
      r'.decls = r.decls ∧ ∀ a ty, r'.subs a ty =
        if touches r n t a ty then keep alive h (r.subs a ty) else r.subs a ty) := by
  unfold unobserve
  cases n with
  | all =>
    right
    refine ⟨fun ⟨a, ha, _⟩ => (by cases ha), ?_⟩
    cases t with
    | all =>
      simp only [names_any_isNone, Bool.false_eq_true, if_false]
      obtain ⟨hd, hs⟩ := foldl_names (keep alive h) .all r.names w.names r
      refine ⟨_, rfl, hd, fun a ty => ?_⟩
      have := hs (selTypes_nodup w .all) a ty
      simp only [upd] at this
      rw [this]
      simp only [touches, Sel.matches, selTypes, emits, true_and]
      by_cases he : ty ∈ (r.typesOf a).getD []
      · simp [he, emits_mem_names he]
      · simp [he]
    | one ty0 =>
      simp only [Bool.false_eq_true, if_false]
      obtain ⟨hd, hs⟩ := foldl_names (keep alive h) (.one ty0) r.names w.names r
      refine ⟨_, rfl, hd, fun a ty => ?_⟩
      have := hs (selTypes_nodup w (.one ty0)) a ty
      simp only [upd] at this
      rw [this]
      simp only [touches, Sel.matches, decide_eq_true_eq, selTypes, List.mem_singleton, true_and]
      by_cases hty : ty = ty0
      · subst hty; simp
      · have : ¬ ty0 = ty := fun e => hty e.symm
        simp [hty, this]
  | one a0 =>
    cases t with
    | all =>
      by_cases hk : a0 ∈ r.names
      · right
        refine ⟨fun ⟨a, ha, _, hn⟩ => (by cases ha; exact hn hk), ?_⟩
        have hsome := typesOf_isSome.mpr hk
        have hb : ([a0].any fun a => (r.typesOf a).isNone) = false := by
          cases hh : r.typesOf a0 <;> simp_all
        simp only [hb, Bool.false_eq_true, if_false]
        obtain ⟨hd, hs⟩ := foldl_names (keep alive h) .all [a0] (by simp) r
        refine ⟨_, rfl, hd, fun a ty => ?_⟩
        have := hs (selTypes_nodup w .all) a ty
        simp only [upd] at this
        rw [this]
        simp only [touches, Sel.matches, decide_eq_true_eq, selTypes, emits, List.mem_singleton, true_and]
        by_cases ha : a = a0
        · subst ha; simp
        · have : ¬ a0 = a := fun e => ha e.symm
          simp [ha, this]
      · left
        refine ⟨⟨a0, rfl, rfl, hk⟩, ?_⟩
        have hnone : (r.typesOf a0).isNone = true := by
          cases hh : r.typesOf a0 with
          | none => rfl
          | some l => exact absurd (typesOf_isSome.mp (by simp [hh])) hk
        have hb : ([a0].any fun a => (r.typesOf a).isNone) = true := by simp [hnone]
        simp only [hb, if_true]
    | one ty0 =>
      right
      refine ⟨fun ⟨a, _, ht, _⟩ => (by cases ht), ?_⟩
      simp only [Bool.false_eq_true, if_false]
      obtain ⟨hd, hs⟩ := foldl_names (keep alive h) (.one ty0) [a0] (by simp) r
      refine ⟨_, rfl, hd, fun a ty => ?_⟩
      have := hs (selTypes_nodup w (.one ty0)) a ty
      simp only [upd] at this
      rw [this]
      simp only [touches, Sel.matches, decide_eq_true_eq, selTypes, List.mem_singleton]
      by_cases ha : a = a0
      · subst ha
        by_cases hty : ty = ty0
        · subst hty; simp
        · have : ¬ ty0 = ty := fun e => hty e.symm
          simp [hty, this]
      · have : ¬ a0 = a := fun e => ha e.symm
        simp [ha, this]

end Reg

/-! ### delivery -/

/-- the signals an operation emits (none if it is rejected or is not a mutation) -/
def emitted (s : St) : Op → List Sig
  | .assign n v => [⟨n, .change, s.obsv n, .int v, .none⟩]
  | .lassign n vs => [⟨n, .change, .list ((s.lists n).getD []), .list vs, .none⟩]
  | .observe .. => []
  | .unobserve .. => []
  | .clear _ => []
  | .drop _ => []
  | op =>
    match op.listName with
    | none => []
    | some n =>
      match s.lists n with
      | none => []
      | some d =>
        match listOp n d op with
        | .ok (_, sigs) => sigs
        | .error _ => []

/-- the live subscribers of a signal, in subscription-list order, each paired with the signal -/
def liveDeliveries (s : St) (sig : Sig) : List (Nat × Sig) :=
  ((s.reg.subs sig.name sig.type).filter s.alive).map fun h => (h, sig)

/-- `s'` is `s` with some dead references pruned from the registry -/
structure Pruned (s s' : St) : Prop where
  dead : s'.dead = s.dead
  obsv : s'.obsv = s.obsv
  lists : s'.lists = s.lists
  decls : s'.reg.decls = s.reg.decls
  live : ∀ n t, (s'.reg.subs n t).filter s.alive = (s.reg.subs n t).filter s.alive
  sub : ∀ n t, (s'.reg.subs n t).Sublist (s.reg.subs n t)

theorem Pruned.refl (s : St) : Pruned s s := ⟨rfl, rfl, rfl, rfl, fun _ _ => rfl, fun _ _ => List.Sublist.refl _⟩

theorem Pruned.alive {s s' : St} (p : Pruned s s') : s'.alive = s.alive := by
  funext h; simp [St.alive, p.dead]

theorem Pruned.trans {s s' s'' : St} (p : Pruned s s') (q : Pruned s' s'') : Pruned s s'' :=
  ⟨q.dead.trans p.dead, q.obsv.trans p.obsv, q.lists.trans p.lists, q.decls.trans p.decls,
   fun n t => by rw [← p.live n t, ← p.alive, q.live n t], fun n t => (q.sub n t).trans (p.sub n t)⟩

theorem notify_spec (s : St) (sig : Sig) :
    (notify s sig).2 = liveDeliveries s sig ∧ Pruned s (notify s sig).1 := by
  refine ⟨rfl, rfl, rfl, rfl, rfl, fun n t => ?_, fun n t => ?_⟩
  · simp only [notify, Reg.deliver, Reg.setSubs]
    by_cases h : n = sig.name ∧ t = sig.type
    · obtain ⟨rfl, rfl⟩ := h; simp [List.filter_filter]
    · simp [h]
  · simp only [notify, Reg.deliver, Reg.setSubs]
    by_cases h : n = sig.name ∧ t = sig.type
    · obtain ⟨rfl, rfl⟩ := h; simp
    · simp [h]

theorem liveDeliveries_pruned {s s' : St} (p : Pruned s s') (sig : Sig) :
    liveDeliveries s' sig = liveDeliveries s sig := by
  unfold liveDeliveries; rw [p.alive, p.live]

theorem flatMap_congr' {α β : Type} {f g : α → List β} (l : List α) (h : ∀ a ∈ l, f a = g a) :
    l.flatMap f = l.flatMap g := by
  induction l with
  | nil => rfl
  | cons a l ih =>
    rw [List.flatMap_cons, List.flatMap_cons, h a (by simp), ih fun b hb => h b (by simp [hb])]

theorem notifyAll_aux (sigs : List Sig) (s : St) (acc : List (Nat × Sig)) :
    (sigs.foldl (fun (acc : St × List (Nat × Sig)) sig =>
        ((notify acc.1 sig).1, acc.2 ++ (notify acc.1 sig).2)) (s, acc)).2
      = acc ++ sigs.flatMap (liveDeliveries s) ∧
    Pruned s (sigs.foldl (fun (acc : St × List (Nat × Sig)) sig =>
        ((notify acc.1 sig).1, acc.2 ++ (notify acc.1 sig).2)) (s, acc)).1 := by
  induction sigs generalizing s acc with
  | nil => exact ⟨by simp, Pruned.refl s⟩
  | cons sig sigs ih =>
    rw [List.foldl_cons]
    obtain ⟨h1, h2⟩ := notify_spec s sig
    obtain ⟨i1, i2⟩ := ih (notify s sig).1 (acc ++ (notify s sig).2)
    refine ⟨?_, h2.trans i2⟩
    rw [i1, h1, List.flatMap_cons, List.append_assoc]
    congr 2
    exact flatMap_congr' _ fun sig' _ => liveDeliveries_pruned h2 sig'

/-- several signals of one operation: every one reaches the live subscribers the registry had when the
    operation started (pruning dead references in between changes nothing) -/
theorem notifyAll_spec (s : St) (sigs : List Sig) :
    (notifyAll s sigs).2 = sigs.flatMap (liveDeliveries s) ∧ Pruned s (notifyAll s sigs).1 := by
  have := notifyAll_aux sigs s []
  simpa [notifyAll] using this


/-! ### one step -/

/-- the catch-all branch of `step`: a list operation on the ObservableList `n` -/
def stepList (s : St) (n : Nat) (op : Op) : St × Out :=
  match s.lists n with
  | none => (s, .err .attr)
  | some d =>
    match listOp n d op with
    | .error e => (s, .err e)
    | .ok (d', sigs) =>
      let (s1, ds) := notifyAll s sigs
      ({ s1 with lists := fun m => if m = n then some d' else s1.lists m }, .ok ds)

theorem step_list {s : St} {op : Op} {n : Nat} (h : op.listName = some n) : step s op = stepList s n op := by
  cases op <;> simp [Op.listName] at h <;> subst h <;> rfl

theorem emitted_list {s : St} {op : Op} {n : Nat} (h : op.listName = some n) :
    emitted s op = match s.lists n with
      | none => []
      | some d => match listOp n d op with
        | .ok (_, sigs) => sigs
        | .error _ => [] := by
  cases op <;> simp [Op.listName] at h <;> subst h <;> rfl

def Op.isRegistryOp : Op → Bool
  | .observe .. | .unobserve .. | .clear _ => true
  | _ => false

/-- what one step does, seen from the registry: rejected (nothing changes), or a registry operation, or a
    mutation that delivers its signals and at most prunes dead references -/
inductive StepKind (s : St) (op : Op) : Prop where
  | rejected (e : Err) (h : step s op = (s, .err e)) (hem : emitted s op = [])
  | registry (r : Reg Nat) (h : step s op = ({ s with reg := r }, .ok [])) (hem : emitted s op = [])
      (hop : op.isRegistryOp = true)
  | dropped (x : Nat) (hop : op = .drop x) (h : step s op = ({ s with dead := x :: s.dead }, .ok []))
  | mutated (s1 : St) (p : Pruned s s1) (h : (step s op).2 = .ok ((emitted s op).flatMap (liveDeliveries s)))
      (hreg : (step s op).1.reg = s1.reg) (hdead : (step s op).1.dead = s.dead)

theorem step_kind (s : St) (op : Op) : StepKind s op := by
  cases hl : op.listName with
  | some n =>
    rw [show StepKind s op = _ from rfl]
    have hs := step_list (s := s) hl
    have he := emitted_list (s := s) hl
    unfold stepList at hs
    cases hd : s.lists n with
    | none =>
      simp only [hd] at hs he
      exact .rejected _ hs he
    | some d =>
      simp only [hd] at hs he
      cases hop : listOp n d op with
      | error e =>
        simp only [hop] at hs he
        exact .rejected _ hs he
      | ok res =>
        obtain ⟨d', sigs⟩ := res
        simp only [hop] at hs he
        obtain ⟨h1, h2⟩ := notifyAll_spec s sigs
        refine .mutated (notifyAll s sigs).1 h2 ?_ ?_ ?_
        · rw [hs, he, ← h1]
        · rw [hs]
        · rw [hs]; exact h2.dead
  | none =>
    cases op with
    | observe n t h =>
      cases ho : s.reg.observe n t h with
      | ok r => exact .registry r (by simp [step, ho]) rfl rfl
      | error e => exact .rejected e (by simp [step, ho]) rfl
    | unobserve n t h =>
      cases ho : s.reg.unobserve s.alive n t h with
      | ok r => exact .registry r (by simp [step, ho]) rfl rfl
      | error e => exact .rejected e (by simp [step, ho]) rfl
    | clear n => exact .registry (s.reg.clearAll n) rfl rfl rfl
    | drop x => exact .dropped x rfl rfl
    | assign n v =>
      obtain ⟨h1, h2⟩ := notify_spec s ⟨n, .change, s.obsv n, .int v, .none⟩
      refine .mutated (notify s ⟨n, .change, s.obsv n, .int v, .none⟩).1 h2 ?_ rfl h2.dead
      simp only [step, emitted, List.flatMap_cons, List.flatMap_nil, List.append_nil]
      rw [← h1]
    | lassign n vs =>
      obtain ⟨h1, h2⟩ := notify_spec s ⟨n, .change, .list ((s.lists n).getD []), .list vs, .none⟩
      refine .mutated (notify s ⟨n, .change, .list ((s.lists n).getD []), .list vs, .none⟩).1 h2 ?_ rfl h2.dead
      simp only [step, emitted, List.flatMap_cons, List.flatMap_nil, List.append_nil]
      rw [← h1]
    | _ => simp [Op.listName] at hl


/-! ### the subscription history (a specification without loops and without iteration orders) -/

namespace Reg
variable {H : Type}

theorem names_of_decls {r r' : Reg H} (h : r.decls = r'.decls) : r.names = r'.names := by simp [names, h]
theorem emits_of_decls {r r' : Reg H} (h : r.decls = r'.decls) (a : Nat) (ty : SigType) :
    r.emits a ty ↔ r'.emits a ty := by simp [emits, typesOf, h]
theorem validObserve_of_decls {r r' : Reg H} (h : r.decls = r'.decls) (n : Sel Nat) (t : Sel SigType) :
    validObserve r n t ↔ validObserve r' n t := by
  simp only [validObserve, names_of_decls h, emits_of_decls h]
theorem touches_of_decls {r r' : Reg H} (h : r.decls = r'.decls) (n : Sel Nat) (t : Sel SigType) (a ty) :
    touches r n t a ty ↔ touches r' n t a ty := by
  simp only [touches, names_of_decls h, emits_of_decls h]
theorem wf_of_decls {r r' : Reg H} (h : r.decls = r'.decls) (w : r'.WF) : r.WF :=
  ⟨by rw [names_of_decls h]; exact w.names, by rw [h]; exact w.types⟩

end Reg

abbrev Table := Nat → SigType → List Nat

open Classical in
/-- what each registry operation means for the subscription table, entry by entry: `observe` appends the
    handler to every matching entry (if the call is valid), `unobserve` deletes it from every matching
    entry, `clear_all_subscriptions` empties the matching entries; nothing else touches the table -/
noncomputable def specSubsStep (r0 : Reg Nat) (σ : Table) : Op → Table
  | .observe n t h =>
    if Reg.validObserve r0 n t then
      fun a ty => if n.matches a = true ∧ t.matches ty = true ∧ r0.emits a ty then σ a ty ++ [h] else σ a ty
    else σ
  | .unobserve n t h =>
    if ∃ a, n = .one a ∧ t = .all ∧ a ∉ r0.names then σ
    else fun a ty => if r0.touches n t a ty then (σ a ty).filter (· ≠ h) else σ a ty
  | .clear n => fun a ty => if n.matches a = true then [] else σ a ty
  | _ => σ

/-- the subscription table after a history -/
noncomputable def specSubs (r0 : Reg Nat) (ops : List Op) : Table :=
  ops.foldl (specSubsStep r0) (fun _ _ => [])

/-- the registry refines the table: same live subscribers in the same order
    (the registry may have dropped dead references already, the table never does) -/
def Refines (s : St) (σ : Table) : Prop :=
  ∀ n t, (s.reg.subs n t).filter s.alive = (σ n t).filter s.alive

theorem filter_keep (alive : Nat → Bool) (h : Nat) (l : List Nat) :
    (Reg.keep alive h l).filter alive = (l.filter alive).filter (· ≠ h) := by
  unfold Reg.keep
  rw [List.filter_filter, List.filter_filter]
  congr 1; funext x
  by_cases hx : x = h <;> cases alive x <;> simp [hx]

theorem filter_comm' (p q : Nat → Bool) (l : List Nat) : (l.filter p).filter q = (l.filter q).filter p := by
  rw [List.filter_filter, List.filter_filter]; congr 1; funext x; exact Bool.and_comm _ _

theorem specSubsStep_other {op : Op} (hm : op.isRegistryOp = false) (r0 : Reg Nat) (σ : Table) :
    specSubsStep r0 σ op = σ := by
  cases op <;> simp [Op.isRegistryOp] at hm <;> rfl

theorem drop_alive (s : St) (x : Nat) (l : List Nat) :
    l.filter (St.alive { s with dead := x :: s.dead }) = (l.filter s.alive).filter (· ≠ x) := by
  rw [List.filter_filter]; congr 1; funext y
  by_cases hy : y = x <;> simp [St.alive, hy]

theorem step_refines_other {r0 : Reg Nat} {s : St} (hd : s.reg.decls = r0.decls) {σ : Table}
    (hr : Refines s σ) {op : Op} (hm : op.isRegistryOp = false) :
    (step s op).1.reg.decls = r0.decls ∧ Refines (step s op).1 (specSubsStep r0 σ op) := by
  rw [specSubsStep_other hm]
  rcases step_kind s op with ⟨e, h, _⟩ | ⟨r, h, _, hop⟩ | ⟨x, hop, h⟩ | ⟨s1, p, h, hreg, hdead⟩
  · rw [h]; exact ⟨hd, hr⟩
  · rw [hop] at hm; cases hm
  · rw [h]
    refine ⟨hd, fun a ty => ?_⟩
    show (s.reg.subs a ty).filter _ = (σ a ty).filter _
    rw [drop_alive, drop_alive, hr a ty]
  · refine ⟨by rw [hreg, p.decls, hd], fun a ty => ?_⟩
    have hal : (step s op).1.alive = s.alive := by funext y; simp [St.alive, hdead]
    rw [hal, hreg, p.live a ty]; exact hr a ty

theorem step_refines {r0 : Reg Nat} (w : r0.WF) {s : St} (hd : s.reg.decls = r0.decls) {σ : Table}
    (hr : Refines s σ) (op : Op) :
    (step s op).1.reg.decls = r0.decls ∧ Refines (step s op).1 (specSubsStep r0 σ op) := by
  have ws : s.reg.WF := Reg.wf_of_decls hd w
  cases op with
  | observe n t h =>
    simp only [step, specSubsStep]
    rcases Reg.observe_spec ws n t h with ⟨hv, r', ho, hdecl, hs⟩ | ⟨hv, ho⟩
    · rw [ho, if_pos ((Reg.validObserve_of_decls hd n t).mp hv)]
      refine ⟨hdecl.trans hd, fun a ty => ?_⟩
      show (r'.subs a ty).filter s.alive = _
      rw [hs a ty]
      simp only [Reg.emits_of_decls hd]
      split
      · rw [List.filter_append, List.filter_append, hr a ty]; rfl
      · exact hr a ty
    · rw [ho, if_neg (fun h' => hv ((Reg.validObserve_of_decls hd n t).mpr h'))]
      exact ⟨hd, hr⟩
  | unobserve n t h =>
    simp only [step, specSubsStep]
    rcases Reg.unobserve_spec ws s.alive n t h with ⟨hv, ho⟩ | ⟨hv, r', ho, hdecl, hs⟩
    · rw [ho, if_pos (by simpa only [Reg.names_of_decls hd] using hv)]
      exact ⟨hd, hr⟩
    · rw [ho, if_neg (by simpa only [Reg.names_of_decls hd] using hv)]
      refine ⟨hdecl.trans hd, fun a ty => ?_⟩
      show (r'.subs a ty).filter s.alive = _
      rw [hs a ty]
      simp only [Reg.touches_of_decls hd]
      split
      · rw [filter_keep, hr a ty, filter_comm']; rfl
      · exact hr a ty
  | clear n =>
    refine ⟨by cases n <;> exact hd, fun a ty => ?_⟩
    simp only [step, specSubsStep]
    cases n with
    | all => simp [Reg.clearAll, Sel.matches]
    | one b =>
      show ((s.reg.clearAll (.one b)).subs a ty).filter s.alive = _
      simp only [Reg.clearAll, Sel.matches, decide_eq_true_eq]
      by_cases hab : a = b
      · subst hab; simp
      · have : ¬ b = a := fun e => hab e.symm
        simp only [hab, this, if_false]; exact hr a ty
  | _ => exact step_refines_other hd hr rfl


theorem run_cons (s : St) (op : Op) (ops : List Op) :
    run s (op :: ops) = ((run (step s op).1 ops).1, (step s op).2 :: (run (step s op).1 ops).2) := rfl

theorem run_refines {r0 : Reg Nat} (w : r0.WF) (ops : List Op) {s : St} (hd : s.reg.decls = r0.decls) {σ : Table}
    (hr : Refines s σ) :
    (run s ops).1.reg.decls = r0.decls ∧ Refines (run s ops).1 (ops.foldl (specSubsStep r0) σ) := by
  induction ops generalizing s σ with
  | nil => exact ⟨hd, hr⟩
  | cons op ops ih =>
    obtain ⟨h1, h2⟩ := step_refines w hd hr op
    rw [run_cons, List.foldl_cons]
    exact ih h1 h2

theorem run_append (s : St) (ops ops' : List Op) :
    (run s (ops ++ ops')).1 = (run (run s ops).1 ops').1 ∧
    (run s (ops ++ ops')).2 = (run s ops).2 ++ (run (run s ops).1 ops').2 := by
  induction ops generalizing s with
  | nil => exact ⟨rfl, rfl⟩
  | cons op ops ih =>
    obtain ⟨h1, h2⟩ := ih (step s op).1
    simp only [List.cons_append, run_cons]
    exact ⟨h1, by rw [h2]⟩

/-! ### list primitives versus the listener -/

theorem normIdx_nat {len j : Nat} (h : j < len) : normIdx len (j : Int) = some j := by
  unfold normIdx
  have : ¬ ((j : Int) < 0) := by omega
  simp only [this, if_false]
  have : (0 : Int) ≤ j ∧ (j : Int) < len := by omega
  simp [this]

theorem normIdx_lt {len : Nat} {i : Int} {j : Nat} (h : normIdx len i = some j) : j < len := by
  simp only [normIdx] at h
  split at h
  · split at h
    · injection h with h; omega
    · cases h
  · split at h
    · injection h with h; omega
    · cases h

theorem normIdx_neg_one {len : Nat} (h : 0 < len) : normIdx len (-1) = some (len - 1) := by
  unfold normIdx
  have h1 : ((-1 : Int) < 0) := by omega
  simp only [h1, if_true]
  have : (0 : Int) ≤ -1 + len ∧ (-1 + (len : Int)) < len := by omega
  simp only [this, and_self, if_true]
  congr 1; omega

theorem replay_append (d : List Int) (a b : List Sig) :
    replay d (a ++ b) = (replay d a).bind fun d' => replay d' b := by
  induction a generalizing d with
  | nil => rfl
  | cons x a ih =>
    simp only [List.cons_append, replay]
    cases applySig d x with
    | none => rfl
    | some d1 => simpa using ih d1

theorem replay_snoc {d0 d : List Int} {a : List Sig} (h : replay d0 a = some d) (x : Sig) :
    replay d0 (a ++ [x]) = applySig d x := by
  rw [replay_append, h]; simp [replay]

theorem apply_pSet {n : Nat} {d : List Int} {i v : Int} {d' : List Int} {sig : Sig}
    (h : pSet n d i v = .ok (d', sig)) : applySig d sig = some d' ∧ sig.name = n := by
  unfold pSet at h
  cases hn : normIdx d.length i with
  | none => simp [hn] at h
  | some j =>
    simp only [hn] at h
    injection h with h; injection h with h1 h2
    subst h1 h2
    simp [applySig, hn]

theorem apply_pDel {n : Nat} {d : List Int} {i : Int} {d' : List Int} {sig : Sig}
    (h : pDel n d i = .ok (d', sig)) : applySig d sig = some d' ∧ sig.name = n := by
  unfold pDel at h
  cases hn : normIdx d.length i with
  | none => simp [hn] at h
  | some j =>
    simp only [hn] at h
    injection h with h; injection h with h1 h2
    subst h1 h2
    simp [applySig, hn]

theorem apply_pSetSliceX {n : Nat} {d : List Int} {sl : Slc} {vs : List Int} {d' : List Int} {sig : Sig}
    (h : pSetSliceX n d sl vs = .ok (d', sig)) : applySig d sig = some d' ∧ sig.name = n := by
  unfold pSetSliceX at h
  cases hg : getSliceX d sl with
  | none => simp [hg] at h
  | some old =>
    cases hs : setSliceX d sl vs with
    | none => simp [hg, hs] at h
    | some d1 =>
      simp only [hg, hs] at h
      injection h with h; injection h with h1 h2
      subst h1 h2
      simp [applySig, hg, hs]

theorem apply_pDelSliceX {n : Nat} {d : List Int} {sl : Slc} {d' : List Int} {sig : Sig}
    (h : pDelSliceX n d sl = .ok (d', sig)) : applySig d sig = some d' ∧ sig.name = n := by
  unfold pDelSliceX at h
  cases hg : getSliceX d sl with
  | none => simp [hg] at h
  | some old =>
    cases hs : delSliceX d sl with
    | none => simp [hg, hs] at h
    | some d1 =>
      simp only [hg, hs] at h
      injection h with h; injection h with h1 h2
      subst h1 h2
      simp [applySig, hg, hs]

theorem apply_pSetSlice (n : Nat) (d : List Int) (a b : Int) (vs : List Int) :
    applySig d (pSetSlice n d a b vs).2 = some (pSetSlice n d a b vs).1 ∧ (pSetSlice n d a b vs).2.name = n := by
  simp [applySig, pSetSlice]

theorem apply_pDelSlice (n : Nat) (d : List Int) (a b : Int) :
    applySig d (pDelSlice n d a b).2 = some (pDelSlice n d a b).1 ∧ (pDelSlice n d a b).2.name = n := by
  simp [applySig, pDelSlice]

theorem apply_pInsert (n : Nat) (d : List Int) (i v : Int) :
    applySig d (pInsert n d i v).2 = some (pInsert n d i v).1 ∧ (pInsert n d i v).2.name = n := by
  simp [applySig, pInsert]

theorem apply_pAppend (n : Nat) (d : List Int) (v : Int) :
    applySig d (pAppend n d v).2 = some (pAppend n d v).1 ∧ (pAppend n d v).2.name = n := by
  simp [applySig, pAppend]


/-- a list of signals of the list `n` that transforms the copy `d0` into `d` -/
def Tracks (n : Nat) (d0 : List Int) (sigs : List Sig) (d : List Int) : Prop :=
  replay d0 sigs = some d ∧ ∀ sig ∈ sigs, sig.name = n

theorem Tracks.nil (n : Nat) (d : List Int) : Tracks n d [] d := ⟨rfl, by simp⟩

theorem Tracks.snoc {n : Nat} {d0 d d' : List Int} {sigs : List Sig} {x : Sig} (t : Tracks n d0 sigs d)
    (h : applySig d x = some d' ∧ x.name = n) : Tracks n d0 (sigs ++ [x]) d' := by
  refine ⟨by rw [replay_snoc t.1]; exact h.1, fun sig hs => ?_⟩
  rcases List.mem_append.mp hs with h' | h'
  · exact t.2 sig h'
  · simp at h'; rw [h']; exact h.2

theorem mExtend_tracks (n : Nat) (vs : List Int) {d0 d : List Int} {acc : List Sig} (t : Tracks n d0 acc d) :
    Tracks n d0 (vs.foldl (fun (acc : List Int × List Sig) v =>
        let (d', s) := pAppend n acc.1 v
        (d', acc.2 ++ [s])) (d, acc)).2
      (vs.foldl (fun (acc : List Int × List Sig) v =>
        let (d', s) := pAppend n acc.1 v
        (d', acc.2 ++ [s])) (d, acc)).1 := by
  induction vs generalizing d acc with
  | nil => exact t
  | cons v vs ih =>
    rw [List.foldl_cons]
    exact ih (t.snoc (apply_pAppend n d v))

theorem mReverse_tracks (n : Nat) (is : List Nat) {d0 d : List Int} {acc : List Sig} (t : Tracks n d0 acc d)
    (L : Nat) (hL : d.length = L) (his : ∀ i ∈ is, i < L / 2) :
    Tracks n d0 (is.foldl (fun (acc : List Int × List Sig) i =>
        let cur := acc.1
        let k := cur.length - i - 1
        let x := cur.getD k 0
        let y := cur.getD i 0
        let d1 := cur.set i x
        let s1 : Sig := ⟨n, .replace, .int y, .int x, .int i⟩
        let d2 := d1.set k y
        let s2 : Sig := ⟨n, .replace, .int (d1.getD k 0), .int y, .int k⟩
        (d2, acc.2 ++ [s1, s2])) (d, acc)).2
      (is.foldl (fun (acc : List Int × List Sig) i =>
        let cur := acc.1
        let k := cur.length - i - 1
        let x := cur.getD k 0
        let y := cur.getD i 0
        let d1 := cur.set i x
        let s1 : Sig := ⟨n, .replace, .int y, .int x, .int i⟩
        let d2 := d1.set k y
        let s2 : Sig := ⟨n, .replace, .int (d1.getD k 0), .int y, .int k⟩
        (d2, acc.2 ++ [s1, s2])) (d, acc)).1 := by
  induction is generalizing d acc with
  | nil => exact t
  | cons i is ih =>
    rw [List.foldl_cons]
    have hi : i < L / 2 := his i (by simp)
    have hiL : i < d.length := by omega
    have hkL : d.length - i - 1 < d.length := by omega
    apply ih
    · have t1 : Tracks n d0 (acc ++ [⟨n, .replace, .int (d.getD i 0), .int (d.getD (d.length - i - 1) 0), .int i⟩])
          (d.set i (d.getD (d.length - i - 1) 0)) :=
        t.snoc ⟨by simp [applySig, normIdx_nat hiL], rfl⟩
      have t2 := t1.snoc (x := ⟨n, .replace, .int ((d.set i (d.getD (d.length - i - 1) 0)).getD (d.length - i - 1) 0),
          .int (d.getD i 0), .int ((d.length - i - 1 : Nat) : Int)⟩)
        (d' := (d.set i (d.getD (d.length - i - 1) 0)).set (d.length - i - 1) (d.getD i 0))
        ⟨by simp [applySig, normIdx_nat hkL], rfl⟩
      simpa [List.append_assoc] using t2
    · simp [hL]
    · exact fun j hj => his j (by simp [hj])

theorem mClear_tracks (n : Nat) (f : Nat) {d0 d : List Int} {acc : List Sig} (t : Tracks n d0 acc d) :
    Tracks n d0 (mClear n f d acc).2 (mClear n f d acc).1 := by
  induction f generalizing d acc with
  | zero => exact t
  | succ f ih =>
    unfold mClear
    cases hp : pDel n d (-1) with
    | error e => exact t
    | ok res =>
      obtain ⟨d', sg⟩ := res
      exact ih (t.snoc (apply_pDel hp))

theorem listOp_tracks {n : Nat} {d : List Int} {op : Op} {d' : List Int} {sigs : List Sig}
    (h : listOp n d op = .ok (d', sigs)) : Tracks n d sigs d' := by
  cases op with
  | lset m i v =>
    simp only [listOp] at h
    cases hp : pSet n d i v with
    | error e => simp [hp, Except.map] at h
    | ok res =>
      obtain ⟨d1, sg⟩ := res
      simp only [hp, Except.map] at h
      injection h with h; injection h with h1 h2; subst h1 h2
      simpa using (Tracks.nil n d).snoc (apply_pSet hp)
  | lsetSlice m a b vs =>
    simp only [listOp] at h
    injection h with h; injection h with h1 h2; subst h1 h2
    simpa using (Tracks.nil n d).snoc (apply_pSetSlice n d a b vs)
  | ldel m i =>
    simp only [listOp] at h
    cases hp : pDel n d i with
    | error e => simp [hp, Except.map] at h
    | ok res =>
      obtain ⟨d1, sg⟩ := res
      simp only [hp, Except.map] at h
      injection h with h; injection h with h1 h2; subst h1 h2
      simpa using (Tracks.nil n d).snoc (apply_pDel hp)
  | ldelSlice m a b =>
    simp only [listOp] at h
    injection h with h; injection h with h1 h2; subst h1 h2
    simpa using (Tracks.nil n d).snoc (apply_pDelSlice n d a b)
  | linsert m i v =>
    simp only [listOp] at h
    injection h with h; injection h with h1 h2; subst h1 h2
    simpa using (Tracks.nil n d).snoc (apply_pInsert n d i v)
  | lappend m v =>
    simp only [listOp] at h
    injection h with h; injection h with h1 h2; subst h1 h2
    simpa using (Tracks.nil n d).snoc (apply_pAppend n d v)
  | lpop m i =>
    simp only [listOp, mPop] at h
    cases hn : normIdx d.length i with
    | none => simp [hn] at h
    | some j =>
      simp only [hn] at h
      cases hp : pDel n d i with
      | error e => simp [hp, Except.map] at h
      | ok res =>
        obtain ⟨d1, sg⟩ := res
        simp only [hp, Except.map] at h
        injection h with h; injection h with h1 h2; subst h1 h2
        simpa using (Tracks.nil n d).snoc (apply_pDel hp)
  | lremove m v =>
    simp only [listOp, mRemove] at h
    cases hn : d.idxOf? v with
    | none => simp [hn] at h
    | some j =>
      simp only [hn] at h
      cases hp : pDel n d (j : Int) with
      | error e => simp [hp, Except.map] at h
      | ok res =>
        obtain ⟨d1, sg⟩ := res
        simp only [hp, Except.map] at h
        injection h with h; injection h with h1 h2; subst h1 h2
        simpa using (Tracks.nil n d).snoc (apply_pDel hp)
  | lextend m vs =>
    simp only [listOp] at h
    injection h with h
    have := mExtend_tracks n vs (Tracks.nil n d)
    unfold mExtend at h
    rw [h] at this; exact this
  | liadd m vs =>
    simp only [listOp] at h
    have t := mExtend_tracks n vs (Tracks.nil n d)
    unfold mExtend at h
    generalize (vs.foldl _ (d, ([] : List Sig))) = r at h t
    obtain ⟨d1, ss⟩ := r
    simp only at h
    injection h with h; injection h with h1 h2; subst h1 h2
    exact t.snoc ⟨by simp [applySig], rfl⟩
  | lreverse m =>
    simp only [listOp] at h
    injection h with h
    have := mReverse_tracks n (List.range (d.length / 2)) (Tracks.nil n d) d.length rfl (by simp)
    unfold mReverse at h
    rw [h] at this; exact this
  | lclear m =>
    simp only [listOp] at h
    injection h with h
    have := mClear_tracks n (d.length + 1) (Tracks.nil n d)
    rw [h] at this; exact this
  | lsetSliceX m sl vs =>
    simp only [listOp] at h
    cases hp : pSetSliceX n d sl vs with
    | error e => simp [hp, Except.map] at h
    | ok res =>
      obtain ⟨d1, sg⟩ := res
      simp only [hp, Except.map] at h
      injection h with h; injection h with h1 h2; subst h1 h2
      simpa using (Tracks.nil n d).snoc (apply_pSetSliceX hp)
  | ldelSliceX m sl =>
    simp only [listOp] at h
    cases hp : pDelSliceX n d sl with
    | error e => simp [hp, Except.map] at h
    | ok res =>
      obtain ⟨d1, sg⟩ := res
      simp only [hp, Except.map] at h
      injection h with h; injection h with h1 h2; subst h1 h2
      simpa using (Tracks.nil n d).snoc (apply_pDelSliceX hp)
  | _ => simp [listOp] at h


/-! ### independence from the iteration order of the signal-type sets -/

/-- the same declarations up to the order in which each signal-type set is iterated -/
inductive SameSets : List Decl → List Decl → Prop
  | nil : SameSets [] []
  | cons {d d' : Decl} {l l' : List Decl} (h : d.name = d'.name ∧ d.kind = d'.kind ∧ d.types.Perm d'.types)
      (t : SameSets l l') : SameSets (d :: l) (d' :: l')

def St.withDecls (s : St) (ds : List Decl) : St := { s with reg := { s.reg with decls := ds } }

theorem sameSets_names {ds ds' : List Decl} (h : SameSets ds ds') : ds.map (·.name) = ds'.map (·.name) := by
  induction h with
  | nil => rfl
  | cons hd _ ih => simp [hd.1, ih]

theorem sameSets_types {ds ds' : List Decl} (h : SameSets ds ds') (n : Nat) (t : SigType) :
    t ∈ ((ds.find? (fun d => d.name == n)).map (·.types)).getD [] ↔
    t ∈ ((ds'.find? (fun d => d.name == n)).map (·.types)).getD [] := by
  induction h with
  | nil => simp
  | @cons d d' l l' hd _ ih =>
    by_cases hn : d.name = n
    · have hn' : d'.name = n := hd.1 ▸ hn
      simp [hn, hn', hd.2.2.mem_iff]
    · have hn' : ¬ d'.name = n := hd.1 ▸ hn
      simpa [List.find?_cons, hn, hn'] using ih

theorem sameSets_wf {ds ds' : List Decl} (h : SameSets ds ds') {H : Type} {r r' : Reg H} (hr : r.decls = ds)
    (hr' : r'.decls = ds') (w : r.WF) : r'.WF := by
  refine ⟨?_, ?_⟩
  · have := w.names
    simp only [Reg.names, hr, hr'] at this ⊢
    rwa [← sameSets_names h]
  · have := w.types
    rw [hr] at this; rw [hr']
    clear hr hr' w
    induction h with
    | nil => simp
    | @cons d d' l l' hd _ ih =>
      intro x hx
      rcases List.mem_cons.mp hx with rfl | hx
      · exact hd.2.2.nodup_iff.mp (this d (by simp))
      · exact ih (fun y hy => this y (by simp [hy])) x hx

theorem Reg.ext' {H : Type} {r r' : Reg H} (hd : r.decls = r'.decls) (hs : ∀ a ty, r.subs a ty = r'.subs a ty) :
    r = r' := by
  cases r; cases r'; simp only [Reg.mk.injEq]
  exact ⟨hd, funext fun a => funext fun ty => hs a ty⟩

theorem notify_withDecls (s : St) (ds : List Decl) (sig : Sig) :
    notify (s.withDecls ds) sig = ((notify s sig).1.withDecls ds, (notify s sig).2) := rfl

theorem notifyAll_withDecls (s : St) (ds : List Decl) (sigs : List Sig) :
    notifyAll (s.withDecls ds) sigs = ((notifyAll s sigs).1.withDecls ds, (notifyAll s sigs).2) := by
  unfold notifyAll
  suffices h : ∀ (acc : List (Nat × Sig)) (s : St),
      sigs.foldl (fun (acc : St × List (Nat × Sig)) sig =>
          match notify acc.1 sig with | (s', ds) => (s', acc.2 ++ ds)) (s.withDecls ds, acc) =
        ((sigs.foldl (fun (acc : St × List (Nat × Sig)) sig =>
          match notify acc.1 sig with | (s', ds) => (s', acc.2 ++ ds)) (s, acc)).1.withDecls ds,
         (sigs.foldl (fun (acc : St × List (Nat × Sig)) sig =>
          match notify acc.1 sig with | (s', ds) => (s', acc.2 ++ ds)) (s, acc)).2) from h [] s
  induction sigs with
  | nil => intro acc s; rfl
  | cons sig sigs ih =>
    intro acc s
    rw [List.foldl_cons, List.foldl_cons, notify_withDecls]
    exact ih _ _

theorem step_withDecls {ds ds' : List Decl} (h : SameSets ds ds') {s : St} (hd : s.reg.decls = ds) (w : s.reg.WF)
    (op : Op) : step (s.withDecls ds') op = ((step s op).1.withDecls ds', (step s op).2) := by
  have w' : (s.withDecls ds').reg.WF := sameSets_wf h hd rfl w
  have hnames : (s.withDecls ds').reg.names = s.reg.names := by
    simp only [Reg.names, St.withDecls, hd]; exact (sameSets_names h).symm
  have hemits : ∀ a ty, (s.withDecls ds').reg.emits a ty ↔ s.reg.emits a ty := by
    intro a ty
    simp only [Reg.emits, Reg.typesOf, St.withDecls, hd]
    exact (sameSets_types h a ty).symm
  have hvalid : ∀ n t, Reg.validObserve (s.withDecls ds').reg n t ↔ Reg.validObserve s.reg n t := by
    intro n t; simp only [Reg.validObserve, hnames, hemits]
  have htouch : ∀ n t a ty, Reg.touches (s.withDecls ds').reg n t a ty ↔ Reg.touches s.reg n t a ty := by
    intro n t a ty; simp only [Reg.touches, hnames, hemits]
  cases hl : op.listName with
  | some n =>
    rw [step_list hl, step_list hl]
    unfold stepList
    show (match s.lists n with | none => _ | some d => _) = _
    cases s.lists n with
    | none => rfl
    | some d =>
      simp only
      cases listOp n d op with
      | error e => rfl
      | ok res =>
        obtain ⟨d', sigs⟩ := res
        simp only [notifyAll_withDecls]
        rfl
  | none =>
    cases op with
    | observe n t x =>
      rcases Reg.observe_spec w n t x with ⟨hv, r, ho, hdecl, hs⟩ | ⟨hv, ho⟩
      · rcases Reg.observe_spec w' n t x with ⟨_, r', ho', hdecl', hs'⟩ | ⟨hv', _⟩
        · simp only [step, ho, ho']
          congr 1
          simp only [St.withDecls]
          congr 1
          refine Reg.ext' (r' := { decls := ds', subs := r.subs }) hdecl' (fun a ty => ?_)
          rw [hs' a ty, hs a ty]
          simp only [hemits]; rfl
        · exact absurd ((hvalid n t).mpr hv) hv'
      · rcases Reg.observe_spec w' n t x with ⟨hv', _⟩ | ⟨_, ho'⟩
        · exact absurd ((hvalid n t).mp hv') hv
        · simp only [step, ho, ho']
    | unobserve n t x =>
      have hal : (s.withDecls ds').alive = s.alive := rfl
      rcases Reg.unobserve_spec w s.alive n t x with ⟨hv, ho⟩ | ⟨hv, r, ho, hdecl, hs⟩
      · rcases Reg.unobserve_spec w' s.alive n t x with ⟨_, ho'⟩ | ⟨hv', _⟩
        · simp only [step, hal, ho, ho']
        · rw [hnames] at hv'; exact absurd hv hv'
      · rcases Reg.unobserve_spec w' s.alive n t x with ⟨hv', _⟩ | ⟨_, r', ho', hdecl', hs'⟩
        · rw [hnames] at hv'; exact absurd hv' hv
        · simp only [step, hal, ho, ho']
          congr 1
          simp only [St.withDecls]
          congr 1
          refine Reg.ext' (r' := { decls := ds', subs := r.subs }) hdecl' (fun a ty => ?_)
          rw [hs' a ty, hs a ty]
          simp only [htouch]; rfl
    | clear n => cases n <;> rfl
    | drop x => rfl
    | assign n v => rfl
    | lassign n vs => rfl
    | _ => simp [Op.listName] at hl

theorem step_decls {s : St} (w : s.reg.WF) (op : Op) : (step s op).1.reg.decls = s.reg.decls := by
  rcases step_kind s op with ⟨e, h, _⟩ | ⟨r, h, _, hop⟩ | ⟨x, hop, h⟩ | ⟨s1, p, h, hreg, hdead⟩
  · rw [h]
  · cases op with
    | observe n t x =>
      rcases Reg.observe_spec w n t x with ⟨_, r', ho, hdecl, _⟩ | ⟨_, ho⟩
      · simp only [step, ho]; exact hdecl
      · simp only [step, ho]
    | unobserve n t x =>
      rcases Reg.unobserve_spec w s.alive n t x with ⟨_, ho⟩ | ⟨_, r', ho, hdecl, _⟩
      · simp only [step, ho]
      · simp only [step, ho]; exact hdecl
    | clear n => cases n <;> rfl
    | _ => simp [Op.isRegistryOp] at hop
  · rw [h]
  · rw [hreg, p.decls]

theorem run_withDecls {ds ds' : List Decl} (h : SameSets ds ds') (ops : List Op) {s : St} (hd : s.reg.decls = ds)
    (w : s.reg.WF) : (run (s.withDecls ds') ops).2 = (run s ops).2 := by
  induction ops generalizing s with
  | nil => rfl
  | cons op ops ih =>
    rw [run_cons, run_cons, step_withDecls h hd w]
    have hd1 : (step s op).1.reg.decls = ds := (step_decls w op).trans hd
    simp only
    rw [ih hd1 (Reg.wf_of_decls (step_decls w op) w)]

end Mesa.Signals
