import MesaModel.Model.VizSize
import MesaModel.Proofs.VizLayers
/-!
Helper lemmas for the default-size part of C20 (`Model/VizSize.lean`): a second invariant of reachable spaces
(the cells are those the space was built with; agents of continuous spaces lie inside the bounds).
-/
namespace Mesa.Viz

structure Space.Sized (sp : Space) : Prop where
  cells : ∃ extra, sp.cells = initCells sp.fam sp.w sp.h extra
  inside : sp.fam.cellular = false → ∀ a ∈ sp.placed, ∃ l, a.location = some l ∧
    0 ≤ l.x ∧ l.x < sp.w ∧ 0 ≤ l.y ∧ l.y < sp.h

theorem init?_sized {fam w h extra sp} (hi : Space.init? fam w h extra = some sp) : sp.Sized := by
  unfold Space.init? at hi
  split at hi
  · injection hi with hi; subst hi
    exact ⟨⟨extra, rfl⟩, fun _ a ha => by simp at ha⟩
  · cases hi

theorem place_sized {sp sp' : Space} {a : Nat} {l : Loc} (hs : sp.Sized) (hp : sp.place a l = some sp') : sp'.Sized := by
  unfold Space.place at hp
  split at hp
  · cases hp
  · rename_i hc
    injection hp with hp; subst hp
    rw [Bool.or_eq_true, not_or] at hc
    have hval : sp.validLoc l = true := by simpa using hc.2
    refine ⟨hs.cells, fun hcell g hg => ?_⟩
    simp only [List.mem_append, List.mem_singleton] at hg
    rcases hg with hg | rfl
    · exact hs.inside hcell g hg
    · refine ⟨l, mkAgent_location _ _ _, ?_⟩
      unfold Space.validLoc at hval
      rw [if_neg (by simp [hcell])] at hval
      simp only [Bool.and_eq_true, decide_eq_true_eq] at hval
      obtain ⟨⟨⟨h1, h2⟩, h3⟩, h4⟩ := hval
      exact ⟨h1, h2, h3, h4⟩

theorem remove_sized {sp sp' : Space} {a : Nat} (hs : sp.Sized) (hp : sp.remove a = some sp') : sp'.Sized := by
  unfold Space.remove at hp
  split at hp
  · injection hp with hp; subst hp
    exact ⟨hs.cells, fun hcell g hg => hs.inside hcell g (List.mem_filter.mp hg).1⟩
  · cases hp

theorem move_sized {sp sp' : Space} {a : Nat} {l : Loc} (hs : sp.Sized) (hp : sp.move a l = some sp') : sp'.Sized := by
  unfold Space.move at hp
  split at hp
  · split at hp
    · cases hp
    · rename_i sp1 h1
      exact place_sized (remove_sized hs h1) hp
  · rename_i hcell
    split at hp
    · rename_i hc
      injection hp with hp; subst hp
      rw [Bool.and_eq_true] at hc
      have hval := hc.2
      refine ⟨hs.cells, fun hcell' g hg => ?_⟩
      rw [List.mem_map] at hg
      obtain ⟨g0, hg0, rfl⟩ := hg
      split
      · refine ⟨l, mkAgent_location _ _ _, ?_⟩
        unfold Space.validLoc at hval
        rw [if_neg hcell] at hval
        simp only [Bool.and_eq_true, decide_eq_true_eq] at hval
        obtain ⟨⟨⟨h1, h2⟩, h3⟩, h4⟩ := hval
        exact ⟨h1, h2, h3, h4⟩
      · exact hs.inside hcell' g0 hg0
    · cases hp

theorem reachable_sized {sp : Space} (h : Reachable sp) : sp.Sized := by
  induction h with
  | init hi => exact init?_sized hi
  | @step _ _ op _ ha ih =>
    cases op with
    | place a l => exact place_sized ih ha
    | move a l => exact move_sized ih ha
    | remove a => exact remove_sized ih ha

theorem mem_gridCells {w h : Nat} {l : Loc} (hl : l ∈ gridCells w h) : 0 < w ∧ 0 < h := by
  unfold gridCells at hl
  rw [List.mem_flatMap] at hl
  obtain ⟨x, hx, hl⟩ := hl
  rw [List.mem_map] at hl
  obtain ⟨y, hy, _⟩ := hl
  rw [List.mem_range] at hx hy
  omega

/-- a space of a grid or continuous class that holds an agent has a positive extent -/
theorem extent_pos {sp : Space} (h : Reachable sp) (hne : sp.placed ≠ [])
    (hf : sp.fam.isOrthogonal = true ∨ sp.fam.isHex = true ∨ sp.fam.cellular = false) :
    0 < max (sp.w : Int) (sp.h : Int) := by
  have hw := reachable_wf h
  have hs := reachable_sized h
  obtain ⟨a, ha⟩ := List.exists_mem_of_ne_nil _ hne
  by_cases hcell : sp.fam.cellular = true
  · obtain ⟨l, _, hl⟩ := hw.located a ha
    have hl := hl hcell
    obtain ⟨extra, hc⟩ := hs.cells
    have hgrid : initCells sp.fam sp.w sp.h extra = gridCells sp.w sp.h := by
      rcases hf with hf | hf | hf
      · cases hfam : sp.fam <;> simp [hfam, Family.isOrthogonal] at hf <;> rfl
      · cases hfam : sp.fam <;> simp [hfam, Family.isHex] at hf <;> rfl
      · rw [hf] at hcell; cases hcell
    rw [hc, hgrid] at hl
    have := mem_gridCells hl
    omega
  · have hcell' : sp.fam.cellular = false := by simpa using hcell
    obtain ⟨l, _, h1, h2, h3, h4⟩ := hs.inside hcell' a ha
    omega

/-- a space of a class Altair supports (grids, `mesa.space.ContinuousSpace`) that holds an agent has width and height > 0 -/
theorem min_pos_of_placed {sp : Space} (h : Reachable sp) (hsup : altairSupported sp.fam = true) (hne : sp.placed ≠ []) :
    min sp.w sp.h ≠ 0 := by
  have hw := reachable_wf h
  have hs := reachable_sized h
  obtain ⟨a, ha⟩ := List.exists_mem_of_ne_nil _ hne
  by_cases hcell : sp.fam.cellular = true
  · obtain ⟨l, _, hl⟩ := hw.located a ha
    have hl := hl hcell
    obtain ⟨extra, hc⟩ := hs.cells
    have hgrid : initCells sp.fam sp.w sp.h extra = gridCells sp.w sp.h := by
      cases hfam : sp.fam <;> simp [hfam, altairSupported, Family.cellular] at hsup hcell <;> rfl
    rw [hc, hgrid] at hl
    have := mem_gridCells hl
    omega
  · have hcell' : sp.fam.cellular = false := by simpa using hcell
    obtain ⟨l, _, h1, h2, h3, h4⟩ := hs.inside hcell' a ha
    omega

theorem spread_pos_of_mem {xs : List Int} {a b : Int} (ha : a ∈ xs) (hb : b ∈ xs) (hab : a < b) : 0 < spread xs := by
  unfold spread
  cases h1 : minOf xs with
  | none => cases xs <;> simp [minOf] at h1 ha
  | some lo =>
    cases h2 : maxOf xs with
    | none => cases xs <;> simp [maxOf] at h2 ha
    | some hi =>
      have := (minOf_spec h1).2 a ha
      have := (maxOf_spec h2).2 b hb
      simp only
      omega

theorem spread_nonneg (xs : List Int) : 0 ≤ spread xs := by
  unfold spread
  cases h1 : minOf xs with
  | none => simp
  | some lo =>
    cases h2 : maxOf xs with
    | none => simp
    | some hi =>
      have hm := (minOf_spec h1)
      have := (maxOf_spec h2).2 lo hm.1
      simp only
      omega

/-- two distinct points span a bounding box with a positive side -/
theorem bbox_pos {cells : List Loc} (hnd : cells.Nodup) (hlen : 2 ≤ cells.length) :
    0 < max (spread (cells.map (·.x))) (spread (cells.map (·.y))) := by
  match cells, hnd, hlen with
  | c1 :: c2 :: rest, hnd, _ =>
    have hne : c1 ≠ c2 := by
      intro e
      rw [List.nodup_cons] at hnd
      exact hnd.1 (e ▸ List.mem_cons_self)
    have hx := spread_nonneg ((c1 :: c2 :: rest).map (·.x))
    have hy := spread_nonneg ((c1 :: c2 :: rest).map (·.y))
    have m1x : c1.x ∈ (c1 :: c2 :: rest).map (·.x) := List.mem_map.mpr ⟨c1, List.mem_cons_self, rfl⟩
    have m2x : c2.x ∈ (c1 :: c2 :: rest).map (·.x) := List.mem_map.mpr ⟨c2, List.mem_cons_of_mem _ List.mem_cons_self, rfl⟩
    have m1y : c1.y ∈ (c1 :: c2 :: rest).map (·.y) := List.mem_map.mpr ⟨c1, List.mem_cons_self, rfl⟩
    have m2y : c2.y ∈ (c1 :: c2 :: rest).map (·.y) := List.mem_map.mpr ⟨c2, List.mem_cons_of_mem _ List.mem_cons_self, rfl⟩
    by_cases hxe : c1.x = c2.x
    · have hye : c1.y ≠ c2.y := by
        intro e
        apply hne
        cases c1; cases c2; simp_all
      rcases Int.lt_or_gt_of_ne hye with hlt | hlt
      · have := spread_pos_of_mem m1y m2y hlt; omega
      · have := spread_pos_of_mem m2y m1y hlt; omega
    · rcases Int.lt_or_gt_of_ne hxe with hlt | hlt
      · have := spread_pos_of_mem m1x m2x hlt; omega
      · have := spread_pos_of_mem m2x m1x hlt; omega

end Mesa.Viz
