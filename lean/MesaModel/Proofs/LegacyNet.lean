import MesaModel.Proofs.LegacyDefs
/-!
`NetworkGrid.get_neighborhood` (C09, network part): the r-fold expansion `ball` is exactly "within r
hops", `netNbhd` returns exactly those nodes (centre by flag) without duplicates, and the adjacency
lists of a simple edge list are symmetric, loop-free and duplicate-free.
-/
namespace Mesa.Legacy

/-! ### `ninsert`, `expand`, `ball` -/

theorem mem_ninsert (x y : Nat) (l : List Nat) : y ∈ ninsert x l ↔ y = x ∨ y ∈ l := by
  unfold ninsert
  split
  · rename_i hx
    constructor
    · exact Or.inr
    · rintro (rfl | h)
      · exact hx
      · exact h
  · simp [or_comm]

theorem nodup_ninsert (x : Nat) (l : List Nat) (h : l.Nodup) : (ninsert x l).Nodup := by
  unfold ninsert
  split
  · exact h
  · rename_i hx
    rw [List.nodup_append]
    refine ⟨h, by simp, ?_⟩
    intro a ha b hb
    simp only [List.mem_singleton] at hb
    subst hb
    intro e
    subst e
    exact hx ha

theorem mem_foldl_ninsert (xs : List Nat) (acc : List Nat) (y : Nat) :
    y ∈ xs.foldl (fun acc v => ninsert v acc) acc ↔ y ∈ acc ∨ y ∈ xs := by
  induction xs generalizing acc with
  | nil => simp
  | cons x xs ih =>
    simp only [List.foldl_cons, ih, mem_ninsert, List.mem_cons]
    constructor
    · rintro ((h | h) | h)
      · exact Or.inr (Or.inl h)
      · exact Or.inl h
      · exact Or.inr (Or.inr h)
    · rintro (h | h | h)
      · exact Or.inl (Or.inr h)
      · exact Or.inl (Or.inl h)
      · exact Or.inr h

theorem nodup_foldl_ninsert (xs : List Nat) (acc : List Nat) (h : acc.Nodup) :
    (xs.foldl (fun acc v => ninsert v acc) acc).Nodup := by
  induction xs generalizing acc with
  | nil => simpa using h
  | cons x xs ih =>
    simp only [List.foldl_cons]
    exact ih _ (nodup_ninsert x acc h)

theorem mem_foldl_expand (adj : Nat → List Nat) (s : List Nat) (acc : List Nat) (y : Nat) :
    y ∈ s.foldl (fun acc u => (adj u).foldl (fun acc v => ninsert v acc) acc) acc ↔
      y ∈ acc ∨ ∃ u ∈ s, y ∈ adj u := by
  induction s generalizing acc with
  | nil => simp
  | cons x xs ih =>
    simp only [List.foldl_cons, ih, mem_foldl_ninsert, List.mem_cons]
    constructor
    · rintro ((h | h) | ⟨u, hu, h⟩)
      · exact Or.inl h
      · exact Or.inr ⟨x, Or.inl rfl, h⟩
      · exact Or.inr ⟨u, Or.inr hu, h⟩
    · rintro (h | ⟨u, rfl | hu, h⟩)
      · exact Or.inl (Or.inl h)
      · exact Or.inl (Or.inr h)
      · exact Or.inr ⟨u, hu, h⟩

theorem nodup_foldl_expand (adj : Nat → List Nat) (s : List Nat) (acc : List Nat) (h : acc.Nodup) :
    (s.foldl (fun acc u => (adj u).foldl (fun acc v => ninsert v acc) acc) acc).Nodup := by
  induction s generalizing acc with
  | nil => simpa using h
  | cons x xs ih =>
    simp only [List.foldl_cons]
    exact ih _ (nodup_foldl_ninsert _ _ h)

theorem mem_expand (adj : Nat → List Nat) (s : List Nat) (y : Nat) :
    y ∈ expand adj s ↔ y ∈ s ∨ ∃ u ∈ s, y ∈ adj u := by
  unfold expand
  exact mem_foldl_expand adj s s y

theorem nodup_expand (adj : Nat → List Nat) (s : List Nat) (h : s.Nodup) : (expand adj s).Nodup := by
  unfold expand
  exact nodup_foldl_expand adj s s h

theorem ball_spec (adj : Nat → List Nat) (r v u : Nat) : u ∈ ball adj r v ↔ Reach adj r v u := by
  induction r generalizing u with
  | zero => simp [ball, Reach]
  | succ r ih =>
    simp only [ball, Reach, mem_expand]
    constructor
    · rintro (h | ⟨m, hm, h⟩)
      · exact Or.inl ((ih u).mp h)
      · exact Or.inr ⟨m, (ih m).mp hm, h⟩
    · rintro (h | ⟨m, hm, h⟩)
      · exact Or.inl ((ih u).mpr h)
      · exact Or.inr ⟨m, (ih m).mpr hm, h⟩

theorem ball_nodup (adj : Nat → List Nat) (r v : Nat) : (ball adj r v).Nodup := by
  induction r with
  | zero => simp [ball]
  | succ r ih =>
    simp only [ball]
    exact nodup_expand adj _ ih

/-! ### `netNbhd` -/

theorem reach_self {α : Type} (nb : α → List α) (r : Nat) (a : α) : Reach nb r a a := by
  induction r with
  | zero => rfl
  | succ r ih => exact Or.inl ih

theorem reach_one (adj : Nat → List Nat) (v u : Nat) : Reach adj 1 v u ↔ u = v ∨ u ∈ adj v := by
  simp only [Reach]
  constructor
  · rintro (h | ⟨m, rfl, h⟩)
    · exact Or.inl h
    · exact Or.inr h
  · rintro (h | h)
    · exact Or.inl h
    · exact Or.inr ⟨v, rfl, h⟩

theorem network_spec (adj : Nat → List Nat) (within : Nat → Nat → List Nat)
    (hspec : ∀ v r u, u ∈ within v r ↔ Reach adj r v u) (hnd : ∀ v r, (within v r).Nodup)
    (hloop : ∀ v, v ∉ adj v) (v : Nat) (ic : Bool) (r : Nat) (u : Nat) :
    u ∈ netNbhd adj within v ic r ↔ (u = v → ic = true) ∧ (u ≠ v → Reach adj r v u) := by
  unfold netNbhd
  by_cases hr : r = 1
  · subst hr
    simp only [if_true]
    cases ic with
    | true =>
      simp only [if_true, List.mem_append, List.mem_singleton, reach_one]
      constructor
      · rintro (h | h)
        · exact ⟨fun _ => trivial, fun _ => Or.inr h⟩
        · exact ⟨fun _ => trivial, fun hne => absurd h hne⟩
      · rintro ⟨_, h⟩
        by_cases e : u = v
        · exact Or.inr e
        · rcases h e with h | h
          · exact absurd h e
          · exact Or.inl h
    | false =>
      simp only [Bool.false_eq_true, if_false, reach_one]
      constructor
      · intro h
        refine ⟨?_, fun _ => Or.inr h⟩
        intro e
        subst e
        exact absurd h (hloop u)
      · rintro ⟨h1, h2⟩
        by_cases e : u = v
        · exact absurd (h1 e) (by simp)
        · rcases h2 e with h | h
          · exact absurd h e
          · exact h
  · simp only [if_neg hr, List.mem_mergeSort]
    cases ic with
    | true =>
      simp only [if_true, hspec]
      constructor
      · intro h
        exact ⟨fun _ => trivial, fun _ => h⟩
      · rintro ⟨_, h⟩
        by_cases e : u = v
        · subst e
          exact reach_self adj r u
        · exact h e
    | false =>
      simp only [Bool.false_eq_true, if_false, (hnd v r).mem_erase_iff, hspec]
      constructor
      · rintro ⟨h1, h2⟩
        exact ⟨fun e => absurd e h1, fun _ => h2⟩
      · rintro ⟨h1, h2⟩
        by_cases e : u = v
        · exact absurd (h1 e) (by simp)
        · exact ⟨e, h2 e⟩

theorem network_nodup (adj : Nat → List Nat) (within : Nat → Nat → List Nat)
    (hnd : ∀ v r, (within v r).Nodup) (hadj : ∀ v, (adj v).Nodup) (hloop : ∀ v, v ∉ adj v)
    (v : Nat) (ic : Bool) (r : Nat) : (netNbhd adj within v ic r).Nodup := by
  unfold netNbhd
  by_cases hr : r = 1
  · simp only [if_pos hr]
    cases ic with
    | true =>
      simp only [if_true]
      rw [List.nodup_append]
      refine ⟨hadj v, by simp, ?_⟩
      intro a ha b hb
      simp only [List.mem_singleton] at hb
      subst hb
      intro e
      subst e
      exact hloop a ha
    | false => simpa using hadj v
  · simp only [if_neg hr]
    rw [(List.mergeSort_perm _ _).nodup_iff]
    cases ic with
    | true => simpa using hnd v r
    | false => simpa using (hnd v r).erase v

/-! ### adjacency lists of a simple edge list -/

/-- an edge list of a simple undirected graph: no self-loops, no edge twice (in either orientation) -/
def SimpleEdges (es : List (Nat × Nat)) : Prop :=
  (∀ e ∈ es, e.1 ≠ e.2) ∧ es.Pairwise (fun e f => ¬ (e = f ∨ (e.1 = f.2 ∧ e.2 = f.1)))

theorem mem_adjOf (es : List (Nat × Nat)) (u v : Nat) :
    u ∈ adjOf es v ↔ ∃ e ∈ es, (e.1 = v ∧ e.2 = u) ∨ (e.1 ≠ v ∧ e.2 = v ∧ e.1 = u) := by
  unfold adjOf
  simp only [List.mem_filterMap]
  constructor
  · rintro ⟨e, he, h⟩
    refine ⟨e, he, ?_⟩
    split at h
    · rename_i h1
      exact Or.inl ⟨h1, by simpa using h⟩
    · rename_i h1
      split at h
      · rename_i h2
        exact Or.inr ⟨h1, h2, by simpa using h⟩
      · simp at h
  · rintro ⟨e, he, h⟩
    refine ⟨e, he, ?_⟩
    rcases h with ⟨h1, h2⟩ | ⟨h1, h2, h3⟩
    · rw [if_pos h1, h2]
    · rw [if_neg h1, if_pos h2, h3]

theorem adjOf_noloop (es : List (Nat × Nat)) (h : SimpleEdges es) (v : Nat) : v ∉ adjOf es v := by
  rw [mem_adjOf]
  rintro ⟨e, he, h1 | h1⟩
  · exact h.1 e he (h1.1.trans h1.2.symm)
  · exact h1.1 h1.2.2

theorem adjOf_nodup (es : List (Nat × Nat)) (h : SimpleEdges es) (v : Nat) : (adjOf es v).Nodup := by
  obtain ⟨h1, h2⟩ := h
  induction es with
  | nil => simp [adjOf]
  | cons e es ih =>
    rw [List.pairwise_cons] at h2
    have ih' := ih (fun f hf => h1 f (List.mem_cons_of_mem _ hf)) h2.2
    have hcons : adjOf (e :: es) v =
        (match (if e.1 = v then some e.2 else if e.2 = v then some e.1 else none) with
          | some x => x :: adjOf es v
          | none => adjOf es v) := by
      unfold adjOf
      rw [List.filterMap_cons]
      split <;> simp_all
    rw [hcons]
    have key : ∀ x, (e.1 = v ∧ e.2 = x) ∨ (e.2 = v ∧ e.1 = x) → x ∉ adjOf es v := by
      intro x hx hmem
      rw [mem_adjOf] at hmem
      obtain ⟨f, hf, hfx⟩ := hmem
      apply h2.1 f hf
      rcases hx with ⟨a, b⟩ | ⟨a, b⟩ <;> rcases hfx with ⟨c, d⟩ | ⟨_, c, d⟩
      · exact Or.inl (Prod.ext (a.trans c.symm) (b.trans d.symm))
      · exact Or.inr ⟨a.trans c.symm, b.trans d.symm⟩
      · exact Or.inr ⟨b.trans d.symm, a.trans c.symm⟩
      · exact Or.inl (Prod.ext (b.trans d.symm) (a.trans c.symm))
    by_cases c1 : e.1 = v
    · simp only [if_pos c1]
      exact List.nodup_cons.mpr ⟨key _ (Or.inl ⟨c1, rfl⟩), ih'⟩
    · by_cases c2 : e.2 = v
      · simp only [if_neg c1, if_pos c2]
        exact List.nodup_cons.mpr ⟨key _ (Or.inr ⟨c2, rfl⟩), ih'⟩
      · simp only [if_neg c1, if_neg c2]
        exact ih'

theorem adjOf_symm (es : List (Nat × Nat)) (u v : Nat) : u ∈ adjOf es v ↔ v ∈ adjOf es u := by
  have key : ∀ a b, a ∈ adjOf es b → b ∈ adjOf es a := by
    intro a b
    simp only [mem_adjOf]
    rintro ⟨e, he, h⟩
    refine ⟨e, he, ?_⟩
    rcases h with ⟨h1, h2⟩ | ⟨h1, h2, h3⟩
    · by_cases c : e.1 = a
      · exact Or.inl ⟨c, by rw [h2, ← c, h1]⟩
      · exact Or.inr ⟨c, h2, h1⟩
    · exact Or.inl ⟨h3, h2⟩
  exact ⟨key u v, key v u⟩

/-- `NetworkGrid.get_neighborhood` on a simple graph: exactly the nodes within r hops, centre by flag, no duplicates -/
theorem net_nbhd_spec (t : Net) (hs : SimpleEdges t.edges) (v : Nat) (ic : Bool) (r : Nat) :
    (t.nbhd v ic r).Nodup ∧ ∀ u, u ∈ t.nbhd v ic r ↔ (u = v → ic = true) ∧ (u ≠ v → Reach (adjOf t.edges) r v u) := by
  unfold Net.nbhd
  refine ⟨?_, ?_⟩
  · exact network_nodup _ _ (fun v r => ball_nodup _ r v) (adjOf_nodup _ hs) (adjOf_noloop _ hs) v ic r
  · intro u
    exact network_spec _ _ (fun v r u => ball_spec _ r v u) (fun v r => ball_nodup _ r v) (adjOf_noloop _ hs) v ic r u

end Mesa.Legacy
