import MesaModel.Model.Computed
import MesaModel.Proofs.Signals
/-!
Helper lemmas for C17: the invariant of the Computed machinery and its preservation.
-/
namespace Mesa.Computed
open Mesa.Signals

/-! ### state projections -/

@[simp] theorem setComp_same (s : St) (c : Nat) (x : Comp) : (s.setComp c x).comps c = some x := by
  simp [St.setComp]
theorem setComp_ne (s : St) {c c' : Nat} (x : Comp) (h : c' ≠ c) : (s.setComp c x).comps c' = s.comps c' := by
  simp [St.setComp, h]
@[simp] theorem setComp_regs (s : St) (c x) : (s.setComp c x).regs = s.regs := rfl
@[simp] theorem setComp_store (s : St) (c x) : (s.setComp c x).store = s.store := rfl
@[simp] theorem setComp_cur (s : St) (c x) : (s.setComp c x).cur = s.cur := rfl
@[simp] theorem setComp_dead (s : St) (c x) : (s.setComp c x).dead = s.dead := rfl
@[simp] theorem setComp_progs (s : St) (c x) : (s.setComp c x).progs = s.progs := rfl
@[simp] theorem setComp_proc (s : St) (c x) : (s.setComp c x).proc = s.proc := rfl
@[simp] theorem setComp_log (s : St) (c x) : (s.setComp c x).log = s.log := rfl
@[simp] theorem setReg_same (s : St) (o : Nat) (r : Reg Sub) : (s.setReg o r).regs o = r := by simp [St.setReg]
theorem setReg_ne (s : St) {o o' : Nat} (r : Reg Sub) (h : o' ≠ o) : (s.setReg o r).regs o' = s.regs o' := by
  simp [St.setReg, h]
@[simp] theorem setReg_comps (s : St) (o r) : (s.setReg o r).comps = s.comps := rfl
@[simp] theorem setReg_store (s : St) (o r) : (s.setReg o r).store = s.store := rfl
@[simp] theorem setReg_cur (s : St) (o r) : (s.setReg o r).cur = s.cur := rfl
@[simp] theorem setReg_dead (s : St) (o r) : (s.setReg o r).dead = s.dead := rfl
@[simp] theorem setReg_progs (s : St) (o r) : (s.setReg o r).progs = s.progs := rfl
@[simp] theorem setReg_proc (s : St) (o r) : (s.setReg o r).proc = s.proc := rfl
@[simp] theorem setReg_log (s : St) (o r) : (s.setReg o r).log = s.log := rfl

@[simp] theorem setComp_depth (s : St) (c x) : (s.setComp c x).depth = s.depth := rfl
@[simp] theorem setReg_depth (s : St) (o r) : (s.setReg o r).depth = s.depth := rfl
@[simp] theorem leave_comps (sv : Option Nat) (s : St) : (leave sv s).comps = s.comps := rfl
@[simp] theorem leave_regs (sv : Option Nat) (s : St) : (leave sv s).regs = s.regs := rfl
@[simp] theorem leave_store (sv : Option Nat) (s : St) : (leave sv s).store = s.store := rfl
@[simp] theorem leave_cur (sv : Option Nat) (s : St) : (leave sv s).cur = sv := rfl
@[simp] theorem leave_dead (sv : Option Nat) (s : St) : (leave sv s).dead = s.dead := rfl
@[simp] theorem leave_progs (sv : Option Nat) (s : St) : (leave sv s).progs = s.progs := rfl
@[simp] theorem leave_log (sv : Option Nat) (s : St) : (leave sv s).log = s.log := rfl
@[simp] theorem leave_depth (sv : Option Nat) (s : St) : (leave sv s).depth = s.depth - 1 := rfl

@[simp] theorem alive_dirty (s : St) (c : Nat) : s.alive (.dirty c) = true := rfl

/-! ### the registry of an owner whose observables all emit just `change` -/

/-- every declared name is an Observable or a Computable: its signal-type set is `{change}` -/
structure RegOK (r : Reg Sub) : Prop where
  names : r.names.Nodup
  types : ∀ d ∈ r.decls, d.types = [.change]

theorem RegOK.wf {r : Reg Sub} (h : RegOK r) : r.WF :=
  ⟨h.names, fun d hd => by rw [h.types d hd]; simp⟩

theorem RegOK.of_decls {r r' : Reg Sub} (hd : r'.decls = r.decls) (h : RegOK r) : RegOK r' :=
  ⟨by rw [Reg.names_of_decls hd]; exact h.names, by rw [hd]; exact h.types⟩

theorem RegOK.emits {r : Reg Sub} (h : RegOK r) (n : Nat) (t : SigType) :
    r.emits n t ↔ n ∈ r.names ∧ t = .change := by
  unfold Reg.emits Reg.typesOf
  cases hf : r.decls.find? (fun d => d.name == n) with
  | none =>
    have : n ∉ r.names := by
      intro hn
      have := Reg.typesOf_isSome.mpr hn
      simp [Reg.typesOf, hf] at this
    simp [this]
  | some d =>
    have hd := List.mem_of_find?_eq_some hf
    have hn : d.name = n := by simpa using List.find?_some hf
    have : n ∈ r.names := by
      unfold Reg.names; exact List.mem_map.mpr ⟨d, hd, hn⟩
    simp [h.types d hd, this]

/-- `parent.observe(name, All(), handler)` on such an owner: one more entry in the `change` list of `name` -/
theorem observe_one_all {r : Reg Sub} (ok : RegOK r) (n : Nat) (h : Sub) :
    (n ∈ r.names ∧ ∃ r', r.observe (.one n) .all h = .ok r' ∧ r'.decls = r.decls ∧
      ∀ a ty, r'.subs a ty = if a = n ∧ ty = .change then r.subs a ty ++ [h] else r.subs a ty) ∨
    (n ∉ r.names ∧ r.observe (.one n) .all h = .error .value) := by
  rcases Reg.observe_spec ok.wf (.one n) .all h with ⟨hv, r', ho, hd, hs⟩ | ⟨hv, ho⟩
  · left
    have hn : n ∈ r.names := hv.1 n rfl
    refine ⟨hn, r', ho, hd, fun a ty => ?_⟩
    rw [hs a ty]
    simp only [Sel.matches, decide_eq_true_eq, ok.emits, true_and]
    by_cases ha : a = n
    · subst ha; simp [hn]
    · have : ¬ n = a := fun e => ha e.symm
      simp [ha, this]
  · right
    refine ⟨fun hn => hv ⟨fun a ha => by cases ha; exact hn, fun ty hty => by cases hty⟩, ho⟩

/-- `parent.unobserve(All(), All(), handler)`: the handler (and dead references) leave every list -/
theorem unobserve_all_all {r : Reg Sub} (ok : RegOK r) (alive : Sub → Bool) (h : Sub) :
    ∃ r', r.unobserve alive .all .all h = .ok r' ∧ r'.decls = r.decls ∧
      ∀ a ty, r'.subs a ty = if a ∈ r.names ∧ ty = .change then Reg.keep alive h (r.subs a ty) else r.subs a ty := by
  rcases Reg.unobserve_spec ok.wf alive .all .all h with ⟨⟨a, ha, _⟩, _⟩ | ⟨_, r', ho, hd, hs⟩
  · cases ha
  · refine ⟨r', ho, hd, fun a ty => ?_⟩
    rw [hs a ty]
    simp only [Reg.touches, Sel.matches, ok.emits, true_and, forall_const]
    by_cases ha : a ∈ r.names <;> simp [ha]


/-! ### the remembered parents (flattened dict of dicts) -/

theorem mem_insertAfterGroup (own : PRef → Nat) (o : Nat) (e x : PRef × V) (ps : List (PRef × V)) :
    x ∈ insertAfterGroup own o e ps ↔ x = e ∨ x ∈ ps := by
  induction ps with
  | nil => simp [insertAfterGroup]
  | cons y rest ih =>
    unfold insertAfterGroup
    split
    · simp only [List.mem_cons]
      constructor
      · rintro (h | h | h)
        · exact Or.inr (Or.inl h)
        · exact Or.inl h
        · exact Or.inr (Or.inr h)
      · rintro (h | h | h)
        · exact Or.inr (Or.inl h)
        · exact Or.inl h
        · exact Or.inr (Or.inr h)
    · simp only [List.mem_cons, ih]
      constructor
      · rintro (h | h | h)
        · exact Or.inr (Or.inl h)
        · exact Or.inl h
        · exact Or.inr (Or.inr h)
      · rintro (h | h | h)
        · exact Or.inr (Or.inl h)
        · exact Or.inl h
        · exact Or.inr (Or.inr h)

/-- membership after `parents[owner][name] = value` -/
theorem mem_insertParent (own : PRef → Nat) (r : PRef) (v : V) (ps : List (PRef × V)) (x : PRef × V) :
    x ∈ insertParent own r v ps ↔ x = (r, v) ∨ (x ∈ ps ∧ x.1 ≠ r) := by
  unfold insertParent
  split
  · rename_i hany
    simp only [List.mem_map]
    constructor
    · rintro ⟨e, he, hx⟩
      by_cases her : e.1 = r
      · simp only [her, if_true] at hx; exact Or.inl hx.symm
      · simp only [her, if_false] at hx; subst hx; exact Or.inr ⟨he, her⟩
    · rintro (h | ⟨h, hne⟩)
      · obtain ⟨e, he, her⟩ := List.any_eq_true.mp hany
        simp only [decide_eq_true_eq] at her
        exact ⟨e, he, by simp [her, h]⟩
      · exact ⟨x, h, by simp [hne]⟩
  · rename_i hany
    rw [mem_insertAfterGroup]
    have hnone : ∀ e ∈ ps, e.1 ≠ r := by
      intro e he her
      exact hany (List.any_eq_true.mpr ⟨e, he, by simp [her]⟩)
    constructor
    · rintro (h | h)
      · exact Or.inl h
      · exact Or.inr ⟨h, hnone x h⟩
    · rintro (h | ⟨h, _⟩)
      · exact Or.inl h
      · exact Or.inr h

/-- if the remembered value of `r` (if any) is already `v`, the assignment just adds the pair -/
theorem mem_insertParent_consistent (own : PRef → Nat) (r : PRef) (v : V) (ps : List (PRef × V))
    (hc : ∀ e ∈ ps, e.1 = r → e.2 = v) (x : PRef × V) :
    x ∈ insertParent own r v ps ↔ x = (r, v) ∨ x ∈ ps := by
  rw [mem_insertParent]
  constructor
  · rintro (h | ⟨h, _⟩)
    · exact Or.inl h
    · exact Or.inr h
  · rintro (h | h)
    · exact Or.inl h
    · by_cases hx : x.1 = r
      · left
        have := hc x h hx
        cases x; simp only at hx this; subst hx this; rfl
      · exact Or.inr ⟨h, hx⟩

/-! ### static well-formedness -/

/-- a function that only reads -/
inductive Pure : Tree → Prop
  | ret (v : V) : Pure (.ret v)
  | read (k : Key) (cont : V → Tree) (h : ∀ x, Pure (cont x)) : Pure (.read k cont)
  | readC (c : Nat) (cont : V → Tree) (h : ∀ x, Pure (cont x)) : Pure (.readC c cont)
  | fail : Pure .fail

/-- every Computable the function may read was defined before `b` (has a smaller index) -/
inductive Ranked (b : Nat) : Tree → Prop
  | ret (v : V) : Ranked b (.ret v)
  | read (k : Key) (cont : V → Tree) (h : ∀ x, Ranked b (cont x)) : Ranked b (.read k cont)
  | readC (c : Nat) (cont : V → Tree) (hc : c < b) (h : ∀ x, Ranked b (cont x)) : Ranked b (.readC c cont)
  | write (k : Key) (v : V) (t : Tree) (h : Ranked b t) : Ranked b (.write k v t)
  | fail : Ranked b .fail

/-- the keys a function reads as plain Observables satisfy `ok` (they are not Computable slots) -/
inductive ObsKeys (ok : Key → Prop) : Tree → Prop
  | ret (v : V) : ObsKeys ok (.ret v)
  | read (k : Key) (cont : V → Tree) (hk : ok k) (h : ∀ x, ObsKeys ok (cont x)) : ObsKeys ok (.read k cont)
  | readC (c : Nat) (cont : V → Tree) (h : ∀ x, ObsKeys ok (cont x)) : ObsKeys ok (.readC c cont)
  | write (k : Key) (v : V) (t : Tree) (h : ObsKeys ok t) : ObsKeys ok (.write k v t)
  | fail : ObsKeys ok .fail

/-- `k` is the attribute slot of some defined Computable -/
def St.isSlot (s : St) (k : Key) : Prop := ∃ c x, s.comps c = some x ∧ (x.owner, x.name) = k

/-- the declared kind of the attribute `k` (Observable or Computable) -/
def St.kindAt (s : St) (k : Key) : Option Kind :=
  ((s.regs k.1).decls.find? (fun d => d.name == k.2)).map (·.kind)

structure Stat (s : St) : Prop where
  regs : ∀ o, RegOK (s.regs o)
  pure : ∀ c x, s.comps c = some x → Pure x.tree
  ranked : ∀ c x, s.comps c = some x → Ranked c x.tree
  obsKind : ∀ c x, s.comps c = some x → ObsKeys (fun k => s.kindAt k = some .obs) x.tree
  slotKind : ∀ c x, s.comps c = some x → s.kindAt (x.owner, x.name) = some .comp
  slots : ∀ c c' x x', s.comps c = some x → s.comps c' = some x' → x.owner = x'.owner → x.name = x'.name → c = c'

/-- nothing static changed: handler programs, declarations, and owner / name / function of every Computed -/
structure StaticEq (s s' : St) : Prop where
  progs : s'.progs = s.progs
  decls : ∀ o, (s'.regs o).decls = (s.regs o).decls
  comps : ∀ c, (s'.comps c = none ↔ s.comps c = none) ∧
    ∀ x x', s.comps c = some x → s'.comps c = some x' → x'.owner = x.owner ∧ x'.name = x.name ∧ x'.tree = x.tree

theorem StaticEq.refl (s : St) : StaticEq s s :=
  ⟨rfl, fun _ => rfl, fun c => ⟨Iff.rfl, fun x x' h h' => by rw [h] at h'; cases h'; exact ⟨rfl, rfl, rfl⟩⟩⟩

theorem StaticEq.trans {s s' s'' : St} (a : StaticEq s s') (b : StaticEq s' s'') : StaticEq s s'' := by
  refine ⟨b.progs.trans a.progs, fun o => (b.decls o).trans (a.decls o), fun c => ⟨(b.comps c).1.trans (a.comps c).1, ?_⟩⟩
  intro x x'' h h''
  cases h' : s'.comps c with
  | none => exact absurd ((a.comps c).1.mp h') (by simp [h])
  | some x' =>
    obtain ⟨h1, h2, h3⟩ := (a.comps c).2 x x' h h'
    obtain ⟨g1, g2, g3⟩ := (b.comps c).2 x' x'' h' h''
    exact ⟨g1.trans h1, g2.trans h2, g3.trans h3⟩

theorem StaticEq.defined {s s' : St} (a : StaticEq s s') {c : Nat} {x : Comp} (h : s.comps c = some x) :
    ∃ x', s'.comps c = some x' ∧ x'.owner = x.owner ∧ x'.name = x.name ∧ x'.tree = x.tree := by
  cases h' : s'.comps c with
  | none => exact absurd ((a.comps c).1.mp h') (by simp [h])
  | some x' => exact ⟨x', rfl, (a.comps c).2 x x' h h'⟩

theorem StaticEq.defined' {s s' : St} (a : StaticEq s s') {c : Nat} {x' : Comp} (h' : s'.comps c = some x') :
    ∃ x, s.comps c = some x ∧ x'.owner = x.owner ∧ x'.name = x.name ∧ x'.tree = x.tree := by
  cases h : s.comps c with
  | none => exact absurd ((a.comps c).1.mpr h) (by simp [h'])
  | some x => exact ⟨x, rfl, (a.comps c).2 x x' h h'⟩

theorem StaticEq.isSlot {s s' : St} (a : StaticEq s s') (k : Key) : s'.isSlot k ↔ s.isSlot k := by
  constructor
  · rintro ⟨c, x', h', hk⟩
    obtain ⟨x, h, h1, h2, _⟩ := a.defined' h'
    exact ⟨c, x, h, by rw [← hk, h1, h2]⟩
  · rintro ⟨c, x, h, hk⟩
    obtain ⟨x', h', h1, h2, _⟩ := a.defined h
    exact ⟨c, x', h', by rw [← hk, h1, h2]⟩

theorem StaticEq.keyOf {s s' : St} (a : StaticEq s s') (p : PRef) : s'.keyOf p = s.keyOf p := by
  cases p with
  | obs k => rfl
  | comp c =>
    simp only [St.keyOf]
    cases h : s.comps c with
    | none => rw [(a.comps c).1.mpr h]
    | some x =>
      obtain ⟨x', h', h1, h2, _⟩ := a.defined h
      simp [h', h1, h2]

theorem ObsKeys.mono {ok ok' : Key → Prop} (h : ∀ k, ok k → ok' k) {t : Tree} (w : ObsKeys ok t) : ObsKeys ok' t := by
  induction w with
  | ret v => exact .ret v
  | read k cont hk _ ih => exact .read k cont (h k hk) ih
  | readC c cont _ ih => exact .readC c cont ih
  | write k v t _ ih => exact .write k v t ih
  | fail => exact .fail

theorem StaticEq.kindAt {s s' : St} (a : StaticEq s s') (k : Key) : s'.kindAt k = s.kindAt k := by
  simp [St.kindAt, a.decls]

/-- what a function reads as a plain Observable is never the slot of a Computable -/
theorem Stat.obsKeys {s : St} (w : Stat s) (c : Nat) (x : Comp) (hx : s.comps c = some x) :
    ObsKeys (fun k => ¬ s.isSlot k) x.tree := by
  refine (w.obsKind c x hx).mono ?_
  rintro k hk ⟨c', x', hx', rfl⟩
  rw [w.slotKind c' x' hx'] at hk; cases hk

theorem Stat.of_staticEq {s s' : St} (w : Stat s) (a : StaticEq s s') : Stat s' := by
  refine ⟨fun o => RegOK.of_decls (a.decls o) (w.regs o), ?_, ?_, ?_, ?_, ?_⟩
  · intro c x' h'
    obtain ⟨x, h, _, _, ht⟩ := a.defined' h'
    rw [ht]; exact w.pure c x h
  · intro c x' h'
    obtain ⟨x, h, _, _, ht⟩ := a.defined' h'
    rw [ht]; exact w.ranked c x h
  · intro c x' h'
    obtain ⟨x, h, _, _, ht⟩ := a.defined' h'
    rw [ht]
    exact (w.obsKind c x h).mono fun k hk => by rw [a.kindAt]; exact hk
  · intro c x' h'
    obtain ⟨x, h, h1, h2, _⟩ := a.defined' h'
    rw [a.kindAt, h1, h2]; exact w.slotKind c x h
  · intro c c' x x' h h' ho hn
    obtain ⟨y, g, g1, g2, _⟩ := a.defined' h
    obtain ⟨y', g', g1', g2', _⟩ := a.defined' h'
    exact w.slots c c' y y' g g' (by rw [← g1, ← g1', ho]) (by rw [← g2, ← g2', hn])


theorem StaticEq.of_setComp {s : St} {c : Nat} {x x' : Comp} (hx : s.comps c = some x) (ho : x'.owner = x.owner)
    (hn : x'.name = x.name) (ht : x'.tree = x.tree) : StaticEq s (s.setComp c x') := by
  refine ⟨rfl, fun _ => rfl, fun q => ?_⟩
  by_cases h : q = c
  · subst h
    refine ⟨by simp [hx], fun y y' hy hy' => ?_⟩
    rw [hx] at hy; cases hy; rw [setComp_same] at hy'; cases hy'
    exact ⟨ho, hn, ht⟩
  · rw [setComp_ne s x' h]
    exact ⟨Iff.rfl, fun y y' hy hy' => by rw [hy] at hy'; cases hy'; exact ⟨rfl, rfl, rfl⟩⟩

theorem StaticEq.of_setReg {s : St} {o : Nat} {r : Reg Sub} (hd : r.decls = (s.regs o).decls) :
    StaticEq s (s.setReg o r) := by
  refine ⟨rfl, fun o' => ?_, fun q => ⟨Iff.rfl, fun y y' hy hy' => ?_⟩⟩
  · by_cases h : o' = o
    · subst h; simp [hd]
    · rw [setReg_ne s r h]
  · simp only [setReg_comps] at hy'
    rw [hy] at hy'; cases hy'; exact ⟨rfl, rfl, rfl⟩

/-! ### the dynamic invariant -/

/-- following the function along the listed (reference, value) reads leads to `ret v` -/
inductive PathR : Tree → List (PRef × V) → V → Prop
  | ret (v : V) : PathR (.ret v) [] v
  | read (k : Key) (cont : V → Tree) (x : V) (ps : List (PRef × V)) (v : V) (h : PathR (cont x) ps v) :
      PathR (.read k cont) ((.obs k, x) :: ps) v
  | readC (c : Nat) (cont : V → Tree) (x : V) (ps : List (PRef × V)) (v : V) (h : PathR (cont x) ps v) :
      PathR (.readC c cont) ((.comp c, x) :: ps) v

/-- the listed (reference, value) reads are an initial part of some way through the function -/
inductive Prefix : Tree → List (PRef × V) → Prop
  | nil (t : Tree) : Prefix t []
  | read (k : Key) (cont : V → Tree) (x : V) (ps : List (PRef × V)) (h : Prefix (cont x) ps) :
      Prefix (.read k cont) ((.obs k, x) :: ps)
  | readC (c : Nat) (cont : V → Tree) (x : V) (ps : List (PRef × V)) (h : Prefix (cont x) ps) :
      Prefix (.readC c cont) ((.comp c, x) :: ps)

theorem PathR.prefix {t : Tree} {ps : List (PRef × V)} {v : V} (h : PathR t ps v) : Prefix t ps := by
  induction h with
  | ret v => exact .nil _
  | read k cont x ps v _ ih => exact .read k cont x ps ih
  | readC c cont x ps v _ ih => exact .readC c cont x ps ih

/-- the remembered value `v` of `p` is the present one (`P` = Computeds that were just marked dirty and whose
    own subscribers have not all been notified yet) -/
def Current (P : Nat → Prop) (s : St) : PRef → V → Prop
  | .obs k, v => s.store k = v
  | .comp c, v => ∃ y, s.comps c = some y ∧ y.value = some v ∧ (y.dirty = false ∨ P c)

/-- Computed `c` is subscribed (with its `_set_dirty`) to the `change` signal of what `p` names -/
def Subd (s : St) (c : Nat) (p : PRef) : Prop :=
  ∃ k, s.keyOf p = some k ∧ k.2 ∈ (s.regs k.1).names ∧ Sub.dirty c ∈ (s.regs k.1).subs k.2 .change

/-- user handlers that read Computables while notified (`progs h ≠ []`) are subscribed to plain Observables only -/
def Inv.UserOK (s : St) : Prop :=
  ∀ o n t h, Sub.user h ∈ (s.regs o).subs n t → s.progs h = [] ∨ s.kindAt (o, n) = some .obs

/-- `S` = the Computeds that are being evaluated right now (on the Python call stack) -/
structure Inv (S P : Nat → Prop) (s : St) : Prop where
  stackDirty : ∀ c, S c → ∃ x, s.comps c = some x ∧ x.dirty = true
  curStack : ∀ p, s.cur = some p → S p
  evald : ∀ c x, s.comps c = some x → ¬ S c →
    (x.first = true → x.dirty = true ∧ ∃ ps, Prefix x.tree ps ∧ ∀ e, e ∈ ps ↔ e ∈ x.parents) ∧
    (x.first = false → ∃ v ps, x.value = some v ∧ PathR x.tree ps v ∧ ∀ e, e ∈ ps ↔ e ∈ x.parents)
  parents : ∀ c x, s.comps c = some x → ∀ p v, (p, v) ∈ x.parents →
    (∀ c', p = .comp c' → c' < c) ∧ (∀ k, p = .obs k → ¬ s.isSlot k) ∧ Subd s c p
  subsOf : ∀ o n t c, Sub.dirty c ∈ (s.regs o).subs n t →
    t = .change ∧ ∃ x, s.comps c = some x ∧ ∃ p v, (p, v) ∈ x.parents ∧ s.keyOf p = some (o, n)
  current : ∀ c x, s.comps c = some x → x.dirty = false → ∀ p v, (p, v) ∈ x.parents → Current P s p v
  userOK : Inv.UserOK s

def NoP : Nat → Prop := fun _ => False

theorem Current.of_eq {P : Nat → Prop} {s s' : St} (hst : s'.store = s.store)
    (hc : ∀ c y, s.comps c = some y → ∀ v, y.value = some v → (y.dirty = false ∨ P c) →
      ∃ y', s'.comps c = some y' ∧ y'.value = some v ∧ (y'.dirty = false ∨ P c))
    {p : PRef} {v : V} (h : Current P s p v) : Current P s' p v := by
  cases p with
  | obs k => simpa [Current, hst] using h
  | comp c =>
    obtain ⟨y, hy, hv, hd⟩ := h
    exact hc c y hy v hv hd

/-- replacing the dynamic fields of one Computed, registry untouched -/
theorem Inv.update_comp {S P : Nat → Prop} {s : St} (inv : Inv S P s) {c : Nat} {x x' : Comp}
    (hx : s.comps c = some x) (ho : x'.owner = x.owner) (hn : x'.name = x.name)
    (hS : S c → x'.dirty = true)
    (hev : ¬ S c → (x'.first = true → x'.dirty = true ∧ ∃ ps, Prefix x'.tree ps ∧ ∀ e, e ∈ ps ↔ e ∈ x'.parents) ∧
      (x'.first = false → ∃ v ps, x'.value = some v ∧ PathR x'.tree ps v ∧ ∀ e, e ∈ ps ↔ e ∈ x'.parents))
    (ht : x'.tree = x.tree)
    (hpar : ∀ p v, (p, v) ∈ x'.parents → (∀ c', p = .comp c' → c' < c) ∧ (∀ k, p = .obs k → ¬ s.isSlot k) ∧ Subd s c p)
    (hsub : ∀ p v, (p, v) ∈ x.parents → ∃ v', (p, v') ∈ x'.parents)
    (hcur : x'.dirty = false → ∀ p v, (p, v) ∈ x'.parents → p ≠ .comp c → Current P s p v)
    (hval : ∀ v, x.value = some v → (x.dirty = false ∨ P c) → x'.value = some v ∧ (x'.dirty = false ∨ P c)) :
    Inv S P (s.setComp c x') := by
  have hkey : ∀ p, (s.setComp c x').keyOf p = s.keyOf p := by
    intro p
    cases p with
    | obs k => rfl
    | comp c' =>
      simp only [St.keyOf]
      by_cases h : c' = c
      · subst h; simp [hx, ho, hn]
      · rw [setComp_ne s x' h]
  have hsubd : ∀ c' p, Subd s c' p → Subd (s.setComp c x') c' p := by
    intro c' p ⟨k, hk, h1, h2⟩
    exact ⟨k, by rw [hkey]; exact hk, h1, h2⟩
  have hslot : ∀ k, (s.setComp c x').isSlot k ↔ s.isSlot k := (StaticEq.of_setComp hx ho hn ht).isSlot
  have hcurr : ∀ p v, Current P s p v → Current P (s.setComp c x') p v := by
    intro p v h
    refine Current.of_eq (s := s) (s' := s.setComp c x') rfl ?_ h
    intro c' y hy w hw hd
    by_cases h' : c' = c
    · subst h'
      rw [hx] at hy; cases hy
      exact ⟨x', setComp_same s c' x', hval w hw hd⟩
    · exact ⟨y, by rw [setComp_ne s x' h']; exact hy, hw, hd⟩
  refine ⟨?_, inv.curStack, ?_, ?_, ?_, ?_, inv.userOK⟩
  · intro q hq
    by_cases h : q = c
    · subst h; exact ⟨x', setComp_same s q x', hS hq⟩
    · rw [setComp_ne s x' h]; exact inv.stackDirty q hq
  · intro q y hy hq
    by_cases h : q = c
    · subst h; rw [setComp_same] at hy; cases hy; exact hev hq
    · rw [setComp_ne s x' h] at hy; exact inv.evald q y hy hq
  · intro q y hy p v hp
    by_cases h : q = c
    · subst h; rw [setComp_same] at hy; cases hy
      exact ⟨(hpar p v hp).1, fun k hk hs => (hpar p v hp).2.1 k hk ((hslot k).mp hs), hsubd q p (hpar p v hp).2.2⟩
    · rw [setComp_ne s x' h] at hy
      exact ⟨(inv.parents q y hy p v hp).1, fun k hk hs => (inv.parents q y hy p v hp).2.1 k hk ((hslot k).mp hs),
        hsubd q p (inv.parents q y hy p v hp).2.2⟩
  · intro o n t q hq
    obtain ⟨ht, y, hy, p, v, hp, hk⟩ := inv.subsOf o n t q hq
    refine ⟨ht, ?_⟩
    by_cases h : q = c
    · subst h
      rw [hx] at hy; cases hy
      obtain ⟨v', hv'⟩ := hsub p v hp
      exact ⟨x', setComp_same s q x', p, v', hv', by rw [hkey]; exact hk⟩
    · exact ⟨y, by rw [setComp_ne s x' h]; exact hy, p, v, hp, by rw [hkey]; exact hk⟩
  · intro q y hy hd p v hp
    by_cases h : q = c
    · subst h; rw [setComp_same] at hy; cases hy
      by_cases hpc : p = .comp q
      · -- a Computed never has itself as a parent
        exact absurd ((hpar p v hp).1 q hpc) (Nat.lt_irrefl q)
      · exact hcurr p v (hcur hd p v hp hpc)
    · rw [setComp_ne s x' h] at hy
      exact hcurr p v (inv.current q y hy hd p v hp)


/-- fields the invariant does not look at (`cur` only has to point into the stack) -/
theorem Inv.congr {S P : Nat → Prop} {s s' : St} (inv : Inv S P s) (hc : s'.comps = s.comps) (hr : s'.regs = s.regs)
    (hs : s'.store = s.store) (hp : s'.progs = s.progs) (hcur : ∀ p, s'.cur = some p → S p) : Inv S P s' := by
  have hk : s'.keyOf = s.keyOf := by funext p; cases p <;> simp [St.keyOf, hc]
  have hsl : ∀ k, s'.isSlot k ↔ s.isSlot k := fun k => by simp [St.isSlot, hc]
  refine ⟨?_, hcur, ?_, ?_, ?_, ?_, ?_⟩
  · simpa [hc] using inv.stackDirty
  · simpa [hc] using inv.evald
  · intro c x hx p v hp
    rw [hc] at hx
    obtain ⟨h1, h0, k, h2, h3, h4⟩ := inv.parents c x hx p v hp
    exact ⟨h1, fun k' hk' hs => h0 k' hk' ((hsl k').mp hs), k, by rw [hk]; exact h2, by rw [hr]; exact h3, by rw [hr]; exact h4⟩
  · intro o n t c h
    rw [hr] at h
    obtain ⟨h1, x, h2, p, v, h3, h4⟩ := inv.subsOf o n t c h
    exact ⟨h1, x, by rw [hc]; exact h2, p, v, h3, by rw [hk]; exact h4⟩
  · intro c x hx hd p v hp
    rw [hc] at hx
    have := inv.current c x hx hd p v hp
    cases p with
    | obs k => simpa [Current, hs] using this
    | comp c' => simpa [Current, hc] using this
  · intro o n t h hm
    rw [hr] at hm
    have := inv.userOK o n t h hm
    simpa [hp, St.kindAt, hr] using this

/-- `_add_parent` called by the evaluating Computed `p` -/
theorem addParent_spec {S P : Nat → Prop} {s s' : St} (w : Stat s) (inv : Inv S P s) {p : Nat} {x : Comp}
    (hS : S p) (hx : s.comps p = some x) {r : PRef} {v : V} {u : V}
    (hrank : ∀ c', r = .comp c' → c' < p) (hobs : ∀ k, r = .obs k → ¬ s.isSlot k)
    (h : addParent s p r v = (s', .ok u)) :
    Inv S P s' ∧ StaticEq s s' ∧ s'.store = s.store ∧ s'.cur = s.cur ∧ s'.dead = s.dead ∧
    (∀ q, q ≠ p → s'.comps q = s.comps q) ∧
    s'.comps p = some { x with parents := insertParent s.ownerOf r v x.parents } := by
  unfold addParent at h
  cases hk : s.keyOf r with
  | none => simp [hk] at h
  | some k =>
    obtain ⟨o, n⟩ := k
    simp only [hk, hx] at h
    rcases observe_one_all (w.regs o) n (Sub.dirty p) with ⟨hn, reg, ho, hdecl, hs⟩ | ⟨_, ho⟩
    · simp only [ho] at h
      injection h with h _
      subst h
      have hxd : x.dirty = true := by
        obtain ⟨y, hy, hd⟩ := inv.stackDirty p hS
        rw [hx] at hy; cases hy; exact hd
      have se1 : StaticEq s (s.setReg o reg) := StaticEq.of_setReg hdecl
      have se : StaticEq s ((s.setReg o reg).setComp p { x with parents := insertParent s.ownerOf r v x.parents }) :=
        se1.trans (StaticEq.of_setComp (s := s.setReg o reg) (x := x) hx rfl rfl rfl)
      have hkey := se.keyOf
      have hsl := se.isSlot
      have hnames : ∀ o', ((s.setReg o reg).regs o').names = (s.regs o').names := by
        intro o'
        by_cases h' : o' = o
        · subst h'; rw [setReg_same]; exact Reg.names_of_decls hdecl
        · rw [setReg_ne s reg h']
      have hmem : ∀ o' n' t q, Sub.dirty q ∈ (s.regs o').subs n' t → Sub.dirty q ∈ ((s.setReg o reg).regs o').subs n' t := by
        intro o' n' t q hq
        by_cases h' : o' = o
        · subst h'; rw [setReg_same, hs]; split
          · exact List.mem_append_left _ hq
          · exact hq
        · rw [setReg_ne s reg h']; exact hq
      have hsubd : ∀ q p0, Subd s q p0 →
          Subd ((s.setReg o reg).setComp p { x with parents := insertParent s.ownerOf r v x.parents }) q p0 := by
        intro q p0 ⟨k, h1, h2, h3⟩
        exact ⟨k, by rw [hkey]; exact h1, by simpa [hnames] using h2, by simpa using hmem _ _ _ _ h3⟩
      have huser : Inv.UserOK ((s.setReg o reg).setComp p { x with parents := insertParent s.ownerOf r v x.parents }) := by
        intro o' n' t' h' hm
        simp only [setComp_regs] at hm
        have hm0 : Sub.user h' ∈ (s.regs o').subs n' t' := by
          by_cases h'' : o' = o
          · subst h''
            rw [setReg_same, hs] at hm
            split at hm
            · simpa using hm
            · exact hm
          · rw [setReg_ne s reg h''] at hm; exact hm
        have := inv.userOK o' n' t' h' hm0
        rwa [se.kindAt]
      refine ⟨⟨?_, inv.curStack, ?_, ?_, ?_, ?_, huser⟩, se, rfl, rfl, rfl, fun q hq => by simp [setComp_ne _ _ hq], by simp⟩
      · intro q hq
        by_cases h' : q = p
        · subst h'; exact ⟨_, setComp_same _ _ _, hxd⟩
        · rw [setComp_ne _ _ h']; exact inv.stackDirty q hq
      · intro q y hy hq
        have h' : q ≠ p := fun e => hq (e ▸ hS)
        rw [setComp_ne _ _ h'] at hy
        exact inv.evald q y hy hq
      · intro q y hy p0 v0 hp0
        by_cases h' : q = p
        · subst h'
          rw [setComp_same] at hy; cases hy
          rcases (mem_insertParent _ _ _ _ _).mp hp0 with he | ⟨he, _⟩
          · cases he
            refine ⟨hrank, fun k' hk' hs => hobs k' hk' ((hsl k').mp hs), (o, n), by rw [hkey]; exact hk, by
              show n ∈ ((s.setReg o reg).regs o).names
              rw [hnames]; exact hn, ?_⟩
            simp only [setComp_regs, setReg_same, hs, and_self, if_true]
            exact List.mem_append_right _ (by simp)
          · exact ⟨(inv.parents q x hx p0 v0 he).1, fun k' hk' hs => (inv.parents q x hx p0 v0 he).2.1 k' hk' ((hsl k').mp hs),
              hsubd q p0 (inv.parents q x hx p0 v0 he).2.2⟩
        · rw [setComp_ne _ _ h'] at hy
          exact ⟨(inv.parents q y hy p0 v0 hp0).1, fun k' hk' hs => (inv.parents q y hy p0 v0 hp0).2.1 k' hk' ((hsl k').mp hs),
            hsubd q p0 (inv.parents q y hy p0 v0 hp0).2.2⟩
      · intro o' n' t q hq
        simp only [setComp_regs] at hq
        have hold : Sub.dirty q ∈ (s.regs o').subs n' t ∨ (o' = o ∧ n' = n ∧ t = .change ∧ q = p) := by
          by_cases h' : o' = o
          · subst h'
            rw [setReg_same, hs] at hq
            split at hq
            · rename_i hc
              rcases List.mem_append.mp hq with h1 | h1
              · exact Or.inl h1
              · simp only [List.mem_singleton, Sub.dirty.injEq] at h1
                exact Or.inr ⟨rfl, hc.1, hc.2, h1⟩
            · exact Or.inl hq
          · rw [setReg_ne s reg h'] at hq; exact Or.inl hq
        rcases hold with hold | ⟨rfl, rfl, rfl, rfl⟩
        · obtain ⟨ht, y, hy, p0, v0, hp0, hk0⟩ := inv.subsOf o' n' t q hold
          refine ⟨ht, ?_⟩
          by_cases h' : q = p
          · subst h'
            rw [hx] at hy; cases hy
            refine ⟨_, setComp_same _ _ _, p0, ?_⟩
            by_cases hpr : p0 = r
            · exact ⟨v, (mem_insertParent _ _ _ _ _).mpr (Or.inl (by rw [hpr])), by rw [hkey]; exact hk0⟩
            · exact ⟨v0, (mem_insertParent _ _ _ _ _).mpr (Or.inr ⟨hp0, hpr⟩), by rw [hkey]; exact hk0⟩
          · exact ⟨y, by rw [setComp_ne _ _ h']; exact hy, p0, v0, hp0, by rw [hkey]; exact hk0⟩
        · exact ⟨rfl, _, setComp_same _ _ _, r, v, (mem_insertParent _ _ _ _ _).mpr (Or.inl rfl), by rw [hkey]; exact hk⟩
      · intro q y hy hd p0 v0 hp0
        have h' : q ≠ p := by
          intro e; subst e; rw [setComp_same] at hy; cases hy; simp [hxd] at hd
        rw [setComp_ne _ _ h'] at hy
        refine Current.of_eq (s := s)
          (s' := (s.setReg o reg).setComp p { x with parents := insertParent s.ownerOf r v x.parents }) rfl ?_
          (inv.current q y hy hd p0 v0 hp0)
        intro c' z hz vv hv hdz
        by_cases h'' : c' = p
        · subst h''
          rw [hx] at hz; cases hz
          exact ⟨_, setComp_same _ _ _, hv, hdz⟩
        · exact ⟨z, by rw [setComp_ne _ _ h'']; exact hz, hv, hdz⟩
    · simp [ho] at h


theorem Inv.push {S P : Nat → Prop} {s : St} (inv : Inv S P s) {c : Nat} {x : Comp} (hx : s.comps c = some x)
    (hd : x.dirty = true) : Inv (fun q => S q ∨ q = c) P s := by
  refine ⟨?_, fun p hp => Or.inl (inv.curStack p hp), ?_, inv.parents, inv.subsOf, inv.current, inv.userOK⟩
  · rintro q (hq | rfl)
    · exact inv.stackDirty q hq
    · exact ⟨x, hx, hd⟩
  · intro q y hy hq
    exact inv.evald q y hy (fun h => hq (Or.inl h))

theorem mem_keep_dirty (alive : Sub → Bool) (halive : ∀ q, alive (.dirty q) = true) (c q : Nat) (l : List Sub) :
    Sub.dirty q ∈ Reg.keep alive (Sub.dirty c) l ↔ Sub.dirty q ∈ l ∧ q ≠ c := by
  simp [Reg.keep, halive]

/-- the loop of `_remove_parents` over the owners -/
theorem removeFold (c : Nat) (L : List Nat) (s : St) (hreg : ∀ o, RegOK (s.regs o)) :
    let s' := L.foldl (fun s o =>
      match (s.regs o).unobserve s.alive .all .all (Sub.dirty c) with
      | .ok reg => s.setReg o reg
      | .error _ => s) s
    s'.comps = s.comps ∧ s'.store = s.store ∧ s'.cur = s.cur ∧ s'.dead = s.dead ∧ s'.progs = s.progs ∧
    (∀ o, (s'.regs o).decls = (s.regs o).decls) ∧
    (∀ o n t q, Sub.dirty q ∈ (s'.regs o).subs n t ↔
      Sub.dirty q ∈ (s.regs o).subs n t ∧ ¬ (o ∈ L ∧ n ∈ (s.regs o).names ∧ t = .change ∧ q = c)) ∧
    ∀ o n t h, Sub.user h ∈ (s'.regs o).subs n t → Sub.user h ∈ (s.regs o).subs n t := by
  induction L generalizing s with
  | nil => simp
  | cons o L ih =>
    simp only [List.foldl_cons]
    obtain ⟨reg, ho, hdecl, hs⟩ := unobserve_all_all (hreg o) s.alive (Sub.dirty c)
    rw [ho]
    have hreg' : ∀ o', RegOK ((s.setReg o reg).regs o') := by
      intro o'
      by_cases h : o' = o
      · subst h; rw [setReg_same]; exact RegOK.of_decls hdecl (hreg o')
      · rw [setReg_ne s reg h]; exact hreg o'
    obtain ⟨h1, h2, h3, h4, h5, h6, h7, h8⟩ := ih (s.setReg o reg) hreg'
    refine ⟨h1, h2, h3, h4, h5, ?_, ?_, ?_⟩
    rotate_left 2
    · intro o' n t h hm
      have hm' := h8 o' n t h hm
      by_cases ho : o' = o
      · subst ho
        rw [setReg_same, hs] at hm'
        split at hm'
        · exact (List.mem_filter.mp hm').1
        · exact hm'
      · rw [setReg_ne s reg ho] at hm'; exact hm'
    · intro o'
      rw [h6 o']
      by_cases h : o' = o
      · subst h; rw [setReg_same]; exact hdecl
      · rw [setReg_ne s reg h]
    · intro o' n t q
      rw [h7 o' n t q]
      by_cases h : o' = o
      · subst h
        rw [setReg_same, hs, Reg.names_of_decls hdecl]
        by_cases hc : n ∈ (s.regs o').names ∧ t = .change
        · rw [if_pos hc, mem_keep_dirty _ (fun _ => rfl)]
          simp only [List.mem_cons, true_or, true_and]
          constructor
          · rintro ⟨⟨hm, hq⟩, _⟩
            exact ⟨hm, fun h => hq h.2.2⟩
          · rintro ⟨hm, hn⟩
            exact ⟨⟨hm, fun hq => hn ⟨hc.1, hc.2, hq⟩⟩, fun h => hn ⟨h.2.1, h.2.2.1, h.2.2.2⟩⟩
        · rw [if_neg hc]
          simp only [List.mem_cons, true_or, true_and]
          constructor
          · rintro ⟨hm, _⟩
            exact ⟨hm, fun h => hc ⟨h.1, h.2.1⟩⟩
          · rintro ⟨hm, _⟩
            exact ⟨hm, fun h => hc ⟨h.2.1, h.2.2.1⟩⟩
      · rw [setReg_ne s reg h]
        have : ¬ o' = o := h
        simp [this]

/-- `_remove_parents` of the Computed `c` that is about to be re-evaluated -/
theorem removeParents_spec {S P : Nat → Prop} {s : St} (w : Stat s) (inv : Inv S P s) {c : Nat} {x : Comp}
    (hS : S c) (hx : s.comps c = some x) :
    Inv S P (removeParents s c) ∧ StaticEq s (removeParents s c) ∧ (removeParents s c).store = s.store ∧
    (removeParents s c).cur = s.cur ∧ (removeParents s c).dead = s.dead ∧
    (∀ q, q ≠ c → (removeParents s c).comps q = s.comps q) ∧
    (removeParents s c).comps c = some { x with parents := [] } := by
  unfold removeParents
  simp only [hx]
  obtain ⟨h1, h2, h3, h4, h5, h6, h7, h8⟩ := removeFold c (parentOwners s x.parents) s w.regs
  generalize (parentOwners s x.parents).foldl _ s = s1 at h1 h2 h3 h4 h5 h6 h7 h8
  have hx1 : s1.comps c = some x := by rw [h1]; exact hx
  have se1 : StaticEq s s1 := ⟨h5, h6, fun q => by rw [h1]; exact (StaticEq.refl s).comps q⟩
  have se : StaticEq s (s1.setComp c { x with parents := [] }) :=
    se1.trans (StaticEq.of_setComp hx1 rfl rfl rfl)
  have hkey := se.keyOf
  have hsl := se.isSlot
  have hxd : x.dirty = true := by
    obtain ⟨y, hy, hd⟩ := inv.stackDirty c hS
    rw [hx] at hy; cases hy; exact hd
  -- `c` was subscribed only where `_remove_parents` looks
  have hgone : ∀ o n t, Sub.dirty c ∉ (s1.regs o).subs n t := by
    intro o n t hm
    obtain ⟨hm0, hnot⟩ := (h7 o n t c).mp hm
    obtain ⟨ht, y, hy, p, v, hp, hk⟩ := inv.subsOf o n t c hm0
    rw [hx] at hy; cases hy
    obtain ⟨_, _, k, hk', hnames, _⟩ := inv.parents c x hx p v hp
    rw [hk] at hk'; cases hk'
    refine hnot ⟨?_, hnames, ht, rfl⟩
    unfold parentOwners
    rw [List.mem_eraseDups]
    exact List.mem_map.mpr ⟨(p, v), hp, by simp [St.ownerOf, hk]⟩
  have hkeep : ∀ o n t q, q ≠ c → (Sub.dirty q ∈ (s1.regs o).subs n t ↔ Sub.dirty q ∈ (s.regs o).subs n t) := by
    intro o n t q hq
    rw [h7 o n t q]
    exact ⟨fun h => h.1, fun h => ⟨h, fun h' => hq h'.2.2.2⟩⟩
  have hnames : ∀ o, (s1.regs o).names = (s.regs o).names := fun o => Reg.names_of_decls (h6 o)
  have hsubd : ∀ q p0, q ≠ c → Subd s q p0 → Subd (s1.setComp c { x with parents := [] }) q p0 := by
    intro q p0 hq ⟨k, g1, g2, g3⟩
    exact ⟨k, by rw [hkey]; exact g1, by simpa [hnames] using g2, by simpa using (hkeep _ _ _ q hq).mpr g3⟩
  have huser : Inv.UserOK (s1.setComp c { x with parents := [] }) := by
    intro o' n' t' h' hm
    have := inv.userOK o' n' t' h' (h8 o' n' t' h' hm)
    rwa [se.kindAt, show (s1.setComp c { x with parents := [] }).progs = s.progs from h5]
  refine ⟨⟨?_, ?_, ?_, ?_, ?_, ?_, huser⟩, se, h2, h3, h4, fun q hq => by rw [setComp_ne _ _ hq, h1], by simp⟩
  · intro q hq
    by_cases h : q = c
    · subst h; exact ⟨_, setComp_same _ _ _, hxd⟩
    · rw [setComp_ne _ _ h, h1]; exact inv.stackDirty q hq
  · intro p hp; exact inv.curStack p (by simpa [h3] using hp)
  · intro q y hy hq
    have h : q ≠ c := fun e => hq (e ▸ hS)
    rw [setComp_ne _ _ h, h1] at hy
    exact inv.evald q y hy hq
  · intro q y hy p0 v0 hp0
    by_cases h : q = c
    · subst h; rw [setComp_same] at hy; cases hy; simp at hp0
    · rw [setComp_ne _ _ h, h1] at hy
      exact ⟨(inv.parents q y hy p0 v0 hp0).1, fun k' hk' hs => (inv.parents q y hy p0 v0 hp0).2.1 k' hk' ((hsl k').mp hs),
        hsubd q p0 h (inv.parents q y hy p0 v0 hp0).2.2⟩
  · intro o n t q hq
    simp only [setComp_regs] at hq
    by_cases h : q = c
    · subst h; exact absurd hq (hgone o n t)
    · obtain ⟨ht, y, hy, p0, v0, hp0, hk0⟩ := inv.subsOf o n t q ((hkeep o n t q h).mp hq)
      exact ⟨ht, y, by rw [setComp_ne _ _ h, h1]; exact hy, p0, v0, hp0, by rw [hkey]; exact hk0⟩
  · intro q y hy hd p0 v0 hp0
    have h : q ≠ c := by
      intro e; subst e; rw [setComp_same] at hy; cases hy; simp [hxd] at hd
    rw [setComp_ne _ _ h, h1] at hy
    refine Current.of_eq (s := s) (s' := s1.setComp c { x with parents := [] }) h2 ?_ (inv.current q y hy hd p0 v0 hp0)
    intro c' z hz vv hv hdz
    by_cases h'' : c' = c
    · subst h''
      rw [hx] at hz; cases hz
      exact ⟨_, setComp_same _ _ _, hv, hdz⟩
    · exact ⟨z, by rw [setComp_ne _ _ h'', h1]; exact hz, hv, hdz⟩


/-- the invariant only looks at the `_set_dirty` entries of the registry -/
theorem Inv.congr_regs {S P : Nat → Prop} {s s' : St} (inv : Inv S P s) (hc : s'.comps = s.comps)
    (hs : s'.store = s.store) (hcur : s'.cur = s.cur) (hn : ∀ o, (s'.regs o).names = (s.regs o).names)
    (hm : ∀ o n t q, Sub.dirty q ∈ (s'.regs o).subs n t ↔ Sub.dirty q ∈ (s.regs o).subs n t)
    (hu : Inv.UserOK s') : Inv S P s' := by
  have hk : s'.keyOf = s.keyOf := by funext p; cases p <;> simp [St.keyOf, hc]
  have hsl : ∀ k, s'.isSlot k ↔ s.isSlot k := fun k => by simp [St.isSlot, hc]
  refine ⟨?_, fun p hp => inv.curStack p (by rw [← hcur]; exact hp), ?_, ?_, ?_, ?_, hu⟩
  · simpa [hc] using inv.stackDirty
  · simpa [hc] using inv.evald
  · intro c x hx p v hp
    rw [hc] at hx
    obtain ⟨h1, h0, k, h2, h3, h4⟩ := inv.parents c x hx p v hp
    exact ⟨h1, fun k' hk' hs => h0 k' hk' ((hsl k').mp hs), k, by rw [hk]; exact h2, by rw [hn]; exact h3, (hm _ _ _ _).mpr h4⟩
  · intro o n t c h
    obtain ⟨h1, x, h2, p, v, h3, h4⟩ := inv.subsOf o n t c ((hm _ _ _ _).mp h)
    exact ⟨h1, x, by rw [hc]; exact h2, p, v, h3, by rw [hk]; exact h4⟩
  · intro c x hx hd p v hp
    rw [hc] at hx
    have := inv.current c x hx hd p v hp
    cases p with
    | obs k => simpa [Current, hs] using this
    | comp c' => simpa [Current, hc] using this

theorem mem_filter_isDep_dirty (c : Nat) (l : List Sub) : Sub.dirty c ∈ l.filter Sub.isDep ↔ Sub.dirty c ∈ l := by
  simp [List.mem_filter, Sub.isDep]

theorem mem_filter_isDep_user (h : Nat) (l : List Sub) : Sub.user h ∉ l.filter Sub.isDep := by
  simp [List.mem_filter, Sub.isDep]

theorem mem_filter_notDep_user (h : Nat) (l : List Sub) :
    Sub.user h ∈ l.filter (fun x => !x.isDep) ↔ Sub.user h ∈ l := by
  simp [List.mem_filter, Sub.isDep]

theorem mem_filter_notDep_dirty (c : Nat) (l : List Sub) : Sub.dirty c ∉ l.filter (fun x => !x.isDep) := by
  simp [List.mem_filter, Sub.isDep]

/-- pruning the dead references of one list keeps `UserOK` -/
theorem Inv.UserOK.prune {s : St} (hu : Inv.UserOK s) (k : Key) :
    Inv.UserOK (s.setReg k.1 ((s.regs k.1).setSubs k.2 .change (((s.regs k.1).subs k.2 .change).filter s.alive))) := by
  intro o n t h hm
  have hm0 : Sub.user h ∈ (s.regs o).subs n t := by
    by_cases ho : o = k.1
    · subst ho
      simp only [setReg_same, Reg.setSubs] at hm
      split at hm
      · rename_i hc
        obtain ⟨rfl, rfl⟩ := hc
        exact (List.mem_filter.mp hm).1
      · exact hm
    · rw [setReg_ne _ _ ho] at hm; exact hm
  have := hu o n t h hm0
  have hk : (s.setReg k.1 ((s.regs k.1).setSubs k.2 .change (((s.regs k.1).subs k.2 .change).filter s.alive))).kindAt (o, n) =
      s.kindAt (o, n) := by
    unfold St.kindAt
    by_cases ho : o = k.1
    · subst ho; simp [Reg.setSubs]
    · simp [St.setReg, ho]
  rw [hk]; exact this

/-- a notification none of whose `_set_dirty` subscribers is clean and all of whose user handlers are passive: the user
    handlers are called (they record), nothing else happens -/
theorem notifyLoop_quiet (rec : Rec) (k : Key) (old new : V) (xs : List Sub) :
    ∀ (s : St), (∀ h, Sub.user h ∈ xs → s.progs h = []) →
    (∀ c, Sub.dirty c ∈ xs → ∃ x, s.comps c = some x ∧ x.dirty = true) →
    ∃ lg, notifyLoop rec k old new xs s = some ({ s with log := s.log ++ lg }, .ok ()) := by
  induction xs with
  | nil => intro s _ _; exact ⟨[], by simp [notifyLoop]⟩
  | cons x xs ih =>
    intro s hp hq
    unfold notifyLoop
    by_cases hg : (!s.alive x || !(((s.regs k.1).subs k.2 .change).contains x)) = true
    · rw [if_pos hg]
      exact ih s (fun h hh => hp h (by simp [hh])) (fun c' hc' => hq c' (by simp [hc']))
    · rw [if_neg hg]
      cases x with
      | dirty c =>
        obtain ⟨y, hy, hd⟩ := hq c (by simp)
        simp only [hy, hd, if_true]
        exact ih s (fun h hh => hp h (by simp [hh])) (fun c' hc' => hq c' (by simp [hc']))
      | user h =>
        simp only [hp h (by simp), readAll]
        obtain ⟨lg, hh⟩ := ih { s with log := s.log ++ [⟨h, k.1, k.2, old, new⟩] }
          (fun h' hh' => hp h' (by simp [hh'])) (fun c' hc' => hq c' (by simp [hc']))
        refine ⟨⟨h, k.1, k.2, old, new⟩ :: lg, ?_⟩
        rw [hh]
        simp

/-- … for the `change` signal of a Computable (a slot): its user handlers are passive (`Inv.userOK`) -/
theorem notifyT_quiet {S P : Nat → Prop} (rec : Rec) (k : Key) (old new : V) {s : St} (w : Stat s)
    (inv : Inv S P s) (hk : s.kindAt k = some .comp)
    (hq : ∀ c, Sub.dirty c ∈ (s.regs k.1).subs k.2 .change → ∃ x, s.comps c = some x ∧ x.dirty = true) :
    ∃ s', notifyT rec k old new s = some (s', .ok none) ∧ Inv S P s' ∧ StaticEq s s' ∧ s'.comps = s.comps ∧
      s'.store = s.store ∧ s'.cur = s.cur ∧ s'.dead = s.dead := by
  have hpass : ∀ h, Sub.user h ∈ (s.regs k.1).subs k.2 .change → s.progs h = [] := by
    intro h hm
    rcases inv.userOK k.1 k.2 .change h hm with hp | hp
    · exact hp
    · rw [hk] at hp; cases hp
  obtain ⟨lg1, h1⟩ := notifyLoop_quiet rec k old new (((s.regs k.1).subs k.2 .change).filter Sub.isDep) s
    (fun h hh => absurd hh (mem_filter_isDep_user h _))
    (fun c hc => hq c ((mem_filter_isDep_dirty c _).mp hc))
  obtain ⟨lg2, h2⟩ := notifyLoop_quiet rec k old new (((s.regs k.1).subs k.2 .change).filter fun x => !x.isDep)
    { s with log := s.log ++ lg1 }
    (fun h hh => hpass h ((mem_filter_notDep_user h _).mp hh))
    (fun c hc => absurd hc (mem_filter_notDep_dirty c _))
  unfold notifyT
  simp only [h1, h2]
  refine ⟨_, rfl, ?_, ?_, rfl, rfl, rfl, rfl⟩
  · have invl : Inv S P { s with log := s.log ++ lg1 ++ lg2 } := inv.congr rfl rfl rfl rfl inv.curStack
    refine invl.congr_regs rfl rfl rfl ?_ ?_ (invl.userOK.prune k)
    · intro o
      by_cases ho : o = k.1
      · subst ho; simp [Reg.names]
      · simp [St.setReg, ho]
    · intro o n t q
      by_cases ho : o = k.1
      · subst ho
        simp only [setReg_same, Reg.setSubs]
        by_cases hnt : n = k.2 ∧ t = .change
        · obtain ⟨rfl, rfl⟩ := hnt
          simp [List.mem_filter, St.alive]
        · simp [hnt]
      · simp [St.setReg, ho]
  · refine ⟨rfl, fun o => ?_, fun c => (StaticEq.refl s).comps c⟩
    by_cases ho : o = k.1
    · subst ho; simp
    · simp [St.setReg, ho]


/-- a declared attribute is a name of its owner's registry -/
theorem kindAt_names {s : St} {k : Key} {kd : Kind} (h : s.kindAt k = some kd) : k.2 ∈ (s.regs k.1).names := by
  unfold St.kindAt at h
  cases hf : (s.regs k.1).decls.find? (fun d => d.name == k.2) with
  | none => simp [hf] at h
  | some d =>
    have hd := List.mem_of_find?_eq_some hf
    have hn : d.name = k.2 := by simpa using List.find?_some hf
    unfold Reg.names; exact List.mem_map.mpr ⟨d, hd, hn⟩

/-- `_add_parent` on a declared attribute, called by a Computed that exists, does not raise -/
theorem addParent_ok {s : St} (w : Stat s) {p : Nat} {x : Comp} (hx : s.comps p = some x) {r : PRef} {v : V} {k : Key}
    (hk : s.keyOf r = some k) (hn : k.2 ∈ (s.regs k.1).names) {s' : St} {e : Err}
    (h : addParent s p r v = (s', .err e)) : False := by
  unfold addParent at h
  obtain ⟨o, n⟩ := k
  simp only [hk, hx] at h
  rcases observe_one_all (w.regs o) n (Sub.dirty p) with ⟨_, reg, ho, _⟩ | ⟨hnn, _⟩
  · simp only [ho] at h; injection h with _ h; cases h
  · exact hnn hn

/-! ### what a function returns "if evaluated right now" -/

/-- the denotation of a pure function in state `s`: Observables are looked up in the store, Computables are
    evaluated by running *their* function (not by looking at any cache) -/
inductive Den (s : St) : Tree → V → Prop
  | ret (v : V) : Den s (.ret v) v
  | read (k : Key) (cont : V → Tree) (v : V) (h : Den s (cont (s.store k)) v) : Den s (.read k cont) v
  | readC (c : Nat) (cont : V → Tree) (x : Comp) (a v : V) (hx : s.comps c = some x) (ha : Den s x.tree a)
      (h : Den s (cont a) v) : Den s (.readC c cont) v

/-- … and "the function would raise if evaluated right now": it arrives at a `fail` node, or at the read of a
    Computable whose function would raise -/
inductive DenFail (s : St) : Tree → Prop
  | fail : DenFail s .fail
  | read (k : Key) (cont : V → Tree) (h : DenFail s (cont (s.store k))) : DenFail s (.read k cont)
  | readCFail (c : Nat) (cont : V → Tree) (x : Comp) (hx : s.comps c = some x) (h : DenFail s x.tree) :
      DenFail s (.readC c cont)
  | readC (c : Nat) (cont : V → Tree) (x : Comp) (a : V) (hx : s.comps c = some x) (ha : Den s x.tree a)
      (h : DenFail s (cont a)) : DenFail s (.readC c cont)
  | readCUndef (c : Nat) (cont : V → Tree) (hx : s.comps c = none) : DenFail s (.readC c cont)

/-- both only look at the Observables' values and at the functions -/
theorem Den.congr {s s' : St} (hst : s'.store = s.store) (hse : StaticEq s s') {t : Tree} {v : V} (h : Den s t v) :
    Den s' t v := by
  induction h with
  | ret v => exact .ret v
  | read k cont v _ ih => refine .read k cont v ?_; rw [hst]; exact ih
  | readC c cont x a v hx _ _ iha ih =>
    obtain ⟨x', hx', _, _, ht⟩ := hse.defined hx
    exact .readC c cont x' a v hx' (by rw [ht]; exact iha) ih

theorem DenFail.congr {s s' : St} (hst : s'.store = s.store) (hse : StaticEq s s') {t : Tree} (h : DenFail s t) :
    DenFail s' t := by
  induction h with
  | fail => exact .fail
  | read k cont _ ih => refine .read k cont ?_; rw [hst]; exact ih
  | readCFail c cont x hx _ ih =>
    obtain ⟨x', hx', _, _, ht⟩ := hse.defined hx
    exact .readCFail c cont x' hx' (by rw [ht]; exact ih)
  | readC c cont x a hx ha _ ih =>
    obtain ⟨x', hx', _, _, ht⟩ := hse.defined hx
    exact .readC c cont x' a hx' (by rw [ht]; exact ha.congr hst hse) ih
  | readCUndef c cont hx => exact .readCUndef c cont ((hse.comps c).1.mpr hx)

theorem pathR_den {s : St} {t : Tree} {ps : List (PRef × V)} {v : V} (hp : PathR t ps v)
    (hobs : ∀ k x, (PRef.obs k, x) ∈ ps → s.store k = x)
    (hcomp : ∀ c x, (PRef.comp c, x) ∈ ps → ∃ y, s.comps c = some y ∧ Den s y.tree x) : Den s t v := by
  induction hp with
  | ret v => exact .ret v
  | read k cont x ps v _ ih =>
    have hx : s.store k = x := hobs k x (by simp)
    subst hx
    exact .read k cont v (ih (fun k' x' h' => hobs k' x' (by simp [h'])) (fun c x' h' => hcomp c x' (by simp [h'])))
  | readC c cont x ps v _ ih =>
    obtain ⟨y, hy, hd⟩ := hcomp c x (by simp)
    exact .readC c cont y x v hy hd
      (ih (fun k' x' h' => hobs k' x' (by simp [h'])) (fun c' x' h' => hcomp c' x' (by simp [h'])))

/-- **a clean Computed holds the value its function would return now** (also while other Computeds are evaluating) -/
theorem clean_den {S : Nat → Prop} {s : St} (inv : Inv S NoP s) :
    ∀ c x, s.comps c = some x → x.dirty = false → ∃ v, x.value = some v ∧ Den s x.tree v := by
  intro c
  induction c using Nat.strongRecOn with
  | _ c ih =>
    intro x hx hd
    have hS : ¬ S c := by
      intro hS
      obtain ⟨y, hy, hyd⟩ := inv.stackDirty c hS
      rw [hx] at hy; cases hy; simp [hd] at hyd
    obtain ⟨e1, e2⟩ := inv.evald c x hx hS
    have hf : x.first = false := by
      cases hxf : x.first with
      | false => rfl
      | true => have := (e1 hxf).1; simp [hd] at this
    obtain ⟨v, ps, hv, hp, hmem⟩ := e2 hf
    refine ⟨v, hv, pathR_den hp ?_ ?_⟩
    · intro k a ha
      exact inv.current c x hx hd (.obs k) a ((hmem _).mp ha)
    · intro c' a ha
      have hpar := (hmem _).mp ha
      obtain ⟨y, hy, hyv, hyd⟩ := inv.current c x hx hd (.comp c') a hpar
      have hlt : c' < c := (inv.parents c x hx (.comp c') a hpar).1 c' rfl
      rcases hyd with hyd | hyd
      · obtain ⟨v', hv', hden⟩ := ih c' hlt y hy hyd
        rw [hyv] at hv'; cases hv'
        exact ⟨y, hy, hden⟩
      · exact absurd hyd (by simp [NoP])

/-- the remembered value differs from the present one (for a Computable: from its up-to-date value, or its
    function raises now) -/
def Stale (s : St) : PRef × V → Prop
  | (.obs k, v) => s.store k ≠ v
  | (.comp c, v) => ∃ y, s.comps c = some y ∧ ((y.dirty = false ∧ y.value ≠ some v) ∨ DenFail s y.tree)

theorem Stale.keep {s s' : St} (hst : s'.store = s.store) (hse : StaticEq s s')
    (hk : ∀ q x, s.comps q = some x → x.dirty = false → s'.comps q = some x) {e : PRef × V} (h : Stale s e) :
    Stale s' e := by
  obtain ⟨p, v⟩ := e
  cases p with
  | obs k => simpa [Stale, hst] using h
  | comp c =>
    obtain ⟨y, hy, hd⟩ := h
    rcases hd with ⟨hd, hv⟩ | hf
    · exact ⟨y, hk c y hy hd, Or.inl ⟨hd, hv⟩⟩
    · obtain ⟨y', hy', _, _, ht⟩ := hse.defined hy
      exact ⟨y', hy', Or.inr (by rw [ht]; exact hf.congr hst hse)⟩

/-- why the function body of a Computed ran (or did not) between two states: at most once, and then only on
    the first evaluation (also: the first one after an evaluation that raised) or because something it remembered
    differs from the present value -/
def Justified (x : Comp) (s' : St) (y : Comp) : Prop :=
  y.evals = x.evals ∨ (y.evals = x.evals + 1 ∧ x.dirty = true ∧ (x.first = true ∨ ∃ e ∈ x.parents, Stale s' e))

/-- what a read did to a Computed other than the one on top of the evaluation stack: its function did not run and —
    unless it was re-validated (no longer dirty) — nothing at all happened to it; or its function ran, and then it was
    dirty and either never ran / raised the last time it ran, or something it remembered differs from the present value -/
def JustAll (x : Comp) (s' : St) (y : Comp) : Prop :=
  (y.evals = x.evals ∧ (y.dirty = true → y = x)) ∨
  (x.evals < y.evals ∧ x.dirty = true ∧ (x.first = true ∨ ∃ e ∈ x.parents, Stale s' e))

theorem JustAll.refl (x : Comp) (s : St) : JustAll x s x := Or.inl ⟨rfl, fun _ => rfl⟩

theorem JustAll.trans {x y z : Comp} {s1 s2 : St} (hst : s2.store = s1.store) (hse : StaticEq s1 s2)
    (hk : ∀ q x, s1.comps q = some x → x.dirty = false → s2.comps q = some x)
    (h1 : JustAll x s1 y) (h2 : JustAll y s2 z) : JustAll x s2 z := by
  rcases h1 with ⟨e1, d1⟩ | ⟨l1, xd, r1⟩
  · rcases h2 with ⟨e2, d2⟩ | ⟨l2, yd, r2⟩
    · exact Or.inl ⟨e2.trans e1, fun hz => by have h := d2 hz; subst h; exact d1 hz⟩
    · have h := d1 yd; subst h; exact Or.inr ⟨l2, yd, r2⟩
  · have hle : y.evals ≤ z.evals := by
      rcases h2 with ⟨e2, _⟩ | ⟨l2, _, _⟩ <;> omega
    refine Or.inr ⟨by omega, xd, ?_⟩
    rcases r1 with r1 | ⟨e, he, hs⟩
    · exact Or.inl r1
    · exact Or.inr ⟨e, he, Stale.keep hst hse hk hs⟩

/-- `JustAll` for every Computed with an index in `P` -/
def Below (P : Nat → Prop) (s s' : St) : Prop :=
  ∀ q x, P q → s.comps q = some x → ∃ y, s'.comps q = some y ∧ JustAll x s' y

theorem Below.refl (P : Nat → Prop) (s : St) : Below P s s := fun _ x _ hx => ⟨x, hx, JustAll.refl x s⟩

theorem Below.of_eq {P : Nat → Prop} {s s' : St} (h : ∀ q, P q → s'.comps q = s.comps q) : Below P s s' :=
  fun q x hq hx => ⟨x, by rw [h q hq]; exact hx, JustAll.refl x s'⟩

theorem Below.trans {P : Nat → Prop} {s s1 s2 : St} (hst : s2.store = s1.store) (hse : StaticEq s1 s2)
    (hk : ∀ q x, s1.comps q = some x → x.dirty = false → s2.comps q = some x)
    (b1 : Below P s s1) (b2 : Below P s1 s2) : Below P s s2 := by
  intro q x hq hx
  obtain ⟨y, hy, j1⟩ := b1 q x hq hx
  obtain ⟨z, hz, j2⟩ := b2 q y hq hy
  exact ⟨z, hz, j1.trans hst hse hk j2⟩

/-- from the Computeds up to `c'` to all below `c`, when those in between were not touched -/
theorem Below.widen {c' c : Nat} {s s' : St} (b : Below (· ≤ c') s s')
    (hab : ∀ q, c' < q → q < c → s'.comps q = s.comps q) : Below (· < c) s s' := by
  intro q x hq hx
  by_cases h : q ≤ c'
  · exact b q x h hx
  · exact ⟨x, by rw [hab q (by omega) hq]; exact hx, JustAll.refl x s'⟩

/-- steps before that leave the Computeds in `P` alone -/
theorem Below.eq_step {P : Nat → Prop} {s s1 s2 : St} (hc : ∀ q, P q → s1.comps q = s.comps q)
    (b : Below P s1 s2) : Below P s s2 :=
  fun q x hq hx => b q x hq (by rw [hc q hq]; exact hx)

/-- … and steps after -/
theorem Below.step_eq {P : Nat → Prop} {s s1 s2 : St} (b : Below P s s1) (hst : s2.store = s1.store)
    (hse : StaticEq s1 s2) (hk : ∀ q x, s1.comps q = some x → x.dirty = false → s2.comps q = some x)
    (hc : ∀ q, P q → s2.comps q = s1.comps q) : Below P s s2 :=
  Below.trans hst hse hk b (Below.of_eq hc)

theorem Below.snoc {c : Nat} {s s' : St} (b : Below (· < c) s s')
    (hc : ∀ x, s.comps c = some x → ∃ y, s'.comps c = some y ∧ JustAll x s' y) : Below (· ≤ c) s s' := by
  intro q x hq hx
  by_cases h : q < c
  · exact b q x h hx
  · have : q = c := by omega
    subst this; exact hc x hx

/-! ### reading a Computable: the induction -/

/-- what `Computable.__get__` of `c` guarantees when it returns `v` -/
structure PostGet (S : Nat → Prop) (c : Nat) (s s' : St) (v : V) : Prop where
  inv : Inv S NoP s'
  stat : StaticEq s s'
  store : s'.store = s.store
  cur : s'.cur = s.cur
  dead : s'.dead = s.dead
  clean : ∃ y, s'.comps c = some y ∧ y.dirty = false ∧ y.value = some v ∧
    ∀ x, s.comps c = some x → Justified x s' y
  keepClean : ∀ q x, s.comps q = some x → x.dirty = false → s'.comps q = some x
  above : ∀ q, c < q → s.cur ≠ some q → s'.comps q = s.comps q
  below : Below (· ≤ c) s s'
  curPar : ∀ p x, s.cur = some p → s.comps p = some x →
    ∃ own, s'.comps p = some { x with parents := insertParent own (.comp c) v x.parents }

/-- … and when it raises: the function of `c` ran and raised, and would raise if evaluated now; `c` will run it again
    on the next read; nothing else happened to the Computeds above `c` (the evaluating one registered nothing).
    (Or `c` is not defined: `AttributeError`, nothing happened at all.) -/
structure PostErr (S : Nat → Prop) (c : Nat) (s s' : St) : Prop where
  inv : Inv S NoP s'
  stat : StaticEq s s'
  store : s'.store = s.store
  cur : s'.cur = s.cur
  dead : s'.dead = s.dead
  failed : s.comps c = none ∨ ∃ y, s'.comps c = some y ∧ y.first = true ∧ y.dirty = true ∧ DenFail s' y.tree ∧
    ∀ x, s.comps c = some x → Justified x s' y
  keepClean : ∀ q x, s.comps q = some x → x.dirty = false → s'.comps q = some x
  above : ∀ q, c < q → s'.comps q = s.comps q
  below : Below (· ≤ c) s s'

/-- the induction hypothesis about the recursive calls -/
structure IH (rec : Rec) : Prop where
  get : ∀ (c : Nat) (s s' : St) (r : R) (S : Nat → Prop), Stat s → Inv S NoP s → ¬ S c → (∀ q, S q → c < q) →
    rec (.readC c) s = some (s', r) →
    (∀ v, r = .ok v → PostGet S c s s' v) ∧ (∀ e, r = .err e → PostErr S c s s')
  notify : ∀ k o n s, rec (.notify k o n) s = none ∨ ∃ rec', rec (.notify k o n) s = notifyT rec' k o n s

theorem Current.keep {s s' : St} (hst : s'.store = s.store)
    (hk : ∀ q x, s.comps q = some x → x.dirty = false → s'.comps q = some x) {p : PRef} {v : V}
    (h : Current NoP s p v) : Current NoP s' p v := by
  refine Current.of_eq hst ?_ h
  intro c y hy w hw hd
  rcases hd with hd | hd
  · exact ⟨y, hk c y hy hd, hw, Or.inl hd⟩
  · exact absurd hd (by simp [NoP])

/-- what a function reads as a plain Observable is not the slot of a Computable -/
theorem Stat.notSlot {s : St} (w : Stat s) {k : Key} (hk : s.kindAt k = some .obs) : ¬ s.isSlot k := by
  rintro ⟨c', x', hx', rfl⟩
  rw [w.slotKind c' x' hx'] at hk; cases hk

/-- the function body of Computed `c` (a pure tree), evaluated with `CURRENT_COMPUTED = c`: whether it returns or
    raises, `ps` = what it read on the way -/
theorem evalTree_spec {rec : Rec} (ih : IH rec) (c : Nat) (S : Nat → Prop) (hSc : ¬ S c) (hSlt : ∀ q, S q → c < q) :
    ∀ (t : Tree), Pure t → ∀ (s s' : St) (r : R) (x : Comp) (ps0 : List (PRef × V)),
    Ranked c t → ObsKeys (fun k => s.kindAt k = some .obs) t → Stat s → Inv (fun q => S q ∨ q = c) NoP s →
    s.cur = some c → s.comps c = some x → (∀ e, e ∈ ps0 ↔ e ∈ x.parents) →
    (∀ e ∈ ps0, Current NoP s e.1 e.2) → evalTree rec t s = some (s', r) →
    ∃ ps x', Inv (fun q => S q ∨ q = c) NoP s' ∧ StaticEq s s' ∧
      s'.store = s.store ∧ s'.cur = s.cur ∧ s'.dead = s.dead ∧
      (∀ q y, s.comps q = some y → y.dirty = false → s'.comps q = some y) ∧
      (∀ q, c < q → s'.comps q = s.comps q) ∧ Below (· < c) s s' ∧
      s'.comps c = some x' ∧ x' = { x with parents := x'.parents } ∧
      (∀ e, e ∈ ps0 ++ ps ↔ e ∈ x'.parents) ∧
      (∀ v, r = .ok v → PathR t ps v ∧ ∀ e ∈ ps0 ++ ps, Current NoP s' e.1 e.2) ∧
      (∀ e, r = .err e → Prefix t ps ∧ DenFail s' t) := by
  intro t pt
  induction pt with
  | ret v0 =>
    intro s s' r x ps0 _ _ _ inv hcur hx hps hcurr h
    simp only [evalTree] at h
    injection h with h; injection h with h1 h2; subst h1 h2
    refine ⟨[], x, inv, StaticEq.refl s, rfl, rfl, rfl, fun _ _ h _ => h, fun _ _ => rfl, Below.refl _ s, hx, rfl,
      by simpa using hps, fun v hv => ?_, fun e he => by cases he⟩
    injection hv with hv; subst hv
    exact ⟨.ret _, by simpa using hcurr⟩
  | fail =>
    intro s s' r x ps0 _ _ _ inv hcur hx hps hcurr h
    simp only [evalTree] at h
    injection h with h; injection h with h1 h2; subst h1 h2
    refine ⟨[], x, inv, StaticEq.refl s, rfl, rfl, rfl, fun _ _ h _ => h, fun _ _ => rfl, Below.refl _ s, hx, rfl,
      by simpa using hps, fun v hv => (by cases hv), fun e he => ?_⟩
    exact ⟨.nil _, .fail⟩
  | read k cont _ ihc =>
    intro s s' r x ps0 hr ho w inv hcur hx hps hcurr h
    cases hr with | read _ _ hr =>
    cases ho with | read _ _ hk ho =>
    simp only [evalTree, hcur] at h
    cases ha : addParent s c (.obs k) (s.store k) with | mk s1 r1 =>
    rw [ha] at h
    cases r1 with
    | err e => exact (addParent_ok w hx (r := .obs k) rfl (kindAt_names hk) ha).elim
    | ok u =>
      simp only at h
      have hSc' : (fun q => S q ∨ q = c) c := Or.inr rfl
      obtain ⟨inv1, se1, hst1, hcur1, hdead1, hoth1, hc1⟩ :=
        addParent_spec w inv hSc' hx (r := .obs k) (fun c' hc' => by cases hc')
          (fun k' hk' => by cases hk'; exact w.notSlot hk) ha
      have hxd : x.dirty = true := by
        obtain ⟨y, hy, hd⟩ := inv.stackDirty c hSc'
        rw [hx] at hy; cases hy; exact hd
      -- the state the rest of the function starts from
      have inv1' : Inv (fun q => S q ∨ q = c) NoP { s1 with proc := k :: s1.proc } :=
        inv1.congr rfl rfl rfl rfl inv1.curStack
      have se1' : StaticEq s { s1 with proc := k :: s1.proc } := ⟨se1.progs, se1.decls, se1.comps⟩
      have hcons : ∀ e ∈ x.parents, e.1 = .obs k → e.2 = s.store k := by
        intro e he hek
        have := hcurr e ((hps e).mpr he)
        rw [hek] at this; exact this.symm
      have hkeep1 : ∀ q y, s.comps q = some y → y.dirty = false → s1.comps q = some y := by
        intro q y hy hd
        have : q ≠ c := by intro e; subst e; rw [hx] at hy; cases hy; simp [hxd] at hd
        rw [hoth1 q this]; exact hy
      obtain ⟨ps, x', inv', se', hst', hcur', hdead', hk', hab', hbl', hc', hx', hmem', hokp, herrp⟩ :=
        ihc (s.store k) { s1 with proc := k :: s1.proc } s' r
        { x with parents := insertParent s.ownerOf (.obs k) (s.store k) x.parents }
        (ps0 ++ [(.obs k, s.store k)]) (hr _)
        ((ho _).mono fun k' hk' => by rw [se1'.kindAt]; exact hk') (w.of_staticEq se1') inv1'
        (by simpa using hcur1.trans hcur) hc1
        (fun e => by
          rw [mem_insertParent_consistent _ _ _ _ hcons, List.mem_append, List.mem_singleton, hps e]
          exact or_comm)
        (fun e he => by
          rcases List.mem_append.mp he with he | he
          · exact Current.keep (s := s) hst1 hkeep1 (hcurr e he)
          · simp only [List.mem_singleton] at he; subst he
            show s1.store k = s.store k
            rw [hst1])
        h
      have hst'' : s'.store = s.store := hst'.trans hst1
      refine ⟨(.obs k, s.store k) :: ps, x', inv', se1'.trans se', hst'', hcur'.trans hcur1, hdead'.trans hdead1,
        ?_, ?_, ?_, hc', ?_, ?_, fun v hv => ?_, fun e he => ?_⟩
      · intro q y hy hd; exact hk' q y (hkeep1 q y hy hd) hd
      · intro q hq
        rw [hab' q hq]
        exact hoth1 q (by omega)
      · exact Below.trans hst' se' hk'
          (Below.of_eq (s' := { s1 with proc := k :: s1.proc }) fun q (hq : q < c) => hoth1 q (by omega)) hbl'
      · rw [hx']
      · intro e; rw [← hmem' e]; simp [List.append_assoc]
      · obtain ⟨hp, hcurr'⟩ := hokp v hv
        exact ⟨.read k cont _ ps v hp, fun e he => hcurr' e (by simpa [List.append_assoc] using he)⟩
      · obtain ⟨hpre, hdf⟩ := herrp e he
        refine ⟨.read k cont _ ps hpre, .read k cont ?_⟩
        rw [hst'']; exact hdf
  | readC c' cont _ ihc =>
    intro s s' r x ps0 hr ho w inv hcur hx hps hcurr h
    cases hr with | readC _ _ hlt hr =>
    cases ho with | readC _ _ ho =>
    simp only [evalTree] at h
    cases hg : rec (.readC c') s with
    | none => simp [hg] at h
    | some res =>
      obtain ⟨s1, r1⟩ := res
      have hS' : ¬ (S c' ∨ c' = c) := by
        rintro (h' | h')
        · have := hSlt c' h'; omega
        · omega
      have hSlt' : ∀ q, (S q ∨ q = c) → c' < q := by
        rintro q (h' | h')
        · have := hSlt q h'; omega
        · omega
      obtain ⟨hpost, hperr⟩ := ih.get c' s s1 r1 _ w inv hS' hSlt' hg
      rw [hg] at h
      cases r1 with
      | err e =>
        simp only at h
        injection h with h; injection h with h1 h2; subst h1 h2
        have pe := hperr e rfl
        refine ⟨[], x, pe.inv, pe.stat, pe.store, pe.cur, pe.dead, pe.keepClean, fun q hq => pe.above q (by omega),
          pe.below.widen (fun q hq _ => pe.above q hq),
          by rw [pe.above c hlt]; exact hx, rfl, by simpa using hps, fun v hv => (by cases hv), fun e' he' => ?_⟩
        refine ⟨.nil _, ?_⟩
        rcases pe.failed with hnone | ⟨y, hy, _, _, hdf, _⟩
        · exact .readCUndef c' cont ((pe.stat.comps c').1.mpr hnone)
        · exact .readCFail c' cont y hy hdf
      | ok v1 =>
        simp only at h
        have pg := hpost v1 rfl
        obtain ⟨own, hc1⟩ := pg.curPar c x hcur hx
        obtain ⟨y1, hy1, hyd1, hyv1, _⟩ := pg.clean
        have hcons : ∀ e ∈ x.parents, e.1 = .comp c' → e.2 = v1 := by
          intro e he hek
          have := hcurr e ((hps e).mpr he)
          rw [hek] at this
          obtain ⟨y, hy, hyv, hyd⟩ := this
          rcases hyd with hyd | hyd
          · have := pg.keepClean c' y hy hyd
            rw [hy1] at this; cases this
            rw [hyv] at hyv1; cases hyv1; rfl
          · exact absurd hyd (by simp [NoP])
        obtain ⟨ps, x', inv', se', hst', hcur', hdead', hk', hab', hbl', hc', hx', hmem', hokp, herrp⟩ :=
          ihc v1 s1 s' r { x with parents := insertParent own (.comp c') v1 x.parents }
          (ps0 ++ [(.comp c', v1)]) (hr _)
          ((ho _).mono fun k' hk' => by rw [pg.stat.kindAt]; exact hk') (w.of_staticEq pg.stat) pg.inv
          (pg.cur.trans hcur) hc1
          (fun e => by
            rw [mem_insertParent_consistent _ _ _ _ hcons, List.mem_append, List.mem_singleton, hps e]
            exact or_comm)
          (fun e he => by
            rcases List.mem_append.mp he with he | he
            · exact Current.keep (s := s) pg.store pg.keepClean (hcurr e he)
            · simp only [List.mem_singleton] at he; subst he
              exact ⟨y1, hy1, hyv1, Or.inl hyd1⟩)
          h
        refine ⟨(.comp c', v1) :: ps, x', inv', pg.stat.trans se', hst'.trans pg.store,
          hcur'.trans pg.cur, hdead'.trans pg.dead, ?_, ?_, ?_, hc', ?_, ?_, fun v hv => ?_, fun e he => ?_⟩
        · intro q y hy hd; exact hk' q y (pg.keepClean q y hy hd) hd
        · intro q hq
          rw [hab' q hq]
          exact pg.above q (by omega) (by rw [hcur]; intro e; injection e with e; omega)
        · exact Below.trans hst' se' hk'
            (pg.below.widen fun q hq hqc => pg.above q hq (by rw [hcur]; intro e; injection e with e; omega)) hbl'
        · rw [hx']
        · intro e; rw [← hmem' e]; simp [List.append_assoc]
        · obtain ⟨hp, hcurr'⟩ := hokp v hv
          exact ⟨.readC c' cont _ ps v hp, fun e he => hcurr' e (by simpa [List.append_assoc] using he)⟩
        · obtain ⟨hpre, hdf⟩ := herrp e he
          obtain ⟨v', hv', hden⟩ := clean_den pg.inv c' y1 hy1 hyd1
          rw [hyv1] at hv'; cases hv'
          obtain ⟨y', hy', _, _, ht⟩ := se'.defined hy1
          exact ⟨.readC c' cont _ ps hpre,
            .readC c' cont y' v1 hy' (by rw [ht]; exact hden.congr hst' se') hdf⟩

/-- the dirty pre-check of Computed `c` over its remembered parents `ps`: it never raises (G12 repaired) -/
theorem precheck_spec {rec : Rec} (ih : IH rec) (c : Nat) (S : Nat → Prop) (hSlt : ∀ q, S q → c < q) :
    ∀ (ps : List (PRef × V)) (s s' : St) (r : Except Err Bool),
    (∀ e ∈ ps, (∀ c', e.1 = .comp c' → c' < c) ∧ ∃ k, s.keyOf e.1 = some k) → Stat s → Inv S NoP s → s.cur = none →
    precheck rec ps s = some (s', r) →
    ∃ b, r = .ok b ∧ Inv S NoP s' ∧ StaticEq s s' ∧ s'.store = s.store ∧ s'.cur = none ∧ s'.dead = s.dead ∧
      (∀ q y, s.comps q = some y → y.dirty = false → s'.comps q = some y) ∧
      (∀ q, c ≤ q → s'.comps q = s.comps q) ∧ Below (· < c) s s' ∧
      (b = false → ∀ e ∈ ps, Current NoP s' e.1 e.2) ∧
      (b = true → ∃ e ∈ ps, Stale s' e) := by
  intro ps
  induction ps with
  | nil =>
    intro s s' r _ _ inv hcur h
    simp only [precheck] at h
    injection h with h; injection h with h1 h2; subst h1 h2
    exact ⟨false, rfl, inv, StaticEq.refl s, rfl, hcur, rfl, fun _ _ h _ => h, fun _ _ => rfl, Below.refl _ s,
      fun _ e he => (by simp at he), fun h => (by cases h)⟩
  | cons e ps ihp =>
    intro s s' r hpar w inv hcur h
    obtain ⟨p, v⟩ := e
    cases p with
    | obs k =>
      simp only [precheck] at h
      by_cases hne : s.store k ≠ v
      · rw [if_pos hne] at h
        injection h with h; injection h with h1 h2; subst h1 h2
        exact ⟨true, rfl, inv, StaticEq.refl s, rfl, hcur, rfl, fun _ _ h _ => h, fun _ _ => rfl, Below.refl _ s,
          fun h => (by cases h), fun _ => ⟨(.obs k, v), by simp, hne⟩⟩
      · rw [if_neg hne] at h
        obtain ⟨b, hb, i1, i2, i3, i4, i5, i6, i7, ib, i8, i9⟩ := ihp s s' r (fun e he => hpar e (by simp [he])) w inv hcur h
        refine ⟨b, hb, i1, i2, i3, i4, i5, i6, i7, ib, fun hb' e he => ?_, fun hb' => ?_⟩
        · rcases List.mem_cons.mp he with rfl | he
          · show s'.store k = v
            rw [i3]; exact Decidable.not_not.mp hne
          · exact i8 hb' e he
        · obtain ⟨e, he, hs⟩ := i9 hb'
          exact ⟨e, by simp [he], hs⟩
    | comp c4 =>
      have hc4 : c4 < c := (hpar (.comp c4, v) (by simp)).1 c4 rfl
      simp only [precheck] at h
      cases hg : rec (.readC c4) s with
      | none => simp [hg] at h
      | some res =>
        obtain ⟨s1, r1⟩ := res
        have hS4 : ¬ S c4 := fun h' => by have := hSlt c4 h'; omega
        have hSlt4 : ∀ q, S q → c4 < q := fun q h' => by have := hSlt q h'; omega
        obtain ⟨hpost, hperr⟩ := ih.get c4 s s1 r1 S w inv hS4 hSlt4 hg
        rw [hg] at h
        cases r1 with
        | err e =>
          -- the remembered Computable raises now: that counts as "changed"
          simp only at h
          injection h with h; injection h with h1 h2; subst h1 h2
          have pe := hperr e rfl
          have hdef4 : ∃ y4, s.comps c4 = some y4 := by
            obtain ⟨_, k, hk⟩ := hpar (.comp c4, v) (by simp)
            simp only [St.keyOf] at hk
            cases h4 : s.comps c4 with
            | none => simp [h4] at hk
            | some y4 => exact ⟨y4, rfl⟩
          obtain ⟨y4, hy4⟩ := hdef4
          rcases pe.failed with hnone | ⟨y, hy, _, _, hdf, _⟩
          · rw [hy4] at hnone; cases hnone
          exact ⟨true, rfl, pe.inv, pe.stat, pe.store, pe.cur.trans hcur, pe.dead, pe.keepClean,
            fun q hq => pe.above q (by omega), pe.below.widen (fun q hq _ => pe.above q hq), fun h => (by cases h),
            fun _ => ⟨(.comp c4, v), by simp, y, hy, Or.inr hdf⟩⟩
        | ok v' =>
          simp only at h
          have pg := hpost v' rfl
          have hab : ∀ q, c ≤ q → s1.comps q = s.comps q :=
            fun q hq => pg.above q (by omega) (by rw [hcur]; simp)
          by_cases hne : v' ≠ v
          · rw [if_pos hne] at h
            injection h with h; injection h with h1 h2; subst h1 h2
            obtain ⟨y, hy, hyd, hyv, _⟩ := pg.clean
            refine ⟨true, rfl, pg.inv, pg.stat, pg.store, pg.cur.trans hcur, pg.dead, pg.keepClean, hab,
              pg.below.widen (fun q hq _ => pg.above q hq (by rw [hcur]; simp)), fun h => (by cases h),
              fun _ => ⟨(.comp c4, v), by simp, y, hy, Or.inl ⟨hyd, ?_⟩⟩⟩
            rw [hyv]; intro e; injection e with e; exact hne e
          · rw [if_neg hne] at h
            have hveq : v' = v := Decidable.not_not.mp hne
            obtain ⟨b, hb, i1, i2, i3, i4, i5, i6, i7, ib, i8, i9⟩ :=
              ihp s1 s' r (fun e he => by
                obtain ⟨h1, k, hk⟩ := hpar e (by simp [he])
                exact ⟨h1, k, by rw [pg.stat.keyOf]; exact hk⟩) (w.of_staticEq pg.stat) pg.inv (pg.cur.trans hcur) h
            refine ⟨b, hb, i1, pg.stat.trans i2, i3.trans pg.store, i4, i5.trans pg.dead,
              fun q y hy hd => i6 q y (pg.keepClean q y hy hd) hd, fun q hq => (i7 q hq).trans (hab q hq),
              Below.trans i3 i2 i6 (pg.below.widen (fun q hq _ => pg.above q hq (by rw [hcur]; simp))) ib,
              fun hb' e he => ?_, fun hb' => ?_⟩
            · rcases List.mem_cons.mp he with rfl | he
              · obtain ⟨y, hy, hyd, hyv, _⟩ := pg.clean
                exact ⟨y, i6 c4 y hy hyd, by rw [hyv, hveq], Or.inl hyd⟩
              · exact i8 hb' e he
            · obtain ⟨e, he, hs⟩ := i9 hb'
              exact ⟨e, by simp [he], hs⟩


/-- the evaluated Computed `c` stores its value, becomes clean and leaves the stack -/
theorem Inv.finish {S : Nat → Prop} {s : St} {c : Nat} {x : Comp} {v : V} {ps : List (PRef × V)}
    {saved : Option Nat} (inv : Inv (fun q => S q ∨ q = c) NoP s) (hSc : ¬ S c) (hx : s.comps c = some x)
    (hf : x.first = false) (hp : PathR x.tree ps v) (hmem : ∀ e, e ∈ ps ↔ e ∈ x.parents)
    (hcurr : ∀ e ∈ x.parents, Current NoP s e.1 e.2) (hsaved : ∀ p, saved = some p → S p) :
    Inv S NoP { (s.setComp c { x with value := some v, dirty := false }) with cur := saved } := by
  have hxd : x.dirty = true := by
    obtain ⟨y, hy, hd⟩ := inv.stackDirty c (Or.inr rfl)
    rw [hx] at hy; cases hy; exact hd
  have se : StaticEq s (s.setComp c { x with value := some v, dirty := false }) := StaticEq.of_setComp hx rfl rfl rfl
  have hkey := se.keyOf
  have hsl := se.isSlot
  have hsubd : ∀ q p0, Subd s q p0 → Subd { (s.setComp c { x with value := some v, dirty := false }) with cur := saved } q p0 := by
    intro q p0 ⟨k, h1, h2, h3⟩
    exact ⟨k, by rw [← hkey] at h1; exact h1, h2, h3⟩
  have hcur' : ∀ p0 v0, Current NoP s p0 v0 → p0 ≠ .comp c →
      Current NoP { (s.setComp c { x with value := some v, dirty := false }) with cur := saved } p0 v0 := by
    intro p0 v0 h hne
    cases p0 with
    | obs k => exact h
    | comp c' =>
      obtain ⟨y, hy, hv, hd⟩ := h
      have : c' ≠ c := fun e => hne (by rw [e])
      exact ⟨y, by show (s.setComp c _).comps c' = some y; rw [setComp_ne _ _ this]; exact hy, hv, hd⟩
  refine ⟨?_, hsaved, ?_, ?_, ?_, ?_, inv.userOK⟩
  · intro q hq
    have : q ≠ c := fun e => hSc (e ▸ hq)
    show ∃ y, (s.setComp c _).comps q = some y ∧ _
    rw [setComp_ne _ _ this]; exact inv.stackDirty q (Or.inl hq)
  · intro q y hy hq
    by_cases h : q = c
    · subst h
      have : y = { x with value := some v, dirty := false } := by
        have : (s.setComp q { x with value := some v, dirty := false }).comps q = some y := hy
        rw [setComp_same] at this; cases this; rfl
      subst this
      exact ⟨fun h' => by simp [hf] at h', fun _ => ⟨v, ps, rfl, hp, hmem⟩⟩
    · have hy' : s.comps q = some y := by
        have : (s.setComp c { x with value := some v, dirty := false }).comps q = some y := hy
        rwa [setComp_ne _ _ h] at this
      exact inv.evald q y hy' (by rintro (h' | h'); exact hq h'; exact h h')
  · intro q y hy p0 v0 hp0
    by_cases h : q = c
    · subst h
      have : y = { x with value := some v, dirty := false } := by
        have : (s.setComp q { x with value := some v, dirty := false }).comps q = some y := hy
        rw [setComp_same] at this; cases this; rfl
      subst this
      obtain ⟨h1, h2, h3⟩ := inv.parents q x hx p0 v0 hp0
      exact ⟨h1, fun k hk hs => h2 k hk ((hsl k).mp hs), hsubd q p0 h3⟩
    · have hy' : s.comps q = some y := by
        have : (s.setComp c { x with value := some v, dirty := false }).comps q = some y := hy
        rwa [setComp_ne _ _ h] at this
      obtain ⟨h1, h2, h3⟩ := inv.parents q y hy' p0 v0 hp0
      exact ⟨h1, fun k hk hs => h2 k hk ((hsl k).mp hs), hsubd q p0 h3⟩
  · intro o n t q hq
    obtain ⟨ht, y, hy, p0, v0, hp0, hk0⟩ := inv.subsOf o n t q hq
    refine ⟨ht, ?_⟩
    by_cases h : q = c
    · subst h
      rw [hx] at hy; cases hy
      exact ⟨_, setComp_same _ _ _, p0, v0, hp0, by rw [← hkey] at hk0; exact hk0⟩
    · exact ⟨y, by show (s.setComp c _).comps q = some y; rw [setComp_ne _ _ h]; exact hy, p0, v0, hp0,
        by rw [← hkey] at hk0; exact hk0⟩
  · intro q y hy hd p0 v0 hp0
    by_cases h : q = c
    · subst h
      have : y = { x with value := some v, dirty := false } := by
        have : (s.setComp q { x with value := some v, dirty := false }).comps q = some y := hy
        rw [setComp_same] at this; cases this; rfl
      subst this
      have hne : p0 ≠ .comp q := by
        intro e
        exact absurd ((inv.parents q x hx p0 v0 hp0).1 q e) (Nat.lt_irrefl q)
      exact hcur' p0 v0 (hcurr (p0, v0) hp0) hne
    · have hy' : s.comps q = some y := by
        have : (s.setComp c { x with value := some v, dirty := false }).comps q = some y := hy
        rwa [setComp_ne _ _ h] at this
      have hc0 := inv.current q y hy' hd p0 v0 hp0
      have hne : p0 ≠ .comp c := by
        intro e; subst e
        obtain ⟨z, hz, _, hzd⟩ := hc0
        rw [hx] at hz; cases hz
        rcases hzd with hzd | hzd
        · simp [hxd] at hzd
        · exact hzd
      exact hcur' p0 v0 hc0 hne


/-- the function of the evaluated Computed `c` raised: `c` will run it again next time (`_first = True`), stays dirty and
    leaves the stack; what it read before the failure stays remembered (and subscribed) until then -/
theorem Inv.fail {S : Nat → Prop} {s : St} {c : Nat} {x : Comp} {ps : List (PRef × V)}
    {saved : Option Nat} (inv : Inv (fun q => S q ∨ q = c) NoP s) (hSc : ¬ S c) (hx : s.comps c = some x)
    (hp : Prefix x.tree ps) (hmem : ∀ e, e ∈ ps ↔ e ∈ x.parents) (hsaved : ∀ p, saved = some p → S p) :
    Inv S NoP { (s.setComp c { x with first := true }) with cur := saved } := by
  have hxd : x.dirty = true := by
    obtain ⟨y, hy, hd⟩ := inv.stackDirty c (Or.inr rfl)
    rw [hx] at hy; cases hy; exact hd
  have se : StaticEq s (s.setComp c { x with first := true }) := StaticEq.of_setComp hx rfl rfl rfl
  have hkey := se.keyOf
  have hsl := se.isSlot
  have hsubd : ∀ q p0, Subd s q p0 → Subd { (s.setComp c { x with first := true }) with cur := saved } q p0 := by
    intro q p0 ⟨k, h1, h2, h3⟩
    exact ⟨k, by rw [← hkey] at h1; exact h1, h2, h3⟩
  have hcomps : ∀ q, q ≠ c → ∀ y, ({ (s.setComp c { x with first := true }) with cur := saved } : St).comps q = some y →
      s.comps q = some y := by
    intro q hq y hy
    have : (s.setComp c { x with first := true }).comps q = some y := hy
    rwa [setComp_ne _ _ hq] at this
  have hself : ∀ y, ({ (s.setComp c { x with first := true }) with cur := saved } : St).comps c = some y →
      y = { x with first := true } := by
    intro y hy
    have : (s.setComp c { x with first := true }).comps c = some y := hy
    rw [setComp_same] at this; cases this; rfl
  refine ⟨?_, hsaved, ?_, ?_, ?_, ?_, inv.userOK⟩
  · intro q hq
    have : q ≠ c := fun e => hSc (e ▸ hq)
    show ∃ y, (s.setComp c _).comps q = some y ∧ _
    rw [setComp_ne _ _ this]; exact inv.stackDirty q (Or.inl hq)
  · intro q y hy hq
    by_cases h : q = c
    · subst h
      have := hself y hy; subst this
      exact ⟨fun _ => ⟨hxd, ps, hp, hmem⟩, fun h' => by simp at h'⟩
    · exact inv.evald q y (hcomps q h y hy) (by rintro (h' | h'); exact hq h'; exact h h')
  · intro q y hy p0 v0 hp0
    by_cases h : q = c
    · subst h
      have := hself y hy; subst this
      obtain ⟨h1, h2, h3⟩ := inv.parents q x hx p0 v0 hp0
      exact ⟨h1, fun k hk hs => h2 k hk ((hsl k).mp hs), hsubd q p0 h3⟩
    · obtain ⟨h1, h2, h3⟩ := inv.parents q y (hcomps q h y hy) p0 v0 hp0
      exact ⟨h1, fun k hk hs => h2 k hk ((hsl k).mp hs), hsubd q p0 h3⟩
  · intro o n t q hq
    obtain ⟨ht, y, hy, p0, v0, hp0, hk0⟩ := inv.subsOf o n t q hq
    refine ⟨ht, ?_⟩
    by_cases h : q = c
    · subst h
      rw [hx] at hy; cases hy
      exact ⟨_, setComp_same _ _ _, p0, v0, hp0, by rw [← hkey] at hk0; exact hk0⟩
    · exact ⟨y, by show (s.setComp c _).comps q = some y; rw [setComp_ne _ _ h]; exact hy, p0, v0, hp0,
        by rw [← hkey] at hk0; exact hk0⟩
  · intro q y hy hd p0 v0 hp0
    by_cases h : q = c
    · subst h
      have := hself y hy; subst this
      simp [hxd] at hd
    · have hy' := hcomps q h y hy
      have hc0 := inv.current q y hy' hd p0 v0 hp0
      cases p0 with
      | obs k => exact hc0
      | comp c' =>
        obtain ⟨z, hz, hzv, hzd⟩ := hc0
        have hne : c' ≠ c := by
          intro e; subst e
          rw [hx] at hz; cases hz
          rcases hzd with hzd | hzd
          · simp [hxd] at hzd
          · exact hzd
        exact ⟨z, by show (s.setComp c _).comps c' = some z; rw [setComp_ne _ _ hne]; exact hz, hzv, hzd⟩

/-- the re-evaluation branch of `Computed.__call__` for the (already stacked) Computed `c` -/
theorem evalBody_spec {rec : Rec} (ih : IH rec) (c : Nat) (S : Nat → Prop) (hSc : ¬ S c) (hSlt : ∀ q, S q → c < q)
    {s1 s' : St} {r : R} {x : Comp} {saved : Option Nat} (w : Stat s1)
    (inv : Inv (fun q => S q ∨ q = c) NoP s1) (hx : s1.comps c = some x) (hfirst : x.first = false)
    (hsaved : ∀ p, saved = some p → S p) (h : evalBody rec c x.tree saved s1 = some (s', r)) :
    Inv S NoP s' ∧ StaticEq s1 s' ∧ s'.store = s1.store ∧ s'.cur = saved ∧ s'.dead = s1.dead ∧
    (∀ q y, s1.comps q = some y → y.dirty = false → s'.comps q = some y) ∧
    (∀ q, c < q → s'.comps q = s1.comps q) ∧ Below (· < c) s1 s' ∧
    (∀ v, r = .ok v → ∃ y, s'.comps c = some y ∧ y.dirty = false ∧ y.value = some v ∧ y.evals = x.evals + 1) ∧
    (∀ e, r = .err e →
      ∃ y, s'.comps c = some y ∧ y.first = true ∧ y.dirty = true ∧ DenFail s' y.tree ∧ y.evals = x.evals + 1) := by
  have hSc' : (fun q => S q ∨ q = c) c := Or.inr rfl
  obtain ⟨inv2, se2, st2, cur2, dead2, oth2, hc2⟩ := removeParents_spec w inv hSc' hx
  have hxd : x.dirty = true := by
    obtain ⟨y, hy, hd⟩ := inv.stackDirty c hSc'
    rw [hx] at hy; cases hy; exact hd
  unfold evalBody at h
  simp only [hc2] at h
  -- the state in which the function body starts
  have inv3a : Inv (fun q => S q ∨ q = c) NoP
      ((removeParents s1 c).setComp c { x with parents := [], evals := x.evals + 1 }) :=
    inv2.update_comp hc2 rfl rfl (fun _ => hxd) (fun h' => absurd hSc' h') rfl (fun p v hp => by simp at hp)
      (fun p v hp => by simp at hp) (fun hd => by simp [hxd] at hd) (fun v hv hd => ⟨hv, hd⟩)
  have se3a : StaticEq (removeParents s1 c)
      ((removeParents s1 c).setComp c { x with parents := [], evals := x.evals + 1 }) :=
    StaticEq.of_setComp hc2 rfl rfl rfl
  generalize hs3 : ({ ((removeParents s1 c).setComp c { x with parents := [], evals := x.evals + 1 }) with
      cur := some c, depth := (removeParents s1 c).depth + 1 } : St) = s3 at h
  have inv3 : Inv (fun q => S q ∨ q = c) NoP s3 := by
    subst hs3; exact inv3a.congr rfl rfl rfl rfl (fun p hp => by cases hp; exact hSc')
  have se3 : StaticEq s1 s3 := by
    subst hs3; exact se2.trans ⟨se3a.progs, se3a.decls, se3a.comps⟩
  have hx3 : s3.comps c = some { x with parents := [], evals := x.evals + 1 } := by subst hs3; simp
  have hcur3 : s3.cur = some c := by subst hs3; rfl
  have hst3 : s3.store = s1.store := by subst hs3; exact st2
  have hdead3 : s3.dead = s1.dead := by subst hs3; exact dead2
  have hoth3 : ∀ q, q ≠ c → s3.comps q = s1.comps q := by
    intro q hq; subst hs3
    show ((removeParents s1 c).setComp c _).comps q = _
    rw [setComp_ne _ _ hq]; exact oth2 q hq
  have w3 : Stat s3 := w.of_staticEq se3
  cases he : evalTree rec x.tree s3 with
  | none => simp [he] at h
  | some res =>
    obtain ⟨s4, r4⟩ := res
    obtain ⟨ps, x4, inv4, se4, hst4, hcur4, hdead4, hk4, hab4, hbl4, hc4, hx4, hmem4, hokp, herrp⟩ :=
      evalTree_spec ih c S hSc hSlt x.tree (w.pure c x hx) s3 s4 r4
      { x with parents := [], evals := x.evals + 1 } [] (w.ranked c x hx)
      ((w.obsKind c x hx).mono fun k hk => by rw [se3.kindAt]; exact hk) w3 inv3 hcur3 hx3 (fun e => by simp)
      (fun e he => by simp at he) he
    rw [he] at h
    have hx4t : x4.tree = x.tree := by rw [hx4]
    have hx4f : x4.first = false := by rw [hx4]; exact hfirst
    have hx4e : x4.evals = x.evals + 1 := by rw [hx4]
    have hx4d : x4.dirty = true := by rw [hx4]; exact hxd
    have hkeep : ∀ q y, s1.comps q = some y → y.dirty = false → ∀ z, (s4.setComp c z).comps q = some y := by
      intro q y hy hd z
      have hq : q ≠ c := by intro e; subst e; rw [hx] at hy; cases hy; simp [hxd] at hd
      rw [setComp_ne _ _ hq]
      exact hk4 q y (by rw [hoth3 q hq]; exact hy) hd
    have habove : ∀ q, c < q → ∀ z, (s4.setComp c z).comps q = s1.comps q := by
      intro q hq z
      have hq' : q ≠ c := by omega
      rw [setComp_ne _ _ hq', hab4 q hq, hoth3 q hq']
    have hbelow : ∀ z, StaticEq s4 (leave saved (s4.setComp c z)) →
        Below (· < c) s1 (leave saved (s4.setComp c z)) := by
      intro z sez
      have b14 : Below (· < c) s1 s4 :=
        Below.trans hst4 se4 hk4 (Below.of_eq fun q (hq : q < c) => hoth3 q (by omega)) hbl4
      refine Below.trans (s1 := s4) rfl sez ?_ b14 (Below.of_eq fun q (hq : q < c) => ?_)
      · intro q y hy hd
        have hq : q ≠ c := by intro e; subst e; rw [hc4] at hy; cases hy; simp [hx4d] at hd
        show (s4.setComp c z).comps q = some y
        rw [setComp_ne _ _ hq]; exact hy
      · show (s4.setComp c z).comps q = s4.comps q
        rw [setComp_ne _ _ (by omega)]
    cases r4 with
    | err e =>
      simp only at h
      injection h with h; injection h with h1 h2; subst h1 h2
      obtain ⟨hpre, hdf⟩ := herrp e rfl
      have hmf : markFailed s4 c = s4.setComp c { x4 with first := true } := by simp [markFailed, hc4]
      rw [hmf]
      have sef : StaticEq s4 (leave saved (s4.setComp c { x4 with first := true })) := by
        have := StaticEq.of_setComp (s := s4) (x' := { x4 with first := true }) hc4 rfl rfl rfl
        exact ⟨this.progs, this.decls, this.comps⟩
      refine ⟨?_, (se3.trans se4).trans sef, hst4.trans hst3, rfl, hdead4.trans hdead3,
        fun q y hy hd => hkeep q y hy hd _, fun q hq => habove q hq _, hbelow _ sef, fun v hv => (by cases hv),
        fun e' he' => ?_⟩
      · exact (Inv.fail (saved := saved) inv4 hSc hc4 (by rw [hx4t]; exact hpre) (fun e => by simpa using hmem4 e)
          hsaved).congr rfl rfl rfl rfl (fun p hp => hsaved p hp)
      · refine ⟨_, setComp_same _ _ _, rfl, hx4d, ?_, hx4e⟩
        have hdf4 : DenFail s4 x4.tree := by rw [hx4t]; exact hdf
        exact DenFail.congr (s := s4) (s' := leave saved (s4.setComp c { x4 with first := true })) rfl sef hdf4
    | ok v =>
      simp only at h
      obtain ⟨hp, hcurr4⟩ := hokp v rfl
      simp only [hc4] at h
      injection h with h; injection h with h1 h2; subst h1 h2
      have sek : StaticEq s4 (leave saved (s4.setComp c { x4 with value := some v, dirty := false })) := by
        have := StaticEq.of_setComp (s := s4) (x' := { x4 with value := some v, dirty := false }) hc4 rfl rfl rfl
        exact ⟨this.progs, this.decls, this.comps⟩
      refine ⟨?_, ?_, hst4.trans hst3, rfl, hdead4.trans hdead3,
        fun q y hy hd => hkeep q y hy hd _, fun q hq => habove q hq _, hbelow _ sek, fun v' hv' => ?_,
        fun e he => by cases he⟩
      · exact (Inv.finish (saved := saved) inv4 hSc hc4 hx4f (by rw [hx4t]; exact hp) (fun e => by simpa using hmem4 e)
          (fun e he => hcurr4 e (by simpa using (hmem4 e).mpr he)) hsaved).congr rfl rfl rfl rfl
          (fun p hp => hsaved p hp)
      · have : StaticEq s4 (leave saved (s4.setComp c { x4 with value := some v, dirty := false })) := by
          have := StaticEq.of_setComp (s := s4) (x' := { x4 with value := some v, dirty := false }) hc4 rfl rfl rfl
          exact ⟨this.progs, this.decls, this.comps⟩
        exact (se3.trans se4).trans this
      · injection hv' with hv'; subst hv'
        exact ⟨_, setComp_same _ _ _, rfl, rfl, hx4e⟩

/-- `Computed.__call__` -/
theorem callC_spec {rec : Rec} (ih : IH rec) (c : Nat) (S : Nat → Prop) (hSc : ¬ S c) (hSlt : ∀ q, S q → c < q)
    {s s' : St} {r : R} {x : Comp} (w : Stat s) (inv : Inv S NoP s) (hx : s.comps c = some x)
    (h : callC rec c x s = some (s', r)) :
    Inv S NoP s' ∧ StaticEq s s' ∧ s'.store = s.store ∧ s'.cur = s.cur ∧ s'.dead = s.dead ∧
    (∀ q y, s.comps q = some y → y.dirty = false → s'.comps q = some y) ∧
    (∀ q, c < q → s'.comps q = s.comps q) ∧ Below (· ≤ c) s s' ∧
    (∀ v, r = .ok v → (∃ y, s'.comps c = some y ∧ y.dirty = false ∧ y.value = some v ∧ Justified x s' y) ∧
      (x.dirty = false → x.value = some v)) ∧
    (∀ e, r = .err e →
      ∃ y, s'.comps c = some y ∧ y.first = true ∧ y.dirty = true ∧ DenFail s' y.tree ∧ Justified x s' y) := by
  unfold callC at h
  by_cases hd : x.dirty = false
  · -- served from the cache
    rw [if_pos (by simp [hd])] at h
    obtain ⟨hf1, hf2⟩ := inv.evald c x hx hSc
    have hf : x.first = false := by
      cases hxf : x.first with
      | false => rfl
      | true => have := (hf1 hxf).1; simp [hd] at this
    obtain ⟨v0, ps, hv0, _, _⟩ := hf2 hf
    rw [hv0] at h
    injection h with h; injection h with h1 h2; subst h1 h2
    refine ⟨inv, StaticEq.refl s, rfl, rfl, rfl, fun _ _ h _ => h, fun _ _ => rfl, Below.refl _ s, fun v hv => ?_,
      fun e he => by cases he⟩
    injection hv with hv; subst hv
    exact ⟨⟨x, hx, hd, hv0, Or.inl rfl⟩, fun _ => hv0⟩
  · have hd' : x.dirty = true := by cases hxd : x.dirty <;> simp_all
    rw [if_neg (by simp [hd'])] at h
    have invS' : Inv (fun q => S q ∨ q = c) NoP s := inv.push hx hd'
    have hsaved : ∀ p, s.cur = some p → S p := inv.curStack
    by_cases hf : x.first = true
    · -- first evaluation (also after one that raised): no pre-check
      rw [if_pos hf] at h
      have inv0 : Inv (fun q => S q ∨ q = c) NoP (s.setComp c { x with first := false }) :=
        invS'.update_comp hx rfl rfl (fun _ => hd') (fun h' => absurd (Or.inr rfl) h') rfl
          (fun p v hp => invS'.parents c x hx p v hp) (fun p v hp => ⟨v, hp⟩) (fun hd0 => by simp [hd'] at hd0)
          (fun v hv hdd => ⟨hv, hdd⟩)
      have se0 : StaticEq s (s.setComp c { x with first := false }) := StaticEq.of_setComp hx rfl rfl rfl
      obtain ⟨i1, i2, i3, i4, i5, i7, i8, ib, hok, herr⟩ :=
        evalBody_spec ih c S hSc hSlt (x := { x with first := false }) (w.of_staticEq se0) inv0
        (setComp_same _ _ _) rfl hsaved h
      refine ⟨i1, se0.trans i2, i3, i4, i5, ?_, ?_, ?_, fun v hv => ?_, fun e he => ?_⟩
      · intro q y0 hy0 hd0
        have hq : q ≠ c := by intro e; subst e; rw [hx] at hy0; cases hy0; simp [hd'] at hd0
        exact i7 q y0 (by rw [setComp_ne _ _ hq]; exact hy0) hd0
      · intro q hq
        rw [i8 q hq, setComp_ne _ _ (by omega)]
      · refine Below.snoc (Below.eq_step (fun q (hq : q < c) => setComp_ne _ _ (by omega)) ib) ?_
        intro x0 hx0
        rw [hx] at hx0; cases hx0
        cases r with
        | ok v =>
          obtain ⟨y, hy, _, _, hye⟩ := hok v rfl
          have hye' : y.evals = x.evals + 1 := hye
          exact ⟨y, hy, Or.inr ⟨by omega, hd', Or.inl hf⟩⟩
        | err e =>
          obtain ⟨y, hy, _, _, _, hye⟩ := herr e rfl
          have hye' : y.evals = x.evals + 1 := hye
          exact ⟨y, hy, Or.inr ⟨by omega, hd', Or.inl hf⟩⟩
      · obtain ⟨y, hy, hyd, hyv, hye⟩ := hok v hv
        exact ⟨⟨y, hy, hyd, hyv, Or.inr ⟨hye, hd', Or.inl hf⟩⟩, fun h' => by simp [hd'] at h'⟩
      · obtain ⟨y, hy, hyf, hyd, hdf, hye⟩ := herr e he
        exact ⟨y, hy, hyf, hyd, hdf, Or.inr ⟨hye, hd', Or.inl hf⟩⟩
    · have hf' : x.first = false := by cases hxf : x.first <;> simp_all
      rw [if_neg hf] at h
      have hxx : ({ x with first := false } : Comp) = x := by cases x; simp_all
      rw [hxx] at h
      have inv0 : Inv S NoP (s.setComp c x) :=
        inv.update_comp hx rfl rfl (fun h' => absurd h' hSc) (fun _ => inv.evald c x hx hSc) rfl
          (fun p v hp => inv.parents c x hx p v hp) (fun p v hp => ⟨v, hp⟩) (fun hd0 => by simp [hd'] at hd0)
          (fun v hv hdd => ⟨hv, hdd⟩)
      have se0 : StaticEq s (s.setComp c x) := StaticEq.of_setComp hx rfl rfl rfl
      have inv0' : Inv S NoP { (s.setComp c x) with cur := none } :=
        inv0.congr rfl rfl rfl rfl (fun p hp => by cases hp)
      have se0' : StaticEq s { (s.setComp c x) with cur := none } := ⟨se0.progs, se0.decls, se0.comps⟩
      have hpre := fun (s1 : St) (r1 : Except Err Bool)
          (hp : precheck rec x.parents { (s.setComp c x) with cur := none } = some (s1, r1)) =>
        precheck_spec ih c S hSlt x.parents _ s1 r1
          (fun e he => ⟨fun c' hc' => (inv.parents c x hx e.1 e.2 he).1 c' hc', by
            obtain ⟨_, _, k, hk, _, _⟩ := inv.parents c x hx e.1 e.2 he
            exact ⟨k, by rw [se0'.keyOf]; exact hk⟩⟩) (w.of_staticEq se0') inv0' rfl hp
      split at h
      · cases h
      · rename_i s1 e hp
        obtain ⟨b, hb, _⟩ := hpre s1 _ hp
        cases hb
      · rename_i s1 hp
        obtain ⟨b, hb, i1, i2, i3, i4, i5, i6, i7, ib, i8, i9⟩ := hpre s1 _ hp
        injection hb with hb; subst hb
        have hc1 : s1.comps c = some x := by
          rw [i7 c (Nat.le_refl c)]; exact setComp_same _ _ _
        have inv1 : Inv S NoP { s1 with cur := s.cur } := i1.congr rfl rfl rfl rfl hsaved
        have se1 : StaticEq s { s1 with cur := s.cur } := by
          have := se0'.trans i2
          exact ⟨this.progs, this.decls, this.comps⟩
        have hkeep1 : ∀ q y, s.comps q = some y → y.dirty = false → s1.comps q = some y := by
          intro q y hy hdq
          have hq : q ≠ c := by intro e; subst e; rw [hx] at hy; cases hy; simp [hd'] at hdq
          exact i6 q y (by show (s.setComp c x).comps q = some y; rw [setComp_ne _ _ hq]; exact hy) hdq
        have hab1 : ∀ q, c < q → s1.comps q = s.comps q := by
          intro q hq
          rw [i7 q (by omega)]
          show (s.setComp c x).comps q = _
          rw [setComp_ne _ _ (by omega)]
        obtain ⟨j1, j2, j3, j4, j5, j7, j8, jb, hok, herr⟩ :=
          evalBody_spec ih c S hSc hSlt (w.of_staticEq se1) (inv1.push (c := c) hc1 hd') (by exact hc1) hf' hsaved h
        obtain ⟨e0, he0, hst0⟩ := i9 rfl
        have hstale : ∃ e ∈ x.parents, Stale s' e :=
          ⟨e0, he0, Stale.keep (s := s1) j3 ⟨j2.progs, j2.decls, j2.comps⟩ j7 hst0⟩
        have hbelow : Below (· ≤ c) s s' := by
          refine Below.snoc (Below.eq_step (s1 := { (s.setComp c x) with cur := none })
            (fun q (hq : q < c) => setComp_ne _ _ (by omega))
            (Below.trans (s1 := s1) j3 ⟨j2.progs, j2.decls, j2.comps⟩ j7 ib
              (Below.eq_step (s1 := { s1 with cur := s.cur }) (fun _ _ => rfl) jb))) ?_
          intro x0 hx0
          rw [hx] at hx0; cases hx0
          cases r with
          | ok v =>
            obtain ⟨y, hy, _, _, hye⟩ := hok v rfl
            exact ⟨y, hy, Or.inr ⟨by omega, hd', Or.inr hstale⟩⟩
          | err e =>
            obtain ⟨y, hy, _, _, _, hye⟩ := herr e rfl
            exact ⟨y, hy, Or.inr ⟨by omega, hd', Or.inr hstale⟩⟩
        refine ⟨j1, se1.trans j2, j3.trans i3, j4, j5.trans i5,
          fun q y0 hy0 hd0 => j7 q y0 (hkeep1 q y0 hy0 hd0) hd0,
          fun q hq => (j8 q hq).trans (hab1 q hq), hbelow, fun v hv => ?_, fun e he => ?_⟩
        · obtain ⟨y, hy, hyd, hyv, hye⟩ := hok v hv
          exact ⟨⟨y, hy, hyd, hyv, Or.inr ⟨hye, hd', Or.inr hstale⟩⟩, fun h' => by simp [hd'] at h'⟩
        · obtain ⟨y, hy, hyf, hyd, hdf, hye⟩ := herr e he
          exact ⟨y, hy, hyf, hyd, hdf, Or.inr ⟨hye, hd', Or.inr hstale⟩⟩
      · rename_i s1 hp
        obtain ⟨b, hb, i1, i2, i3, i4, i5, i6, i7, ib, i8, i9⟩ := hpre s1 _ hp
        injection hb with hb; subst hb
        have hc1 : s1.comps c = some x := by
          rw [i7 c (Nat.le_refl c)]; exact setComp_same _ _ _
        have inv1 : Inv S NoP { s1 with cur := s.cur } := i1.congr rfl rfl rfl rfl hsaved
        have se1 : StaticEq s { s1 with cur := s.cur } := by
          have := se0'.trans i2
          exact ⟨this.progs, this.decls, this.comps⟩
        have hkeep1 : ∀ q y, s.comps q = some y → y.dirty = false → s1.comps q = some y := by
          intro q y hy hdq
          have hq : q ≠ c := by intro e; subst e; rw [hx] at hy; cases hy; simp [hd'] at hdq
          exact i6 q y (by show (s.setComp c x).comps q = some y; rw [setComp_ne _ _ hq]; exact hy) hdq
        have hab1 : ∀ q, c < q → s1.comps q = s.comps q := by
          intro q hq
          rw [i7 q (by omega)]
          show (s.setComp c x).comps q = _
          rw [setComp_ne _ _ (by omega)]
        simp only [hc1] at h
        obtain ⟨v0, ps, hv0, hpath, hmem⟩ := (inv.evald c x hx hSc).2 hf'
        injection h with h; injection h with h1 h2
        subst h1
        have hr : r = .ok v0 := by rw [← h2, hv0]; rfl
        subst hr
        have invf : Inv S NoP (s1.setComp c { x with dirty := false }) :=
          i1.update_comp hc1 rfl rfl (fun h' => absurd h' hSc)
            (fun _ => ⟨fun h' => by simp [hf'] at h', fun _ => ⟨v0, ps, hv0, hpath, hmem⟩⟩) rfl
            (fun p v hp => i1.parents c x hc1 p v hp) (fun p v hp => ⟨v, hp⟩)
            (fun _ p v hp _ => i8 rfl (p, v) hp)
            (fun v hv hdd => by rcases hdd with hdd | hdd; simp [hd'] at hdd; exact absurd hdd (by simp [NoP]))
        have sef : StaticEq s1 ({ (s1.setComp c { x with dirty := false }) with cur := s.cur } : St) := by
          have := StaticEq.of_setComp (s := s1) (x' := { x with dirty := false }) hc1 rfl rfl rfl
          exact ⟨this.progs, this.decls, this.comps⟩
        have hbelow : Below (· ≤ c) s ({ (s1.setComp c { x with dirty := false }) with cur := s.cur } : St) := by
          refine Below.snoc (Below.eq_step (s1 := { (s.setComp c x) with cur := none })
            (fun q (hq : q < c) => setComp_ne _ _ (by omega))
            (Below.step_eq ib rfl sef ?_ (fun q (hq : q < c) => setComp_ne _ _ (by omega)))) ?_
          · intro q y hy hdq
            have hq : q ≠ c := by intro e; subst e; rw [hc1] at hy; cases hy; simp [hd'] at hdq
            show (s1.setComp c _).comps q = some y
            rw [setComp_ne _ _ hq]; exact hy
          · intro x0 hx0
            rw [hx] at hx0; cases hx0
            exact ⟨_, setComp_same _ _ _, Or.inl ⟨rfl, fun h' => by simp at h'⟩⟩
        refine ⟨invf.congr rfl rfl rfl rfl hsaved, ?_, i3, rfl, i5, ?_, ?_, hbelow, fun v hv => ?_, fun e he => (by cases he)⟩
        · have := (se0'.trans i2).trans (StaticEq.of_setComp (x' := { x with dirty := false }) hc1 rfl rfl rfl)
          exact ⟨this.progs, this.decls, this.comps⟩
        · intro q y hy hdq
          have hq : q ≠ c := by intro e; subst e; rw [hx] at hy; cases hy; simp [hd'] at hdq
          show (s1.setComp c _).comps q = some y
          rw [setComp_ne _ _ hq]; exact hkeep1 q y hy hdq
        · intro q hq
          show (s1.setComp c _).comps q = _
          rw [setComp_ne _ _ (by omega)]; exact hab1 q hq
        · injection hv with hv; subst hv
          exact ⟨⟨_, setComp_same _ _ _, rfl, hv0, Or.inl rfl⟩, fun h' => by simp [hd'] at h'⟩


/-- `Computable.__get__` -/
theorem getC_spec {rec : Rec} (ih : IH rec) (c : Nat) (S : Nat → Prop) (hSc : ¬ S c) (hSlt : ∀ q, S q → c < q)
    {s s' : St} {r : R} (w : Stat s) (inv : Inv S NoP s) (h : getC rec c s = some (s', r)) :
    (∀ v, r = .ok v → PostGet S c s s' v) ∧ (∀ e, r = .err e → PostErr S c s s') := by
  unfold getC at h
  cases hx : s.comps c with
  | none =>
    simp only [hx] at h
    injection h with h; injection h with h1 h2; subst h1 h2
    exact ⟨fun v hv => (by cases hv), fun e _ =>
      ⟨inv, StaticEq.refl s, rfl, rfl, rfl, Or.inl hx, fun _ _ h _ => h, fun _ _ => rfl, Below.refl _ s⟩⟩
  | some x =>
    simp only [hx] at h
    cases hcall : callC rec c x s with
    | none => simp [hcall] at h
    | some res =>
      obtain ⟨s1, r1⟩ := res
      obtain ⟨inv1, se1, hst1, hcur1, hdead1, hkeep1, hab1, hbl1, hok1, herr1⟩ :=
        callC_spec ih c S hSc hSlt w inv hx hcall
      rw [hcall] at h
      cases r1 with
      | err e =>
        simp only at h
        injection h with h; injection h with h1 h2; subst h1 h2
        refine ⟨fun v hv => (by cases hv), fun e' _ => ?_⟩
        obtain ⟨y, hy, hyf, hyd, hdf, hj⟩ := herr1 e rfl
        exact ⟨inv1, se1, hst1, hcur1, hdead1,
          Or.inr ⟨y, hy, hyf, hyd, hdf, fun x0 hx0 => by rw [hx] at hx0; cases hx0; exact hj⟩, hkeep1, hab1, hbl1⟩
      | ok new =>
        simp only at h
        obtain ⟨⟨y1, hy1, hyd1, hyv1, hyj1⟩, hcl1⟩ := hok1 new rfl
        have w1 : Stat s1 := w.of_staticEq se1
        -- what happens after `_add_parent` (on the enclosing evaluation, if any) succeeded
        have tail : ∀ s2, Inv S NoP s2 → StaticEq s1 s2 → s2.store = s1.store → s2.cur = s1.cur → s2.dead = s1.dead →
            (∀ q, s1.cur ≠ some q → s2.comps q = s1.comps q) →
            (∀ p xp, s1.cur = some p → s1.comps p = some xp →
              ∃ own, s2.comps p = some { xp with parents := insertParent own (.comp c) new xp.parents }) →
            (if new ≠ x.value.join then
              match rec (.notify (x.owner, x.name) x.value.join new) s2 with
              | none => none
              | some (s3, .err e) => some (s3, .err e)
              | some (s3, .ok _) => some (s3, .ok new)
            else some (s2, R.ok new)) = some (s', r) →
            (∀ v, r = .ok v → PostGet S c s s' v) ∧ (∀ e, r = .err e → PostErr S c s s') := by
          intro s2 inv2 se2 hst2 hcur2 hdead2 hoth2 hpar2 h
          have w2 : Stat s2 := w1.of_staticEq se2
          have hc2 : s2.comps c = some y1 := by
            rw [hoth2 c ?_]; exact hy1
            intro e
            have := hSlt c (inv1.curStack c e); omega
          have hkeep2 : ∀ q y, s.comps q = some y → y.dirty = false → s2.comps q = some y := by
            intro q y hy hd
            rw [hoth2 q ?_]; exact hkeep1 q y hy hd
            intro e
            obtain ⟨z, hz, hzd⟩ := inv1.stackDirty q (inv1.curStack q e)
            rw [hkeep1 q y hy hd] at hz; cases hz; simp [hd] at hzd
          have hab2 : ∀ q, c < q → s.cur ≠ some q → s2.comps q = s.comps q := by
            intro q hq hne
            rw [hoth2 q (by rw [hcur1]; exact hne)]; exact hab1 q hq
          have hpar2' : ∀ p xp, s.cur = some p → s.comps p = some xp →
              ∃ own, s2.comps p = some { xp with parents := insertParent own (.comp c) new xp.parents } := by
            intro p xp hp hxp
            have hp1 : s1.cur = some p := by rw [hcur1]; exact hp
            have : s1.comps p = some xp := by
              rw [hab1 p (hSlt p (inv.curStack p hp))]; exact hxp
            exact hpar2 p xp hp1 this
          have post : ∀ s3, Inv S NoP s3 → StaticEq s2 s3 → s3.comps = s2.comps → s3.store = s2.store →
              s3.cur = s2.cur → s3.dead = s2.dead → PostGet S c s s3 new := by
            intro s3 i3 e3 hc3 hs3 hcu3 hd3
            refine ⟨i3, (se1.trans se2).trans e3, by rw [hs3, hst2, hst1], by rw [hcu3, hcur2, hcur1],
              by rw [hd3, hdead2, hdead1], ⟨y1, by rw [hc3]; exact hc2, hyd1, hyv1, ?_⟩, ?_, ?_, ?_, ?_⟩
            · intro x0 hx0
              rw [hx] at hx0; cases hx0
              rcases hyj1 with hj | ⟨hj1, hj2, hj3⟩
              · exact Or.inl hj
              · refine Or.inr ⟨hj1, hj2, hj3.imp id ?_⟩
                rintro ⟨e0, he0, hst0⟩
                refine ⟨e0, he0, Stale.keep (s := s1) (by rw [hs3, hst2]) (se2.trans e3) ?_ hst0⟩
                intro q y hy hd
                rw [hc3, hoth2 q ?_]; exact hy
                intro e
                obtain ⟨z, hz, hzd⟩ := inv1.stackDirty q (inv1.curStack q e)
                rw [hy] at hz; cases hz; simp [hd] at hzd
            · intro q y hy hd; rw [hc3]; exact hkeep2 q y hy hd
            · intro q hq hne; rw [hc3]; exact hab2 q hq hne
            · have hk13 : ∀ q y, s1.comps q = some y → y.dirty = false → s3.comps q = some y := by
                intro q y hy hd
                have hne : s1.cur ≠ some q := by
                  intro e
                  obtain ⟨z, hz, hzd⟩ := inv1.stackDirty q (inv1.curStack q e)
                  rw [hy] at hz; cases hz; simp [hd] at hzd
                rw [hc3, hoth2 q hne]; exact hy
              refine Below.step_eq hbl1 (by rw [hs3, hst2]) (se2.trans e3) hk13 fun q (hq : q ≤ c) => ?_
              have hne : s1.cur ≠ some q := by
                intro e
                have := hSlt q (inv1.curStack q e); omega
              rw [hc3, hoth2 q hne]
            · intro p xp hp hxp; rw [hc3]; exact hpar2' p xp hp hxp
          by_cases hch : new ≠ x.value.join
          · rw [if_pos hch] at h
            have hxd : x.dirty = true := by
              cases hxd : x.dirty with
              | true => rfl
              | false => exact absurd (by rw [hcl1 hxd]; rfl) hch
            -- every `_set_dirty` subscribed to `c` belongs to a dirty Computed: the notification is quiet
            have hquiet : ∀ q, Sub.dirty q ∈ (s2.regs x.owner).subs x.name .change →
                ∃ y, s2.comps q = some y ∧ y.dirty = true := by
              intro q hq
              obtain ⟨_, y2, hy2, p0, v0, hp0, hk0⟩ := inv2.subsOf x.owner x.name .change q hq
              refine ⟨y2, hy2, ?_⟩
              cases hyd : y2.dirty with
              | true => rfl
              | false =>
                exfalso
                obtain ⟨xc2, hxc2, ho2, hn2, _⟩ := (se1.trans se2).defined hx
                obtain ⟨hr0, hs0, _⟩ := inv2.parents q y2 hy2 p0 v0 hp0
                cases p0 with
                | obs k =>
                  simp only [St.keyOf] at hk0
                  injection hk0 with hk0
                  exact hs0 k rfl ⟨c, xc2, hxc2, by rw [ho2, hn2, hk0]⟩
                | comp c0 =>
                  have hlt : c0 < q := hr0 c0 rfl
                  simp only [St.keyOf] at hk0
                  cases hc0 : s2.comps c0 with
                  | none => simp [hc0] at hk0
                  | some y0 =>
                    simp only [hc0, Option.map_some] at hk0
                    injection hk0 with hk0
                    injection hk0 with hko hkn
                    have hcc : c0 = c := w2.slots c0 c y0 xc2 hc0 hxc2 (by rw [hko, ho2]) (by rw [hkn, hn2])
                    subst hcc
                    have hne : s.cur ≠ some q := by
                      intro e
                      obtain ⟨z, hz, hzd⟩ := inv2.stackDirty q (inv.curStack q e)
                      rw [hy2] at hz; cases hz; simp [hyd] at hzd
                    have hsq : s.comps q = some y2 := by rw [← hab2 q hlt hne]; exact hy2
                    obtain ⟨z, hz, _, hzd⟩ := inv.current q y2 hsq hyd (.comp c0) v0 hp0
                    rw [hx] at hz; cases hz
                    rcases hzd with hzd | hzd
                    · simp [hxd] at hzd
                    · exact hzd
            rcases ih.notify (x.owner, x.name) x.value.join new s2 with hnone | ⟨rec', hrec'⟩
            · simp [hnone] at h
            · have hkc : s2.kindAt (x.owner, x.name) = some .comp := by
                obtain ⟨xc2, hxc2, ho2, hn2, _⟩ := (se1.trans se2).defined hx
                have := w2.slotKind c xc2 hxc2
                rwa [ho2, hn2] at this
              obtain ⟨s3, hn3, i3, e3, hc3, hs3, hcu3, hd3⟩ :=
                notifyT_quiet rec' (x.owner, x.name) x.value.join new w2 inv2 hkc hquiet
              rw [hrec', hn3] at h
              simp only at h
              injection h with h; injection h with h1 h2; subst h1 h2
              refine ⟨fun v hv => ?_, fun e he => by cases he⟩
              injection hv with hv; subst hv
              exact post s3 i3 e3 hc3 hs3 hcu3 hd3
          · rw [if_neg hch] at h
            injection h with h; injection h with h1 h2; subst h1 h2
            refine ⟨fun v hv => ?_, fun e he => by cases he⟩
            injection hv with hv; subst hv
            exact post s2 inv2 (StaticEq.refl s2) rfl rfl rfl rfl
        cases hc : s1.cur with
        | none =>
          simp only [hc] at h
          exact tail s1 inv1 (StaticEq.refl s1) rfl rfl rfl (fun _ _ => rfl) (fun p xp hp => by rw [hc] at hp; cases hp) h
        | some p =>
          simp only [hc] at h
          have hSp : S p := inv1.curStack p hc
          obtain ⟨xp, hxp, _⟩ := inv1.stackDirty p hSp
          cases ha : addParent s1 p (.comp c) new with | mk s2 r2 =>
          rw [ha] at h
          cases r2 with
          | err e =>
            exact (addParent_ok w1 hxp (r := .comp c) (k := (y1.owner, y1.name)) (by simp [St.keyOf, hy1])
              (kindAt_names (w1.slotKind c y1 hy1)) ha).elim
          | ok u =>
            simp only at h
            obtain ⟨i1, i2, i3, i4, i5, i6, i7⟩ := addParent_spec w1 inv1 hSp hxp (r := .comp c)
              (fun c' hc' => by cases hc'; exact hSlt p hSp) (fun k hk => by cases hk) ha
            -- G15: what `c` depends on goes on record as read; the invariant does not speak about the record
            refine tail { s2 with proc := sourcesOf s2 (c + 1) c ++ s2.proc }
              (i1.congr rfl rfl rfl rfl (fun q hq => i1.curStack q hq)) ⟨i2.progs, i2.decls, i2.comps⟩ i3 i4 i5
              (fun q hq => i6 q (fun e => hq (by rw [hc, e]))) ?_ h
            intro p' xp' hp' hxp'
            rw [hc] at hp'; cases hp'
            rw [hxp] at hxp'; cases hxp'
            exact ⟨_, i7⟩

/-- the induction over the fuel: what reading a Computable guarantees -/
theorem exec_IH (f : Nat) : IH (exec f) := by
  induction f with
  | zero =>
    exact ⟨fun c s s' r S _ _ _ _ h => by simp [exec] at h, fun k o n s => Or.inl rfl⟩
  | succ f ih =>
    refine ⟨fun c s s' r S w inv hSc hSlt h => ?_, fun k o n s => Or.inr ⟨exec f, rfl⟩⟩
    exact getC_spec ih c S hSc hSlt w inv h


/-! ### assignment: the dirty cascade -/

def NoS : Nat → Prop := fun _ => False

/-- the `_set_dirty` entries of every subscriber list are the same -/
def SameSubs (s s' : St) : Prop :=
  (∀ o, (s'.regs o).names = (s.regs o).names) ∧
  ∀ o n t q, Sub.dirty q ∈ (s'.regs o).subs n t ↔ Sub.dirty q ∈ (s.regs o).subs n t

/-- Computeds only went from clean to dirty -/
def Dirtied (s s' : St) : Prop :=
  ∀ c, (s.comps c = none → s'.comps c = none) ∧
    ∀ x, s.comps c = some x → s'.comps c = some x ∨ (x.dirty = false ∧ s'.comps c = some { x with dirty := true })

theorem SameSubs.refl (s : St) : SameSubs s s := ⟨fun _ => rfl, fun _ _ _ _ => Iff.rfl⟩
theorem SameSubs.trans {s s' s'' : St} (a : SameSubs s s') (b : SameSubs s' s'') : SameSubs s s'' :=
  ⟨fun o => (b.1 o).trans (a.1 o), fun o n t q => (b.2 o n t q).trans (a.2 o n t q)⟩
theorem Dirtied.refl (s : St) : Dirtied s s := fun _ => ⟨id, fun _ h => Or.inl h⟩
theorem Dirtied.trans {s s' s'' : St} (a : Dirtied s s') (b : Dirtied s' s'') : Dirtied s s'' := by
  intro c
  refine ⟨fun h => (b c).1 ((a c).1 h), fun x hx => ?_⟩
  rcases (a c).2 x hx with h | ⟨hd, h⟩
  · rcases (b c).2 x h with h' | ⟨hd', h'⟩
    · exact Or.inl h'
    · exact Or.inr ⟨hd', h'⟩
  · rcases (b c).2 _ h with h' | ⟨hd', h'⟩
    · exact Or.inr ⟨hd, h'⟩
    · simp at hd'

theorem Dirtied.dirty {s s' : St} (a : Dirtied s s') {c : Nat} {x : Comp} (hx : s.comps c = some x)
    (hd : x.dirty = true) : ∃ y, s'.comps c = some y ∧ y.dirty = true := by
  rcases (a c).2 x hx with h | ⟨_, h⟩
  · exact ⟨x, h, hd⟩
  · exact ⟨_, h, rfl⟩

theorem Inv.mono_P {S P P' : Nat → Prop} {s : St} (inv : Inv S P s) (h : ∀ c, P c → P' c) : Inv S P' s := by
  refine ⟨inv.stackDirty, inv.curStack, inv.evald, inv.parents, inv.subsOf, ?_, inv.userOK⟩
  intro c x hx hd p v hp
  have := inv.current c x hx hd p v hp
  cases p with
  | obs k => exact this
  | comp c' =>
    obtain ⟨y, hy, hv, hdy⟩ := this
    exact ⟨y, hy, hv, hdy.imp id (h c')⟩

/-- once every subscriber of the freshly dirtied `c0` is dirty, `c0` need not be pending any more -/
theorem Inv.drop_P {P : Nat → Prop} {s : St} {c0 : Nat} (inv : Inv NoS (fun q => P q ∨ q = c0) s)
    (hall : ∀ q y k, s.comps q = some y → y.dirty = false → s.keyOf (.comp c0) = some k →
      Sub.dirty q ∉ (s.regs k.1).subs k.2 .change) : Inv NoS P s := by
  refine ⟨inv.stackDirty, inv.curStack, inv.evald, inv.parents, inv.subsOf, ?_, inv.userOK⟩
  intro c x hx hd p v hp
  have := inv.current c x hx hd p v hp
  cases p with
  | obs k => exact this
  | comp c' =>
    obtain ⟨y, hy, hv, hdy⟩ := this
    refine ⟨y, hy, hv, ?_⟩
    rcases hdy with h | h | h
    · exact Or.inl h
    · exact Or.inr h
    · subst h
      exfalso
      obtain ⟨_, _, k, hk, _, hm⟩ := inv.parents c x hx (.comp c') v hp
      exact hall c x k hx hd hk hm

/-- the same state with other values in the Observables -/
def St.withStore (s : St) (σ : Key → V) : St := { s with store := σ }

@[simp] theorem withStore_regs (s : St) (σ) : (s.withStore σ).regs = s.regs := rfl
@[simp] theorem withStore_comps (s : St) (σ) : (s.withStore σ).comps = s.comps := rfl
@[simp] theorem withStore_dead (s : St) (σ) : (s.withStore σ).dead = s.dead := rfl
@[simp] theorem withStore_cur (s : St) (σ) : (s.withStore σ).cur = s.cur := rfl
@[simp] theorem withStore_progs (s : St) (σ) : (s.withStore σ).progs = s.progs := rfl
@[simp] theorem withStore_store (s : St) (σ) : (s.withStore σ).store = σ := rfl
@[simp] theorem withStore_alive (s : St) (σ) : (s.withStore σ).alive = s.alive := rfl
theorem setComp_withStore (s : St) (σ) (c : Nat) (x : Comp) :
    (s.withStore σ).setComp c x = (s.setComp c x).withStore σ := rfl
theorem withStore_self (s : St) : s.withStore s.store = s := rfl

/-- the dirty cascade does not look at the Observables' values: it is stated for a run in which they are `σ` (G7
    repaired: `Observable.__set__` has stored the new value already), while the invariant is that of the state with the
    values the Computeds were evaluated with -/
structure CascadeIH (rec : Rec) : Prop where
  notify : ∀ (k : Key) (o n : V) (s t : St) (r : R) (P : Nat → Prop) (σ : Key → V), Stat s → Inv NoS P s →
    s.kindAt k = some .comp → rec (.notify k o n) (s.withStore σ) = some (t, r) →
    ∃ s', t = s'.withStore σ ∧
    r = .ok none ∧ Inv NoS P s' ∧ StaticEq s s' ∧ s'.store = s.store ∧ s'.cur = s.cur ∧ s'.dead = s.dead ∧
    SameSubs s s' ∧ Dirtied s s' ∧
    (∀ c, Sub.dirty c ∈ (s.regs k.1).subs k.2 .change → ∃ y, s'.comps c = some y ∧ y.dirty = true)

/-- the first pass of `_mesa_notify`: the dependents (`_set_dirty`), each with the cascade it starts -/
theorem notifyLoop_cascade {rec : Rec} (ih : CascadeIH rec) (k : Key) (old new : V) (σ : Key → V) :
    ∀ (xs : List Sub) (s t : St) (r : Except Err Unit) (P : Nat → Prop), Stat s → Inv NoS P s →
    (∀ x ∈ xs, x.isDep = true) →
    (∀ c, Sub.dirty c ∈ xs → ∃ x, s.comps c = some x) →
    (∀ c, Sub.dirty c ∈ xs → Sub.dirty c ∈ (s.regs k.1).subs k.2 .change) →
    notifyLoop rec k old new xs (s.withStore σ) = some (t, r) →
    ∃ s', t = s'.withStore σ ∧
    r = .ok () ∧ Inv NoS P s' ∧ StaticEq s s' ∧ s'.store = s.store ∧ s'.cur = s.cur ∧
    s'.dead = s.dead ∧ SameSubs s s' ∧ Dirtied s s' ∧
    (∀ c, Sub.dirty c ∈ xs → ∃ y, s'.comps c = some y ∧ y.dirty = true) := by
  intro xs
  induction xs with
  | nil =>
    intro s t r P _ inv _ _ _ h
    simp only [notifyLoop] at h
    injection h with h; injection h with h1 h2; subst h1 h2
    exact ⟨s, rfl, rfl, inv, StaticEq.refl s, rfl, rfl, rfl, SameSubs.refl s, Dirtied.refl s, fun c hc => by simp at hc⟩
  | cons x xs ihx =>
    intro s t r P w inv hdep hdef hsub h
    unfold notifyLoop at h
    cases x with
    | user hh => have := hdep (Sub.user hh) (by simp); simp [Sub.isDep] at this
    | dirty c =>
      have hg : (!(s.withStore σ).alive (Sub.dirty c) ||
          !((((s.withStore σ).regs k.1).subs k.2 .change).contains (Sub.dirty c))) = false := by
        have := hsub c (by simp)
        simp [this]
      rw [hg] at h
      simp only [Bool.false_eq_true, if_false] at h
      obtain ⟨cx, hcx⟩ := hdef c (by simp)
      have hcx' : (s.withStore σ).comps c = some cx := hcx
      simp only [hcx'] at h
      have hdep' : ∀ x ∈ xs, x.isDep = true := fun x hx => hdep x (by simp [hx])
      by_cases hcd : cx.dirty = true
      · rw [if_pos hcd] at h
        obtain ⟨s', e0, h1, h2, h3, h4, h5, h6, h7, h8, h9⟩ := ihx s t r P w inv hdep'
          (fun c' hc' => hdef c' (by simp [hc'])) (fun c' hc' => hsub c' (by simp [hc'])) h
        refine ⟨s', e0, h1, h2, h3, h4, h5, h6, h7, h8, ?_⟩
        intro c' hc'
        rcases List.mem_cons.mp hc' with hc' | hc'
        · injection hc' with hc'; subst hc'; exact h8.dirty hcx hcd
        · exact h9 c' hc'
      · rw [if_neg hcd] at h
        have hcd' : cx.dirty = false := by cases hh : cx.dirty <;> simp_all
        -- `_set_dirty`: mark, then notify the Computable's own subscribers
        have invd : Inv NoS (fun q => P q ∨ q = c) (s.setComp c { cx with dirty := true }) := by
          refine (inv.mono_P (P' := fun q => P q ∨ q = c) (fun q hq => Or.inl hq)).update_comp hcx rfl rfl
            (fun h' => absurd h' (by simp [NoS])) (fun _ => ?_) rfl
            (fun p v hp => inv.parents c cx hcx p v hp) (fun p v hp => ⟨v, hp⟩) (fun hd0 => by simp at hd0)
            (fun v hv _ => ⟨hv, Or.inr (Or.inr rfl)⟩)
          obtain ⟨e1, e2⟩ := inv.evald c cx hcx (by simp [NoS])
          refine ⟨fun hf => ?_, fun hf => e2 hf⟩
          have := (e1 hf).1; simp [hcd'] at this
        have sed : StaticEq s (s.setComp c { cx with dirty := true }) := StaticEq.of_setComp hcx rfl rfl rfl
        rw [setComp_withStore] at h
        cases hn : rec (.notify (cx.owner, cx.name) cx.value.join none)
            ((s.setComp c { cx with dirty := true }).withStore σ) with
        | none => simp [hn] at h
        | some res =>
          obtain ⟨t1, r1⟩ := res
          have hkc : (s.setComp c { cx with dirty := true }).kindAt (cx.owner, cx.name) = some .comp := by
            rw [sed.kindAt]; exact w.slotKind c cx hcx
          obtain ⟨s1, et1, g1, g2, g3, g4, g5, g6, g7, g8, g9⟩ :=
            ih.notify _ _ _ _ t1 r1 _ σ (w.of_staticEq sed) invd hkc hn
          rw [hn] at h
          subst g1 et1
          simp only at h
          have sed1 : StaticEq s s1 := sed.trans g3
          -- all subscribers of `c` are dirty now: `c` is no longer pending
          have inv1 : Inv NoS P s1 := by
            refine g2.drop_P ?_
            intro q y kk hq hyd hkk hm
            have hk0 : (s.setComp c { cx with dirty := true }).keyOf (.comp c) = some (cx.owner, cx.name) := by
              simp [St.keyOf]
            have : s1.keyOf (.comp c) = some (cx.owner, cx.name) := by rw [g3.keyOf]; exact hk0
            rw [this] at hkk; cases hkk
            obtain ⟨z, hz, hzd⟩ := g9 q ((g7.2 _ _ _ q).mp hm)
            rw [hq] at hz; cases hz; simp [hyd] at hzd
          have hdirt : Dirtied s s1 := by
            refine Dirtied.trans (s' := s.setComp c { cx with dirty := true }) ?_ g8
            intro q
            by_cases hq : q = c
            · subst hq
              refine ⟨fun hnone => by simp [hcx] at hnone, fun y hy => ?_⟩
              rw [hcx] at hy; cases hy
              exact Or.inr ⟨hcd', setComp_same _ _ _⟩
            · rw [setComp_ne _ _ hq]
              exact ⟨id, fun y hy => Or.inl hy⟩
          have hss : SameSubs s s1 := g7
          obtain ⟨s', e0, h1, h2, h3, h4, h5, h6, h7, h8, h9⟩ := ihx s1 t r P (w.of_staticEq sed1) inv1 hdep'
            (fun c' hc' => by
              obtain ⟨z, hz⟩ := hdef c' (by simp [hc'])
              obtain ⟨z', hz', _⟩ := sed1.defined hz
              exact ⟨z', hz'⟩)
            (fun c' hc' => (hss.2 _ _ _ c').mpr (hsub c' (by simp [hc']))) h
          refine ⟨s', e0, h1, h2, sed1.trans h3, h4.trans g4, h5.trans g5, h6.trans g6,
            hss.trans h7, hdirt.trans h8, ?_⟩
          intro c' hc'
          rcases List.mem_cons.mp hc' with hc' | hc'
          · injection hc' with hc'; subst hc'
            obtain ⟨z, hz, hzd⟩ := g8.dirty (setComp_same s c' { cx with dirty := true }) rfl
            exact h8.dirty hz hzd
          · exact h9 c' hc'

/-- pruning the dead references of one list changes no `_set_dirty` entry -/
theorem SameSubs.prune (s : St) (k : Key) :
    SameSubs s (s.setReg k.1 ((s.regs k.1).setSubs k.2 .change (((s.regs k.1).subs k.2 .change).filter s.alive))) := by
  refine ⟨fun o => ?_, fun o n t q => ?_⟩
  · by_cases ho : o = k.1
    · subst ho; simp [Reg.names]
    · simp [St.setReg, ho]
  · by_cases ho : o = k.1
    · subst ho
      simp only [setReg_same, Reg.setSubs]
      by_cases hnt : n = k.2 ∧ t = .change
      · obtain ⟨rfl, rfl⟩ := hnt
        simp [List.mem_filter]
      · simp [hnt]
    · simp [St.setReg, ho]

theorem StaticEq.prune (s : St) (k : Key) (l : List Sub) :
    StaticEq s (s.setReg k.1 ((s.regs k.1).setSubs k.2 .change l)) := by
  refine ⟨rfl, fun o => ?_, fun c => (StaticEq.refl s).comps c⟩
  by_cases ho : o = k.1
  · subst ho; simp
  · simp [St.setReg, ho]

/-- the `change` signal of a Computable that was just marked dirty -/
theorem notifyT_cascade {rec : Rec} (ih : CascadeIH rec) (k : Key) (old new : V) (σ : Key → V) {s t : St} {r : R}
    {P : Nat → Prop} (w : Stat s) (inv : Inv NoS P s) (hk : s.kindAt k = some .comp)
    (h : notifyT rec k old new (s.withStore σ) = some (t, r)) :
    ∃ s', t = s'.withStore σ ∧
    r = .ok none ∧ Inv NoS P s' ∧ StaticEq s s' ∧ s'.store = s.store ∧ s'.cur = s.cur ∧ s'.dead = s.dead ∧
    SameSubs s s' ∧ Dirtied s s' ∧
    (∀ c, Sub.dirty c ∈ (s.regs k.1).subs k.2 .change → ∃ y, s'.comps c = some y ∧ y.dirty = true) := by
  unfold notifyT at h
  simp only [withStore_regs] at h
  cases hl : notifyLoop rec k old new (((s.regs k.1).subs k.2 .change).filter Sub.isDep) (s.withStore σ) with
  | none => simp [hl] at h
  | some res =>
    obtain ⟨t1, r1⟩ := res
    obtain ⟨s1, e1, h1, h2, h3, h4, h5, h6, h7, h8, h9⟩ := notifyLoop_cascade ih k old new σ _ s t1 r1 P w inv
      (fun x hx => (List.mem_filter.mp hx).2)
      (fun c hc => by
        obtain ⟨_, x, hx, _⟩ := inv.subsOf k.1 k.2 .change c ((mem_filter_isDep_dirty c _).mp hc)
        exact ⟨x, hx⟩) (fun c hc => (mem_filter_isDep_dirty c _).mp hc) hl
    rw [hl] at h
    subst h1 e1
    simp only at h
    -- the second pass: the user handlers of a Computable are passive
    have hpass : ∀ hh, Sub.user hh ∈ (s.regs k.1).subs k.2 .change → s1.progs hh = [] := by
      intro hh hm
      rw [h3.progs]
      rcases inv.userOK k.1 k.2 .change hh hm with hp | hp
      · exact hp
      · rw [hk] at hp; cases hp
    obtain ⟨lg, hq⟩ := notifyLoop_quiet rec k old new (((s.regs k.1).subs k.2 .change).filter fun x => !x.isDep)
      (s1.withStore σ) (fun hh hm => hpass hh ((mem_filter_notDep_user hh _).mp hm))
      (fun c hc => absurd hc (mem_filter_notDep_dirty c _))
    rw [hq] at h
    simp only at h
    injection h with h; injection h with g1 g2; subst g1 g2
    have invl : Inv NoS P { s1 with log := s1.log ++ lg } := h2.congr rfl rfl rfl rfl h2.curStack
    have sel : StaticEq s1 { s1 with log := s1.log ++ lg } := ⟨rfl, fun _ => rfl, (StaticEq.refl s1).comps⟩
    refine ⟨({ s1 with log := s1.log ++ lg } : St).setReg k.1 ((s1.regs k.1).setSubs k.2 .change
        (((s1.regs k.1).subs k.2 .change).filter s1.alive)), rfl, rfl, ?_, ?_, h4, h5, h6, ?_, ?_, ?_⟩
    · have hs := SameSubs.prune ({ s1 with log := s1.log ++ lg } : St) k
      exact invl.congr_regs rfl rfl rfl hs.1 hs.2 (invl.userOK.prune k)
    · exact (h3.trans sel).trans (StaticEq.prune _ k _)
    · exact h7.trans (SameSubs.prune ({ s1 with log := s1.log ++ lg } : St) k)
    · exact h8
    · intro c hc
      exact h9 c ((mem_filter_isDep_dirty c _).mpr hc)

theorem cascade_exec (f : Nat) : CascadeIH (exec f) := by
  induction f with
  | zero => exact ⟨fun k o n s t r P σ _ _ _ h => by simp [exec] at h⟩
  | succ f ih => exact ⟨fun k o n s t r P σ w inv hk h => notifyT_cascade ih k o n σ w inv hk h⟩

/-- what a user handler does after recording: it reads Computables (at top level, everything propagated) -/
theorem readAll_spec {rec : Rec} (ih : IH rec) : ∀ (cs : List Nat) (s s' : St) (r : R), Stat s → Inv NoS NoP s →
    readAll rec cs s = some (s', r) →
    Inv NoS NoP s' ∧ StaticEq s s' ∧ s'.store = s.store ∧ s'.cur = s.cur ∧ s'.dead = s.dead := by
  intro cs
  induction cs with
  | nil =>
    intro s s' r _ inv h
    simp only [readAll] at h
    injection h with h; injection h with h1 _; subst h1
    exact ⟨inv, StaticEq.refl s, rfl, rfl, rfl⟩
  | cons c cs ihc =>
    intro s s' r w inv h
    simp only [readAll] at h
    cases hg : rec (.readC c) s with
    | none => simp [hg] at h
    | some res =>
      obtain ⟨s1, r1⟩ := res
      obtain ⟨hok, herr⟩ := ih.get c s s1 r1 NoS w inv (by simp [NoS]) (fun q hq => by simp [NoS] at hq) hg
      rw [hg] at h
      cases r1 with
      | err e =>
        simp only at h
        injection h with h; injection h with h1 _; subst h1
        have pe := herr e rfl
        exact ⟨pe.inv, pe.stat, pe.store, pe.cur, pe.dead⟩
      | ok v =>
        simp only at h
        have pg := hok v rfl
        obtain ⟨i1, i2, i3, i4, i5⟩ := ihc s1 s' r (w.of_staticEq pg.stat) pg.inv h
        exact ⟨i1, pg.stat.trans i2, i3.trans pg.store, i4.trans pg.cur, i5.trans pg.dead⟩

/-- the second pass of `_mesa_notify` at top level: the user handlers, which may read Computables -/
theorem notifyLoop_users {rec : Rec} (ih : IH rec) (k : Key) (old new : V) :
    ∀ (xs : List Sub) (s s' : St) (r : Except Err Unit), (∀ x ∈ xs, x.isDep = false) → Stat s → Inv NoS NoP s →
    notifyLoop rec k old new xs s = some (s', r) →
    Inv NoS NoP s' ∧ StaticEq s s' ∧ s'.store = s.store ∧ s'.cur = s.cur ∧ s'.dead = s.dead := by
  intro xs
  induction xs with
  | nil =>
    intro s s' r _ _ inv h
    simp only [notifyLoop] at h
    injection h with h; injection h with h1 _; subst h1
    exact ⟨inv, StaticEq.refl s, rfl, rfl, rfl⟩
  | cons x xs ihx =>
    intro s s' r hdep w inv h
    have hdep' : ∀ x ∈ xs, x.isDep = false := fun x hx => hdep x (by simp [hx])
    unfold notifyLoop at h
    split at h
    · exact ihx s s' r hdep' w inv h
    · cases x with
      | dirty c => have := hdep (Sub.dirty c) (by simp); simp [Sub.isDep] at this
      | user hh =>
        simp only at h
        have invl : Inv NoS NoP { s with log := s.log ++ [⟨hh, k.1, k.2, old, new⟩] } :=
          inv.congr rfl rfl rfl rfl inv.curStack
        have sel : StaticEq s { s with log := s.log ++ [⟨hh, k.1, k.2, old, new⟩] } :=
          ⟨rfl, fun _ => rfl, (StaticEq.refl s).comps⟩
        cases hg : readAll rec (s.progs hh) { s with log := s.log ++ [⟨hh, k.1, k.2, old, new⟩] } with
        | none => simp [hg] at h
        | some res =>
          obtain ⟨s1, r1⟩ := res
          obtain ⟨g1, g2, g3, g4, g5⟩ := readAll_spec ih _ _ s1 r1 (w.of_staticEq sel) invl hg
          rw [hg] at h
          cases r1 with
          | err e =>
            simp only at h
            injection h with h; injection h with h1 _; subst h1
            exact ⟨g1, sel.trans g2, g3, g4, g5⟩
          | ok u =>
            simp only at h
            obtain ⟨i1, i2, i3, i4, i5⟩ := ihx s1 s' r hdep' (w.of_staticEq (sel.trans g2)) g1 h
            exact ⟨i1, (sel.trans g2).trans i2, i3.trans g3, i4.trans g4, i5.trans g5⟩

/-- a top-level assignment `owner.name = v` (G7 repaired): the value is stored, every dependent is marked dirty, then
    the user handlers run — they may read Computables —; whether it returns or a handler raises, the invariant holds
    afterwards and the Observable holds `v` -/
theorem assign_spec (f : Nat) {k : Key} {v : V} {s s' : St} {r : R} (w : Stat s) (inv : Inv NoS NoP s)
    (hcur : s.cur = none) (h : exec f (.assign k v) s = some (s', r)) :
    Inv NoS NoP s' ∧ StaticEq s s' ∧ s'.cur = none ∧
    s'.store = (fun k' => if k' = k then v else s.store k') := by
  cases f with
  | zero => simp [exec] at h
  | succ f =>
    simp only [exec, stepF, assignT] at h
    rw [if_neg (by simp [hcur])] at h
    generalize hσ : (fun k' => if k' = k then v else s.store k') = σ at h ⊢
    have hs0 : ({ s with store := σ } : St) = s.withStore σ := rfl
    rw [hs0] at h
    cases hn : exec f (.notify k (s.store k) v) (s.withStore σ) with
    | none => simp [hn] at h
    | some res =>
      obtain ⟨t, rt⟩ := res
      have key : Inv NoS NoP t ∧ StaticEq s t ∧ t.cur = none ∧ t.store = σ := by
        cases f with
        | zero => simp [exec] at hn
        | succ f =>
          simp only [exec, stepF] at hn
          unfold notifyT at hn
          simp only [withStore_regs] at hn
          cases hl : notifyLoop (exec f) k (s.store k) v (((s.regs k.1).subs k.2 .change).filter Sub.isDep)
              (s.withStore σ) with
          | none => simp [hl] at hn
          | some res1 =>
            obtain ⟨t1, r1⟩ := res1
            obtain ⟨s1, e1, h1, h2, h3, h4, h5, h6, h7, h8, h9⟩ :=
              notifyLoop_cascade (cascade_exec f) k (s.store k) v σ _ s t1 r1 NoP w inv
              (fun x hx => (List.mem_filter.mp hx).2)
              (fun c hc => by
                obtain ⟨_, x, hx, _⟩ := inv.subsOf k.1 k.2 .change c ((mem_filter_isDep_dirty c _).mp hc)
                exact ⟨x, hx⟩) (fun c hc => (mem_filter_isDep_dirty c _).mp hc) hl
            rw [hl] at hn
            subst h1 e1
            simp only at hn
            -- with every dependent of `k` dirty, the new value is consistent with all clean Computeds
            have inv1 : Inv NoS NoP (s1.withStore σ) := by
              refine ⟨h2.stackDirty, fun p hp => h2.curStack p hp, h2.evald, ?_, h2.subsOf, ?_, h2.userOK⟩
              · intro c x hx p0 v0 hp0
                exact h2.parents c x hx p0 v0 hp0
              · intro c x hx hd p0 v0 hp0
                have hc0 := h2.current c x hx hd p0 v0 hp0
                cases p0 with
                | comp c' => exact hc0
                | obs k' =>
                  show σ k' = v0
                  rw [← hσ]
                  by_cases hk : k' = k
                  · subst hk
                    exfalso
                    obtain ⟨_, _, kk, hkk, _, hm⟩ := h2.parents c x hx (.obs k') v0 hp0
                    simp only [St.keyOf] at hkk; cases hkk
                    obtain ⟨z, hz, hzd⟩ := h9 c ((mem_filter_isDep_dirty c _).mpr ((h7.2 _ _ _ c).mp hm))
                    have hx' : s1.comps c = some x := hx
                    rw [hx'] at hz; cases hz; simp [hd] at hzd
                  · simp only [hk, if_false]
                    have : s1.store k' = v0 := hc0
                    rw [h4] at this; exact this
            have se1 : StaticEq s (s1.withStore σ) := ⟨h3.progs, h3.decls, h3.comps⟩
            cases hl2 : notifyLoop (exec f) k (s.store k) v
                (((s.regs k.1).subs k.2 .change).filter fun x => !x.isDep) (s1.withStore σ) with
            | none => simp [hl2] at hn
            | some res2 =>
              obtain ⟨t2, r2⟩ := res2
              obtain ⟨g1, g2, g3, g4, g5⟩ := notifyLoop_users (exec_IH f) k (s.store k) v _ _ t2 r2
                (fun x hx => by simpa using (List.mem_filter.mp hx).2) (w.of_staticEq se1) inv1 hl2
              rw [hl2] at hn
              cases r2 with
              | error e =>
                simp only at hn
                injection hn with hn; injection hn with hn1 _; subst hn1
                exact ⟨g1, se1.trans g2, g4.trans (h5.trans hcur), g3⟩
              | ok u =>
                simp only at hn
                injection hn with hn; injection hn with hn1 _; subst hn1
                have hs := SameSubs.prune t2 k
                refine ⟨g1.congr_regs rfl rfl rfl hs.1 hs.2 (g1.userOK.prune k),
                  (se1.trans g2).trans (StaticEq.prune _ k _), g4.trans (h5.trans hcur), g3⟩
      rw [hn] at h
      cases rt with
      | err e =>
        simp only at h
        injection h with h; injection h with h1 _; subst h1
        exact key
      | ok u =>
        simp only at h
        injection h with h; injection h with h1 _; subst h1
        exact key


/-! ### the top-level operations -/

/-- conditions under which `owner.name = Computed(func)` is a definition the theorems speak about -/
structure DefineOK (s : St) (c o n : Nat) (t : Tree) : Prop where
  fresh : s.comps c = none
  pure : Pure t
  ranked : Ranked c t
  obsKind : ObsKeys (fun k => s.kindAt k = some .obs) t
  slotKind : s.kindAt (o, n) = some .comp
  slotFree : ¬ s.isSlot (o, n)

theorem define_pre {s : St} {c o n : Nat} {t : Tree} (w : Stat s) (inv : Inv NoS NoP s) (ok : DefineOK s c o n t) :
    Stat (s.setComp c { owner := o, name := n, tree := t }) ∧
    Inv NoS NoP (s.setComp c { owner := o, name := n, tree := t }) := by
  have hne : ∀ q y, s.comps q = some y → q ≠ c := by
    intro q y hy e; subst e; rw [ok.fresh] at hy; cases hy
  have hkind : ∀ k, (s.setComp c { owner := o, name := n, tree := t }).kindAt k = s.kindAt k := fun _ => rfl
  have hkey : ∀ p k, s.keyOf p = some k → (s.setComp c { owner := o, name := n, tree := t }).keyOf p = some k := by
    intro p k hk
    cases p with
    | obs k' => exact hk
    | comp c' =>
      simp only [St.keyOf] at hk ⊢
      cases hc' : s.comps c' with
      | none => simp [hc'] at hk
      | some y => rw [setComp_ne _ _ (hne c' y hc'), hc']; simpa [hc'] using hk
  have hslot : ∀ k, (s.setComp c { owner := o, name := n, tree := t }).isSlot k → s.isSlot k ∨ k = (o, n) := by
    rintro k ⟨q, y, hy, rfl⟩
    by_cases hq : q = c
    · subst hq; rw [setComp_same] at hy; cases hy; exact Or.inr rfl
    · rw [setComp_ne _ _ hq] at hy; exact Or.inl ⟨q, y, hy, rfl⟩
  refine ⟨⟨w.regs, ?_, ?_, ?_, ?_, ?_⟩,
    ⟨fun q hq => by simp [NoS] at hq, fun p hp => inv.curStack p hp, ?_, ?_, ?_, ?_, inv.userOK⟩⟩
  · intro q y hy
    by_cases hq : q = c
    · subst hq; rw [setComp_same] at hy; cases hy; exact ok.pure
    · rw [setComp_ne _ _ hq] at hy; exact w.pure q y hy
  · intro q y hy
    by_cases hq : q = c
    · subst hq; rw [setComp_same] at hy; cases hy; exact ok.ranked
    · rw [setComp_ne _ _ hq] at hy; exact w.ranked q y hy
  · intro q y hy
    by_cases hq : q = c
    · subst hq; rw [setComp_same] at hy; cases hy; exact ok.obsKind
    · rw [setComp_ne _ _ hq] at hy; exact w.obsKind q y hy
  · intro q y hy
    by_cases hq : q = c
    · subst hq; rw [setComp_same] at hy; cases hy; exact ok.slotKind
    · rw [setComp_ne _ _ hq] at hy; exact w.slotKind q y hy
  · intro q q' y y' hy hy' ho hn
    by_cases hq : q = c
    · subst hq; rw [setComp_same] at hy; cases hy
      by_cases hq' : q' = q
      · exact hq'.symm
      · rw [setComp_ne _ _ hq'] at hy'
        exact absurd ⟨q', y', hy', by simp at ho hn; rw [← ho, ← hn]⟩ ok.slotFree
    · rw [setComp_ne _ _ hq] at hy
      by_cases hq' : q' = c
      · subst hq'; rw [setComp_same] at hy'; cases hy'
        exact absurd ⟨q, y, hy, by simp at ho hn; rw [ho, hn]⟩ ok.slotFree
      · rw [setComp_ne _ _ hq'] at hy'
        exact w.slots q q' y y' hy hy' ho hn
  · intro q y hy _
    by_cases hq : q = c
    · subst hq; rw [setComp_same] at hy; cases hy
      exact ⟨fun _ => ⟨rfl, [], .nil _, fun e => Iff.rfl⟩, fun h => by simp at h⟩
    · rw [setComp_ne _ _ hq] at hy; exact inv.evald q y hy (by simp [NoS])
  · intro q y hy p v hp
    by_cases hq : q = c
    · subst hq; rw [setComp_same] at hy; cases hy; simp at hp
    · rw [setComp_ne _ _ hq] at hy
      obtain ⟨h1, h2, k, h3, h4, h5⟩ := inv.parents q y hy p v hp
      refine ⟨h1, fun k' hk' hs => ?_, k, hkey p k h3, h4, h5⟩
      rcases hslot k' hs with hs' | hs'
      · exact h2 k' hk' hs'
      · -- the new slot is declared as a Computable, what `q` read was declared as an Observable
        subst hs'
        have := w.obsKeys q y hy
        exact h2 (o, n) hk' (by
          exfalso
          obtain ⟨_, _, kk, hkk, _, _⟩ := inv.parents q y hy p v hp
          subst hk'
          -- `q`'s remembered Observable keys come from its function
          obtain ⟨_, e2⟩ := inv.evald q y hy (by simp [NoS])
          exact absurd ok.slotKind (by
            intro hcomp
            -- find the key among the reads of `q`'s function
            have hk0 : ∀ (t' : Tree) ps, ObsKeys (fun k => s.kindAt k = some .obs) t' → Prefix t' ps →
                ∀ k x, (PRef.obs k, x) ∈ ps → s.kindAt k = some .obs := by
              intro t' ps hot hpr
              induction hpr with
              | nil _ => intro k x hm; simp at hm
              | read k0 cont x0 ps0 _ ih =>
                cases hot with | read _ _ hk00 hc00 =>
                intro k x hm
                rcases List.mem_cons.mp hm with hm | hm
                · injection hm with hm1 _; injection hm1 with hm1; subst hm1; exact hk00
                · exact ih (hc00 _) k x hm
              | readC c0 cont x0 ps0 _ ih =>
                cases hot with | readC _ _ hc00 =>
                intro k x hm
                rcases List.mem_cons.mp hm with hm | hm
                · injection hm with hm1 _; cases hm1
                · exact ih (hc00 _) k x hm
            by_cases hyf : y.first = true
            · obtain ⟨e1, _⟩ := inv.evald q y hy (by simp [NoS])
              obtain ⟨_, ps, hpr, hmem⟩ := e1 hyf
              have := hk0 y.tree ps (w.obsKind q y hy) hpr (o, n) v ((hmem _).mpr hp)
              rw [hcomp] at this; cases this
            · obtain ⟨v', ps, _, hpr, hmem⟩ := e2 (by cases hh : y.first <;> simp_all)
              have := hk0 y.tree ps (w.obsKind q y hy) hpr.prefix (o, n) v ((hmem _).mpr hp)
              rw [hcomp] at this; cases this))
  · intro o' n' t' q hq
    obtain ⟨ht, y, hy, p, v, hp, hk⟩ := inv.subsOf o' n' t' q hq
    exact ⟨ht, y, by rw [setComp_ne _ _ (hne q y hy)]; exact hy, p, v, hp, hkey p _ hk⟩
  · intro q y hy hd p v hp
    by_cases hq : q = c
    · subst hq; rw [setComp_same] at hy; cases hy; simp at hd
    · rw [setComp_ne _ _ hq] at hy
      refine Current.of_eq (s := s) (s' := s.setComp c { owner := o, name := n, tree := t }) rfl ?_
        (inv.current q y hy hd p v hp)
      intro c' z hz vv hv hdz
      exact ⟨z, by rw [setComp_ne _ _ (hne c' z hz)]; exact hz, hv, hdz⟩


/-- a quiescent state (between top-level operations) in which everything the theorems need holds -/
structure Good (s : St) : Prop where
  stat : Stat s
  inv : Inv NoS NoP s
  cur : s.cur = none

inductive OpOK (s : St) : Op → Prop
  | define (c o n : Nat) (t : Tree) (h : DefineOK s c o n t) : OpOK s (.define c o n t)
  | assign (k : Key) (v : V) : OpOK s (.assign k v)
  | read (c : Nat) : OpOK s (.read c)
  | observe (k : Key) (h : Nat) (hp : s.progs h = [] ∨ s.kindAt k = some .obs) : OpOK s (.observe k h)
  | unobserve (k : Key) (h : Nat) : OpOK s (.unobserve k h)
  | drop (h : Nat) : OpOK s (.drop h)

/-- reading a Computable at top level, whether the read returns or raises -/
theorem read_spec_all (fuel : Nat) {s s' : St} {c : Nat} {r : R} (g : Good s)
    (h : exec fuel (.readC c) s = some (s', r)) :
    Good s' ∧ s'.store = s.store ∧ StaticEq s s' ∧
    (∀ v, r = .ok v → ∃ x, s'.comps c = some x ∧ x.dirty = false ∧ x.value = some v ∧ Den s' x.tree v) ∧
    (∀ e, r = .err e → s.comps c = none ∨
      ∃ x, s'.comps c = some x ∧ x.first = true ∧ x.dirty = true ∧ DenFail s' x.tree) := by
  obtain ⟨hok, herr⟩ := (exec_IH fuel).get c s s' r NoS g.stat g.inv (by simp [NoS]) (fun q hq => by simp [NoS] at hq) h
  cases r with
  | ok v =>
    have pg := hok v rfl
    obtain ⟨y, hy, hyd, hyv, _⟩ := pg.clean
    obtain ⟨v', hv', hden⟩ := clean_den pg.inv c y hy hyd
    rw [hyv] at hv'; cases hv'
    refine ⟨⟨g.stat.of_staticEq pg.stat, pg.inv, pg.cur.trans g.cur⟩, pg.store, pg.stat, fun v' hv' => ?_,
      fun e he => (by cases he)⟩
    injection hv' with hv'; subst hv'
    exact ⟨y, hy, hyd, hyv, hden⟩
  | err e =>
    have pe := herr e rfl
    refine ⟨⟨g.stat.of_staticEq pe.stat, pe.inv, pe.cur.trans g.cur⟩, pe.store, pe.stat, fun v hv => (by cases hv),
      fun _ _ => ?_⟩
    rcases pe.failed with hnone | ⟨y, hy, hyf, hyd, hdf, _⟩
    · exact Or.inl hnone
    · exact Or.inr ⟨y, hy, hyf, hyd, hdf⟩

/-- reading a Computable at top level -/
theorem read_spec (fuel : Nat) {s s' : St} {c : Nat} {v : V} (g : Good s)
    (h : exec fuel (.readC c) s = some (s', .ok v)) :
    Good s' ∧ s'.store = s.store ∧ StaticEq s s' ∧
    ∃ x, s'.comps c = some x ∧ x.dirty = false ∧ x.value = some v ∧ Den s' x.tree v := by
  obtain ⟨g', hst, se, hok, _⟩ := read_spec_all fuel g h
  exact ⟨g', hst, se, hok v rfl⟩

theorem mem_dirty_append_user (q h : Nat) (l : List Sub) : Sub.dirty q ∈ l ++ [Sub.user h] ↔ Sub.dirty q ∈ l := by
  simp

/-- every top-level operation — returning or raising — leaves a quiescent state in which the invariant holds -/
theorem step_good (fuel : Nat) {s s' : St} {op : Op} {r : R} (g : Good s) (ok : OpOK s op)
    (h : step fuel s op = some (s', r)) : Good s' := by
  cases ok with
  | define c o n t hd =>
    obtain ⟨w0, i0⟩ := define_pre g.stat g.inv hd
    exact (read_spec_all fuel ⟨w0, i0, g.cur⟩ h).1
  | assign k x =>
    obtain ⟨i, se, hc, _⟩ := assign_spec fuel g.stat g.inv g.cur h
    exact ⟨g.stat.of_staticEq se, i, hc⟩
  | read c => exact (read_spec_all fuel g h).1
  | observe k hh hprog =>
    simp only [step] at h
    rcases Reg.observe_spec (g.stat.regs k.1).wf (.one k.2) (.one .change) (Sub.user hh) with
      ⟨_, r', ho, hdecl, hs⟩ | ⟨_, ho⟩
    · rw [ho] at h
      injection h with h; injection h with h1 _; subst h1
      have se : StaticEq s (s.setReg k.1 r') := StaticEq.of_setReg hdecl
      refine ⟨g.stat.of_staticEq se, g.inv.congr_regs rfl rfl rfl ?_ ?_ ?_, g.cur⟩
      · intro o
        by_cases ho' : o = k.1
        · subst ho'; rw [setReg_same]; exact Reg.names_of_decls hdecl
        · rw [setReg_ne _ _ ho']
      · intro o n t q
        by_cases ho' : o = k.1
        · subst ho'; rw [setReg_same, hs]
          split
          · exact mem_dirty_append_user q hh _
          · exact Iff.rfl
        · rw [setReg_ne _ _ ho']
      · intro o n t h' hm
        rw [se.kindAt]
        by_cases ho' : o = k.1
        · subst ho'
          rw [setReg_same, hs] at hm
          split at hm
          · rename_i hc
            rcases List.mem_append.mp hm with hm | hm
            · exact g.inv.userOK _ n t h' hm
            · simp only [List.mem_singleton, Sub.user.injEq] at hm
              subst hm
              simp only [Sel.matches, decide_eq_true_eq] at hc
              have : (k.1, n) = k := by rw [← hc.1]
              rw [this]; exact hprog
          · exact g.inv.userOK _ n t h' hm
        · rw [setReg_ne _ _ ho'] at hm
          exact g.inv.userOK o n t h' hm
    · rw [ho] at h; injection h with h; injection h with h1 _; subst h1; exact g
  | unobserve k hh =>
    simp only [step] at h
    rcases Reg.unobserve_spec (g.stat.regs k.1).wf s.alive (.one k.2) (.one .change) (Sub.user hh) with
      ⟨_, ho⟩ | ⟨_, r', ho, hdecl, hs⟩
    · rw [ho] at h; injection h with h; injection h with h1 _; subst h1; exact g
    · rw [ho] at h
      injection h with h; injection h with h1 _; subst h1
      have se : StaticEq s (s.setReg k.1 r') := StaticEq.of_setReg hdecl
      refine ⟨g.stat.of_staticEq se, g.inv.congr_regs rfl rfl rfl ?_ ?_ ?_, g.cur⟩
      · intro o
        by_cases ho' : o = k.1
        · subst ho'; rw [setReg_same]; exact Reg.names_of_decls hdecl
        · rw [setReg_ne _ _ ho']
      · intro o n t q
        by_cases ho' : o = k.1
        · subst ho'; rw [setReg_same, hs]
          split
          · simp [Reg.keep]
          · exact Iff.rfl
        · rw [setReg_ne _ _ ho']
      · intro o n t h' hm
        rw [se.kindAt]
        by_cases ho' : o = k.1
        · subst ho'
          rw [setReg_same, hs] at hm
          split at hm
          · exact g.inv.userOK _ n t h' (List.mem_filter.mp hm).1
          · exact g.inv.userOK _ n t h' hm
        · rw [setReg_ne _ _ ho'] at hm
          exact g.inv.userOK o n t h' hm
  | drop hh =>
    simp only [step] at h
    injection h with h; injection h with h1 _; subst h1
    exact ⟨⟨g.stat.regs, g.stat.pure, g.stat.ranked, g.stat.obsKind, g.stat.slotKind, g.stat.slots⟩,
      g.inv.congr rfl rfl rfl rfl g.inv.curStack, g.cur⟩

/-- declarations of the owners: distinct names, every one an Observable or a Computable -/
def DeclsOK (decls : Nat → List Decl) : Prop :=
  ∀ o, ((decls o).map (·.name)).Nodup ∧ ∀ d ∈ decls o, d.types = [.change]

theorem init_good {decls : Nat → List Decl} (hd : DeclsOK decls) (progs : Nat → List Nat) : Good (init decls progs) := by
  refine ⟨⟨fun o => ⟨(hd o).1, (hd o).2⟩, ?_, ?_, ?_, ?_, ?_⟩, ⟨?_, ?_, ?_, ?_, ?_, ?_, ?_⟩, rfl⟩
  all_goals first
    | (intro o n t h hm; simp [init] at hm)
    | (intro c x hx; simp [init] at hx)
    | (intro c c' x x' hx; simp [init] at hx)
    | (intro c hc; simp [NoS] at hc)
    | (intro p hp; simp [init] at hp)
    | (intro o n t c hc; simp [init] at hc)
    | (intro c x hx _; simp [init] at hx)

end Mesa.Computed
