import MesaModel.Proofs.CellDyn
import MesaModel.Proofs.CellDicts
/-!
Helper lemmas for C06: `Grid2DMovingAgent` direction names on hex grids.  The connection keys of a hex cell
depend on the parity of its column (`coordinate[1]`); the four cardinal vectors are keys at every cell, the
diagonal ones at one parity only, and every diagonal step changes the parity.
-/
namespace Mesa.Cells

theorem assocGet_eq_some_iff {α β : Type} [DecidableEq α] {m : List (α × β)} (h : KeysNodup m) (k : α) (v : β) :
    assocGet m k = some v ↔ (k, v) ∈ m := by
  constructor
  · exact assocGet_mem
  · intro hm
    induction m with
    | nil => simp at hm
    | cons p m ih =>
      obtain ⟨k0, v0⟩ := p
      have hk0 : k0 ∉ m.map (·.1) := by
        unfold KeysNodup at h; simp only [List.map_cons, List.nodup_cons] at h; exact h.1
      have hm' : KeysNodup m := by
        unfold KeysNodup at h ⊢; simp only [List.map_cons, List.nodup_cons] at h; exact h.2
      simp only [List.mem_cons, Prod.mk.injEq] at hm
      simp only [assocGet]
      rcases hm with ⟨rfl, rfl⟩ | hm
      · simp
      · have : ¬ k0 = k := by
          rintro rfl
          exact hk0 (List.mem_map.mpr ⟨(k0, v), hm, rfl⟩)
        simp only [this, if_false]
        exact ih hm' hm

/-- the connections of a hex cell, straight from `_connect_cells_2d` (for any coordinate pair) -/
theorem mem_hexConn (h w : Nat) (torus : Bool) (i j : Int) (key c' : List Int) :
    (key, c') ∈ gridConn .hex [h, w] torus [i, j] ↔
      ∃ di dj ni nj, key = [di, dj] ∧ c' = [ni, nj] ∧ (di, dj) ∈ hexTable j ∧
        connect2d h w torus i j di dj = some (ni, nj) := by
  simp only [gridConn, offsets2d, List.mem_filterMap, Option.map_eq_some_iff, Prod.mk.injEq, Prod.exists]
  constructor
  · rintro ⟨di, dj, hm, ni, nj, hc, rfl, rfl⟩
    exact ⟨di, dj, ni, nj, rfl, rfl, hm, hc⟩
  · rintro ⟨di, dj, ni, nj, rfl, rfl, hm, hc⟩
    exact ⟨di, dj, hm, ni, nj, hc, rfl, rfl⟩

theorem hexConn_of_not_pair (h w : Nat) (torus : Bool) (c : List Int) (hc : ∀ i j, c ≠ [i, j]) :
    gridConn .hex [h, w] torus c = [] := by
  match c with
  | [] => rfl
  | [_] => rfl
  | [i, j] => exact absurd rfl (hc i j)
  | _ :: _ :: _ :: _ => rfl

/-- a diagonal step is possible at one column parity only, and it changes the parity -/
theorem hex_diag_flips (j di dj : Int) (hm : (di, dj) ∈ hexTable j) (hi : di ≠ 0) (hj : dj ≠ 0) :
    (di, dj) ∉ hexTable (j + dj) := by
  rcases Int.emod_two_eq j with h0 | h1
  · have hm' : (di, dj) ∈ Gen.hexWhenEven := by simpa [hexTable, h0] using hm
    simp only [Gen.hexWhenEven, List.mem_cons, Prod.mk.injEq, List.not_mem_nil, or_false] at hm'
    rcases hm' with ⟨rfl, rfl⟩ | ⟨rfl, rfl⟩ | ⟨rfl, rfl⟩ | ⟨rfl, rfl⟩ | ⟨rfl, rfl⟩ | ⟨rfl, rfl⟩ <;>
      first
        | exact absurd rfl hi
        | exact absurd rfl hj
        | (have hp : (j + 1) % 2 = 1 := by omega
           simp only [hexTable, hp]; decide)
        | (have hp : (j + -1) % 2 = 1 := by omega
           simp only [hexTable, hp]; decide)
  · have hm' : (di, dj) ∈ Gen.hexWhenOdd := by simpa [hexTable, h1] using hm
    simp only [Gen.hexWhenOdd, List.mem_cons, Prod.mk.injEq, List.not_mem_nil, or_false] at hm'
    rcases hm' with ⟨rfl, rfl⟩ | ⟨rfl, rfl⟩ | ⟨rfl, rfl⟩ | ⟨rfl, rfl⟩ | ⟨rfl, rfl⟩ | ⟨rfl, rfl⟩ <;>
      first
        | exact absurd rfl hi
        | exact absurd rfl hj
        | (have hp : (j + 1) % 2 = 0 := by omega
           simp only [hexTable, hp]; decide)
        | (have hp : (j + -1) % 2 = 0 := by omega
           simp only [hexTable, hp]; decide)

theorem connect2d_plain {h w : Nat} {i j di dj ni nj : Int} (hc : connect2d h w false i j di dj = some (ni, nj)) :
    ni = i + di ∧ nj = j + dj := by
  simp only [connect2d, Bool.false_eq_true, if_false] at hc
  split at hc
  · simp only [Option.some.injEq, Prod.mk.injEq] at hc; exact ⟨hc.1.symm, hc.2.symm⟩
  · cases hc

/-- on a hex grid without wrapping no diagonal key can be followed twice in a row -/
theorem hex_diag_walk (h w : Nat) (cap : Option Nat) (d : Key) (di dj : Int) (hd : d = [di, dj]) (hi : di ≠ 0)
    (hj : dj ≠ 0) (k : Nat) (c : Cid) : walk (gridSpace .hex [h, w] false cap) d (k + 2) c = none := by
  simp only [walk]
  cases h1 : connGet (gridSpace .hex [h, w] false cap) c d with
  | none => rfl
  | some c1 =>
    simp only
    cases h2 : connGet (gridSpace .hex [h, w] false cap) c1 d with
    | none => rfl
    | some c2 =>
      exfalso
      have m1 := assocGet_mem h1
      have m2 := assocGet_mem h2
      simp only [gridSpace] at m1 m2
      by_cases hc : ∃ i j, c = [i, j]
      · obtain ⟨i, j, rfl⟩ := hc
        obtain ⟨di1, dj1, ni, nj, hk1, rfl, ht1, hcn1⟩ := (mem_hexConn h w false i j d c1).mp m1
        rw [hd] at hk1
        simp only [List.cons.injEq, and_true] at hk1
        obtain ⟨rfl, rfl⟩ := hk1
        obtain ⟨rfl, rfl⟩ := connect2d_plain hcn1
        obtain ⟨di2, dj2, _, _, hk2, _, ht2, _⟩ := (mem_hexConn h w false (i + di) (j + dj) d c2).mp m2
        rw [hd] at hk2
        simp only [List.cons.injEq, and_true] at hk2
        obtain ⟨rfl, rfl⟩ := hk2
        exact hex_diag_flips j di dj ht1 hi hj ht2
      · rw [hexConn_of_not_pair h w false c (fun i j e => hc ⟨i, j, e⟩)] at m1
        simp at m1

end Mesa.Cells
