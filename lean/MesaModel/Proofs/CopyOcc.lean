import MesaModel.Model.CopyOcc
/-!
Helper lemmas for the cell-space half of C19 at identity level (`Model/CopyOcc.lean`): which identities an operation can
change (`DiffOn`), the congruence of `view` (what a space shows depends only on the records of `deps`), the frame lemma per
operation and over operation sequences, the copy lemmas.
-/
namespace Mesa.CopyOcc

theorem filterMap_congr' {α β} {f g : α → Option β} : ∀ {l : List α}, (∀ a ∈ l, f a = g a) → l.filterMap f = l.filterMap g
  | [], _ => rfl
  | x :: xs, h => by
    simp only [List.filterMap_cons, h x (List.mem_cons_self ..)]
    rw [filterMap_congr' (fun a ha => h a (List.mem_cons_of_mem _ ha))]

@[simp] theorem upd_same {β} (f : Nat → Option β) (k : Nat) (v : β) : upd f k v k = some v := by simp [upd]

theorem upd_ne {β} (f : Nat → Option β) {k x : Nat} (v : β) (h : x ≠ k) : upd f k v x = f x := by simp [upd, h]

theorem upd_cases {β} {f : Nat → Option β} {k i : Nat} {v x : β} (h : upd f k v i = some x) :
    (i = k ∧ x = v) ∨ (i ≠ k ∧ f i = some x) := by
  unfold upd at h
  split at h
  · left; exact ⟨by assumption, by simpa using h.symm⟩
  · right; exact ⟨by assumption, h⟩

/-! ### which records an operation can change -/

/-- `w'` differs from `w` at most in the records of identities satisfying `P` -/
structure DiffOn (P : Nat → Prop) (w w' : World) : Prop where
  cells : ∀ x, ¬ P x → w'.cells x = w.cells x
  agents : ∀ x, ¬ P x → w'.agents x = w.agents x
  spaces : ∀ x, ¬ P x → w'.spaces x = w.spaces x

theorem DiffOn.refl (P : Nat → Prop) (w : World) : DiffOn P w w := ⟨fun _ _ => rfl, fun _ _ => rfl, fun _ _ => rfl⟩

theorem DiffOn.mono {P Q : Nat → Prop} {w w' : World} (h : DiffOn P w w') (hpq : ∀ x, P x → Q x) : DiffOn Q w w' :=
  ⟨fun x hx => h.cells x (fun hp => hx (hpq x hp)), fun x hx => h.agents x (fun hp => hx (hpq x hp)),
   fun x hx => h.spaces x (fun hp => hx (hpq x hp))⟩

theorem DiffOn.trans {P : Nat → Prop} {w w1 w2 : World} (h1 : DiffOn P w w1) (h2 : DiffOn P w1 w2) : DiffOn P w w2 :=
  ⟨fun x hx => (h2.cells x hx).trans (h1.cells x hx), fun x hx => (h2.agents x hx).trans (h1.agents x hx),
   fun x hx => (h2.spaces x hx).trans (h1.spaces x hx)⟩

theorem leave_ne (w : World) (a o : Nat) {x : Nat} (h : x ≠ o) : leave w a o x = w.cells x := by
  unfold leave
  cases hc : w.cells o with
  | none => rfl
  | some cr => exact upd_ne _ _ h

theorem diff_unplaceRec (w : World) (a : Nat) (ar : AgentRec) :
    DiffOn (fun x => x = a ∨ ar.cell = some x) w (unplaceRec w a ar) := by
  unfold unplaceRec
  split
  · exact DiffOn.refl _ _
  · rename_i o ho
    refine ⟨fun x hx => ?_, fun x hx => ?_, fun _ _ => rfl⟩
    · exact leave_ne w a o (fun h => hx (Or.inr (h ▸ ho)))
    · exact upd_ne _ _ (fun h => hx (Or.inl h))

theorem diff_unplace (w : World) (a : Nat) : DiffOn (fun x => x = a ∨ x ∈ cellOf w a) w (unplace w a) := by
  cases har : w.agents a with
  | none =>
    simp only [unplace, har]
    exact DiffOn.refl _ _
  | some ar =>
    simp only [unplace, cellOf, har]
    exact (diff_unplaceRec w a ar).mono (fun x hx => by
      rcases hx with h | h
      · exact Or.inl h
      · right; simp [h])

theorem diff_place (w : World) (a c : Nat) : DiffOn (fun x => x = a ∨ x = c) w (place w a c) := by
  unfold place
  split
  · refine ⟨fun x hx => ?_, fun x hx => ?_, fun _ _ => rfl⟩
    · exact upd_ne _ _ (fun h => hx (Or.inr h))
    · exact upd_ne _ _ (fun h => hx (Or.inl h))
  · exact DiffOn.refl _ _

theorem diff_dereg (w : World) (a s : Nat) : DiffOn (fun x => x = a ∨ x = s) w (dereg w a s) := by
  unfold dereg
  split
  · refine ⟨fun _ _ => rfl, fun x hx => ?_, fun x hx => ?_⟩
    · have : x ≠ a := fun h => hx (Or.inl h)
      simp [this]
    · exact upd_ne _ _ (fun h => hx (Or.inr h))
  · refine ⟨fun _ _ => rfl, fun x hx => ?_, fun _ _ => rfl⟩
    have : x ≠ a := fun h => hx (Or.inl h)
    simp [this]

theorem diff_newSpace (w : World) (k : Nat) (cap : Option Nat) (grid : Bool) (pairs : List (Nat × Nat)) :
    DiffOn (fun x => w.next ≤ x) w (newSpace w k cap grid pairs).1 := by
  refine ⟨fun x hx => ?_, fun _ _ => rfl, fun x hx => ?_⟩
  · simp only [newSpace]
    have : ¬ (w.next + 1 ≤ x ∧ x < w.next + 1 + k) := by omega
    simp only [this, if_false]
  · simp only [newSpace]
    exact upd_ne _ _ (by omega)

theorem diff_copyWorld (w : World) (s : Nat) (sr : SpaceRec) : DiffOn (fun x => w.next ≤ x) w (copyWorld w s sr) := by
  refine ⟨fun x hx => ?_, fun x hx => ?_, fun x hx => ?_⟩
  · simp only [copyWorld, hx, if_false]
  · simp only [copyWorld, hx, if_false]
  · simp only [copyWorld]
    exact upd_ne _ _ (by omega)

/-- every operation changes at most the records it `writes` and fresh ones -/
theorem diff_step (w : World) (op : Op) : DiffOn (fun x => x ∈ writes w op ∨ w.next ≤ x) w (step w op) := by
  cases op with
  | newSpace k cap grid pairs => exact (diff_newSpace w k cap grid pairs).mono (fun x hx => Or.inr hx)
  | newAgent s =>
    simp only [step]
    cases hc : newAgent w s with
    | none => exact DiffOn.refl _ _
    | some p =>
      obtain ⟨w', a, uid⟩ := p
      simp only
      unfold newAgent at hc
      split at hc
      · simp at hc
      simp only [Option.some.injEq, Prod.mk.injEq] at hc
      obtain ⟨rfl, _, _⟩ := hc
      refine ⟨fun _ _ => rfl, fun x hx => ?_, fun x hx => ?_⟩
      · exact upd_ne _ _ (fun h => hx (Or.inr (by omega)))
      · exact upd_ne _ _ (fun h => hx (Or.inl (by simp [writes, h])))
  | set a c =>
    simp only [step]
    unfold setCell
    split
    · exact DiffOn.refl _ _
    rename_i ar har
    split
    · exact DiffOn.refl _ _
    split
    · exact DiffOn.refl _ _
    split
    · exact DiffOn.refl _ _
    have h1 := (diff_unplace w a).mono (Q := fun x => x ∈ writes w (.set a c) ∨ w.next ≤ x) (fun x hx => by
      left
      rcases hx with h | h
      · simp [writes, h]
      · simp [writes, h])
    have h2 := (diff_place (unplace w a) a c).mono (Q := fun x => x ∈ writes w (.set a c) ∨ w.next ≤ x) (fun x hx => by
      left
      rcases hx with h | h
      · simp [writes, h]
      · simp [writes, h])
    exact h1.trans h2
  | unset a =>
    simp only [step]
    cases hc : unsetCell w a with
    | none => exact DiffOn.refl _ _
    | some w' =>
      simp only [Option.getD_some]
      unfold unsetCell at hc
      split at hc
      · simp at hc
      rename_i ar har
      simp only [Option.some.injEq] at hc
      subst hc
      exact (diff_unplaceRec w a ar).mono (fun x hx => by
        left
        rcases hx with h | h
        · simp [writes, h]
        · simp [writes, cellOf, har, h])
  | remove a =>
    simp only [step]
    cases hc : remove w a with
    | none => exact DiffOn.refl _ _
    | some w' =>
      simp only [Option.getD_some]
      unfold remove at hc
      split at hc
      · simp at hc
      rename_i ar har
      simp only [Option.some.injEq] at hc
      subst hc
      have h1 := (diff_unplace w a).mono (Q := fun x => x ∈ writes w (.remove a) ∨ w.next ≤ x) (fun x hx => by
        left
        rcases hx with h | h
        · simp [writes, h]
        · simp [writes, h])
      have h2 := (diff_dereg (unplace w a) a ar.home).mono (Q := fun x => x ∈ writes w (.remove a) ∨ w.next ≤ x)
        (fun x hx => by
          left
          rcases hx with h | h
          · simp [writes, h]
          · simp [writes, homeOf, har, h])
      exact h1.trans h2
  | copy s =>
    simp only [step]
    cases hc : copySpace w s with
    | none => exact DiffOn.refl _ _
    | some p =>
      obtain ⟨w', s'⟩ := p
      simp only
      unfold copySpace at hc
      split at hc
      · simp at hc
      rename_i sr hsr
      simp only [Option.some.injEq, Prod.mk.injEq] at hc
      obtain ⟨rfl, _⟩ := hc
      exact (diff_copyWorld w s sr).mono (fun x hx => Or.inr hx)

/-! ### well-formedness for the frame: what a space lists is below `next` -/

structure WF (w : World) : Prop where
  spacesLt : ∀ s sr, w.spaces s = some sr → s < w.next ∧ (∀ c ∈ sr.cells, c < w.next) ∧ ∀ a ∈ sr.reg, a < w.next

theorem WF.init : WF Mesa.CopyOcc.init := ⟨fun s sr h => by simp [Mesa.CopyOcc.init] at h⟩

theorem WF.of_le {w w' : World} (hw : WF w) (hn : w.next ≤ w'.next)
    (hs : ∀ i sr, w'.spaces i = some sr → w.spaces i = some sr ∨
      (i < w'.next ∧ (∀ c ∈ sr.cells, c < w'.next) ∧ ∀ a ∈ sr.reg, a < w'.next)) : WF w' := by
  constructor
  intro i sr h
  rcases hs i sr h with h | h
  · obtain ⟨h0, h1, h2⟩ := hw.spacesLt i sr h
    exact ⟨by omega, fun c hc => by have := h1 c hc; omega, fun a ha => by have := h2 a ha; omega⟩
  · exact h

theorem unplaceRec_spaces (w : World) (a : Nat) (ar : AgentRec) : (unplaceRec w a ar).spaces = w.spaces := by
  unfold unplaceRec; split <;> rfl

theorem unplaceRec_next (w : World) (a : Nat) (ar : AgentRec) : (unplaceRec w a ar).next = w.next := by
  unfold unplaceRec; split <;> rfl

theorem unplaceRec_ids (w : World) (a : Nat) (ar : AgentRec) : (unplaceRec w a ar).ids = w.ids := by
  unfold unplaceRec; split <;> rfl

theorem unplace_spaces (w : World) (a : Nat) : (unplace w a).spaces = w.spaces := by
  unfold unplace; split
  · rfl
  · exact unplaceRec_spaces ..

theorem unplace_next (w : World) (a : Nat) : (unplace w a).next = w.next := by
  unfold unplace; split
  · rfl
  · exact unplaceRec_next ..

theorem place_spaces (w : World) (a c : Nat) : (place w a c).spaces = w.spaces := by
  unfold place; split <;> rfl

theorem place_next (w : World) (a c : Nat) : (place w a c).next = w.next := by
  unfold place; split <;> rfl

theorem WF.same {w w' : World} (hw : WF w) (hn : w'.next = w.next) (hs : w'.spaces = w.spaces) : WF w' :=
  hw.of_le (by omega) (fun i sr h => Or.inl (by rw [← hs]; exact h))

theorem WF.dereg {w : World} (hw : WF w) (a s : Nat) : WF (dereg w a s) := by
  unfold Mesa.CopyOcc.dereg
  split
  · rename_i sr hsr
    obtain ⟨h0, h1, h2⟩ := hw.spacesLt s sr hsr
    apply hw.of_le (by simp)
    intro i sr' h
    rcases upd_cases h with ⟨rfl, rfl⟩ | ⟨_, h⟩
    · right; exact ⟨h0, h1, fun x hx => h2 x (List.mem_of_mem_erase hx)⟩
    · left; exact h
  · exact hw.same rfl rfl

theorem WF.step {w : World} (hw : WF w) (op : Op) : WF (step w op) := by
  cases op with
  | newSpace k cap grid pairs =>
    apply hw.of_le (by simp [Mesa.CopyOcc.step, newSpace]; omega)
    intro i sr h
    simp only [Mesa.CopyOcc.step, newSpace] at h ⊢
    rcases upd_cases h with ⟨rfl, rfl⟩ | ⟨_, h⟩
    · right
      refine ⟨by omega, ?_, by simp⟩
      intro c hc
      simp only [List.mem_map, List.mem_range] at hc
      obtain ⟨j, hj, rfl⟩ := hc
      omega
    · left; exact h
  | newAgent s =>
    simp only [Mesa.CopyOcc.step]
    cases hc : newAgent w s with
    | none => exact hw
    | some p =>
      obtain ⟨w', a, uid⟩ := p
      simp only
      unfold newAgent at hc
      split at hc
      · simp at hc
      rename_i sr hsr
      simp only [Option.some.injEq, Prod.mk.injEq] at hc
      obtain ⟨rfl, _, _⟩ := hc
      obtain ⟨h0, h1, h2⟩ := hw.spacesLt s sr hsr
      apply hw.of_le (by simp)
      intro i sr' h
      rcases upd_cases h with ⟨rfl, rfl⟩ | ⟨_, h⟩
      · right
        refine ⟨by simp; omega, fun c hc => by have := h1 c hc; simp; omega, ?_⟩
        intro x hx
        simp only [List.mem_append, List.mem_singleton] at hx
        rcases hx with hx | rfl
        · have := h2 x hx; simp; omega
        · simp
      · left; exact h
  | set a c =>
    simp only [Mesa.CopyOcc.step]
    unfold setCell
    split
    · exact hw
    split
    · exact hw
    split
    · exact hw
    split
    · exact hw
    exact hw.same (by rw [place_next, unplace_next]) (by rw [place_spaces, unplace_spaces])
  | unset a =>
    simp only [Mesa.CopyOcc.step]
    cases hc : unsetCell w a with
    | none => exact hw
    | some w' =>
      simp only [Option.getD_some]
      unfold unsetCell at hc
      split at hc
      · simp at hc
      simp only [Option.some.injEq] at hc
      subst hc
      exact hw.same (unplaceRec_next ..) (unplaceRec_spaces ..)
  | remove a =>
    simp only [Mesa.CopyOcc.step]
    cases hc : remove w a with
    | none => exact hw
    | some w' =>
      simp only [Option.getD_some]
      unfold remove at hc
      split at hc
      · simp at hc
      simp only [Option.some.injEq] at hc
      subst hc
      exact (hw.same (unplace_next w a) (unplace_spaces w a)).dereg _ _
  | copy s =>
    simp only [Mesa.CopyOcc.step]
    cases hc : copySpace w s with
    | none => exact hw
    | some p =>
      obtain ⟨w', s'⟩ := p
      simp only
      unfold copySpace at hc
      split at hc
      · simp at hc
      rename_i sr hsr
      simp only [Option.some.injEq, Prod.mk.injEq] at hc
      obtain ⟨rfl, _⟩ := hc
      obtain ⟨h0, h1, h2⟩ := hw.spacesLt s sr hsr
      apply hw.of_le (by simp [copyWorld])
      intro i sr' h
      simp only [copyWorld] at h ⊢
      rcases upd_cases h with ⟨rfl, rfl⟩ | ⟨_, h⟩
      · right
        refine ⟨by omega, ?_, ?_⟩
        · intro c hc
          simp only [List.mem_map] at hc
          obtain ⟨c0, hc0, rfl⟩ := hc
          have := h1 c0 hc0
          omega
        · intro x hx
          simp only [List.mem_map] at hx
          obtain ⟨x0, hx0, rfl⟩ := hx
          have := h2 x0 hx0
          omega
      · left; exact h

theorem WF.run {w : World} (hw : WF w) (ops : List Op) : WF (run w ops) := by
  induction ops generalizing w with
  | nil => exact hw
  | cons op ops ih => exact ih (hw.step op)

theorem deps_lt {w : World} (hw : WF w) {s : Nat} (hs : s < w.next) : ∀ x ∈ deps w s, x < w.next := by
  intro x hx
  unfold deps at hx
  split at hx
  · simp at hx; subst hx; exact hs
  · rename_i sr hsr
    obtain ⟨_, h1, h2⟩ := hw.spacesLt s sr hsr
    simp only [List.mem_cons, List.mem_append] at hx
    rcases hx with rfl | h | h
    · exact hs
    · exact h1 x h
    · exact h2 x h

/-! ### what a space shows depends only on the records of `deps` -/

structure Agree (w w' : World) (s : Nat) : Prop where
  space : w'.spaces s = w.spaces s
  cell : ∀ x ∈ deps w s, w'.cells x = w.cells x
  agent : ∀ x ∈ deps w s, w'.agents x = w.agents x

theorem self_mem_deps (w : World) (s : Nat) : s ∈ deps w s := by
  unfold deps; split <;> simp

theorem Agree.of_diff {P : Nat → Prop} {w w' : World} {s : Nat} (h : DiffOn P w w') (hd : ∀ x ∈ deps w s, ¬ P x) :
    Agree w w' s :=
  ⟨h.spaces s (hd s (self_mem_deps w s)), fun x hx => h.cells x (hd x hx), fun x hx => h.agents x (hd x hx)⟩

theorem Agree.deps_eq {w w' : World} {s : Nat} (h : Agree w w' s) : deps w' s = deps w s := by
  unfold deps; rw [h.space]

theorem Agree.view_eq {w w' : World} {s : Nat} (h : Agree w w' s) : view w' s = view w s := by
  unfold view
  rw [h.space]
  cases hsr : w.spaces s with
  | none => rfl
  | some sr =>
    simp only
    congr 2
    · apply filterMap_congr'
      intro c hc
      unfold cellView
      rw [h.cell c (by simp [deps, hsr, hc])]
    · apply filterMap_congr'
      intro a ha
      unfold agentView
      rw [h.agent a (by simp [deps, hsr, ha])]

theorem Agree.empties_eq {w w' : World} {s : Nat} (h : Agree w w' s) : empties w' s = empties w s := by
  unfold empties
  rw [h.space]
  cases hsr : w.spaces s with
  | none => rfl
  | some sr =>
    simp only
    congr 1
    apply List.filter_congr
    intro c hc
    rw [h.cell c (by simp [deps, hsr, hc])]

/-- the frame lemma for one operation -/
theorem agree_step {w : World} {s : Nat} (hw : WF w) (hs : s < w.next) (op : Op)
    (hav : ∀ x ∈ writes w op, x ∉ deps w s) : Agree w (step w op) s :=
  Agree.of_diff (diff_step w op) (fun x hx hp => by
    rcases hp with hp | hp
    · exact hav x hp hx
    · have := deps_lt hw hs x hx
      omega)

/-- along the run every operation writes only identities satisfying `P` -/
def WritesOnly (P : Nat → Prop) : World → List Op → Prop
  | _, [] => True
  | w, op :: ops => (∀ x ∈ writes w op, P x) ∧ WritesOnly P (step w op) ops

theorem WritesOnly.mono {P Q : Nat → Prop} (h : ∀ x, P x → Q x) : ∀ {w : World} {ops : List Op},
    WritesOnly P w ops → WritesOnly Q w ops
  | _, [], _ => trivial
  | _, _ :: _, ⟨h1, h2⟩ => ⟨fun x hx => h x (h1 x hx), WritesOnly.mono h h2⟩

theorem frame_run {w : World} {s : Nat} (hw : WF w) {sr : SpaceRec} (hsr : w.spaces s = some sr) (ops : List Op)
    (hav : WritesOnly (fun x => x ∉ deps w s) w ops) : Agree w (run w ops) s := by
  induction ops generalizing w with
  | nil => exact ⟨rfl, fun _ _ => rfl, fun _ _ => rfl⟩
  | cons op ops ih =>
    obtain ⟨h1, h2⟩ := hav
    have hs : s < w.next := (hw.spacesLt s sr hsr).1
    have hag := agree_step hw hs op h1
    have hd : deps (step w op) s = deps w s := hag.deps_eq
    have hsr' : (step w op).spaces s = some sr := by rw [hag.space, hsr]
    have := ih (hw.step op) hsr' (by rw [hd]; exact h2)
    simp only [run, List.foldl_cons] at this ⊢
    exact ⟨this.space.trans hag.space, fun x hx => (this.cell x (by rw [hd]; exact hx)).trans (hag.cell x hx),
      fun x hx => (this.agent x (by rw [hd]; exact hx)).trans (hag.agent x hx)⟩

end Mesa.CopyOcc
