import MesaModel.Proofs.AgentSet
/-! Helper lemmas for the inherited mixin methods of `AgentSet` (set algebra, comparisons, `pop`/`clear`,
    in-place operators, `index`/`count`/`reversed`); model: `Model/AgentSet.lean`, section `mixins`. -/
namespace Mesa

section dedup
variable {α : Type} [DecidableEq α]

theorem dedup_filter (p : α → Bool) (l : List α) : dedup (l.filter p) = (dedup l).filter p := by
  induction l using snoc_induction with
  | nil => simp [dedup]
  | snoc l a ih =>
    rw [List.filter_append, dedup_append_singleton]
    by_cases hp : p a
    · have : [a].filter p = [a] := by simp [hp]
      rw [this, dedup_append_singleton, ih]
      by_cases hm : a ∈ dedup l
      · have hm' : a ∈ (dedup l).filter p := by simp [hm, hp]
        rw [addKey_of_mem hm, addKey_of_mem hm']
      · have hm' : a ∉ (dedup l).filter p := by simp [hm]
        rw [addKey_of_not_mem hm, addKey_of_not_mem hm']
        simp [List.filter_append, hp]
    · have : [a].filter p = [] := by simp [hp]
      rw [this, List.append_nil, ih]
      by_cases hm : a ∈ dedup l
      · rw [addKey_of_mem hm]
      · rw [addKey_of_not_mem hm]; simp [List.filter_append, hp]

theorem dedup_dedup (l : List α) : dedup (dedup l) = dedup l := dedup_of_nodup (nodup_dedup l)

theorem dedup_append (l m : List α) : dedup (l ++ m) = dedup l ++ (dedup m).filter (fun x => x ∉ l) := by
  induction m using snoc_induction with
  | nil => simp [dedup]
  | snoc m a ih =>
    rw [← List.append_assoc, dedup_append_singleton, ih, dedup_append_singleton]
    by_cases hl : a ∈ l
    · have h1 : a ∈ dedup l ++ (dedup m).filter (fun x => x ∉ l) := by simp [mem_dedup, hl]
      rw [addKey_of_mem h1]
      by_cases hm : a ∈ dedup m
      · rw [addKey_of_mem hm]
      · rw [addKey_of_not_mem hm]; simp [List.filter_append, hl]
    · by_cases hm : a ∈ dedup m
      · have h1 : a ∈ dedup l ++ (dedup m).filter (fun x => x ∉ l) := by simp [hm, hl]
        rw [addKey_of_mem h1, addKey_of_mem hm]
      · have h1 : a ∉ dedup l ++ (dedup m).filter (fun x => x ∉ l) := by simp [mem_dedup, hm, hl]
        rw [addKey_of_not_mem h1, addKey_of_not_mem hm]
        simp [List.filter_append, hl]

end dedup

namespace ASet
section mixins
variable {α : Type} [DecidableEq α]

/-! ### `|`, `&`, `-`, `^` -/

theorem unionL_eq (l m : List α) : unionL l m = dedup l ++ (dedup m).filter (fun x => x ∉ l) := dedup_append l m

theorem interL_eq (l m : List α) : interL l m = (dedup m).filter (fun x => x ∈ l) := dedup_filter _ m

theorem diffL_eq (l m : List α) : diffL l m = (dedup l).filter (fun x => x ∉ m) := by
  unfold diffL
  rw [dedup_filter]
  apply List.filter_congr
  intro x _
  simp [mem_dedup]

theorem xorL_eq (l m : List α) :
    xorL l m = (dedup l).filter (fun x => x ∉ m) ++ (dedup m).filter (fun x => x ∉ l) := by
  unfold xorL
  rw [unionL_eq, diffL_eq, diffL_eq, dedup_dedup]
  have h1 : dedup ((dedup l).filter (fun x => x ∉ m)) = (dedup l).filter (fun x => x ∉ m) :=
    dedup_of_nodup ((nodup_dedup l).sublist List.filter_sublist)
  have h2 : dedup ((dedup m).filter (fun x => x ∉ l)) = (dedup m).filter (fun x => x ∉ l) :=
    dedup_of_nodup ((nodup_dedup m).sublist List.filter_sublist)
  rw [h1, h2]
  congr 1
  rw [List.filter_eq_self]
  intro x hx
  simp only [List.mem_filter, mem_dedup, decide_eq_true_eq] at hx ⊢
  intro hx'
  exact hx.2 hx'.1

theorem nodup_unionL (l m : List α) : (unionL l m).Nodup := nodup_dedup _
theorem nodup_interL (l m : List α) : (interL l m).Nodup := nodup_dedup _
theorem nodup_diffL (l m : List α) : (diffL l m).Nodup := nodup_dedup _
theorem nodup_xorL (l m : List α) : (xorL l m).Nodup := nodup_dedup _

theorem mem_unionL {l m : List α} {x : α} : x ∈ unionL l m ↔ x ∈ l ∨ x ∈ m := by simp [unionL, mem_dedup]
theorem mem_interL {l m : List α} {x : α} : x ∈ interL l m ↔ x ∈ l ∧ x ∈ m := by
  simp [interL, mem_dedup, and_comm]
theorem mem_diffL {l m : List α} {x : α} : x ∈ diffL l m ↔ x ∈ l ∧ x ∉ m := by simp [diffL, mem_dedup]
theorem mem_xorL {l m : List α} {x : α} : x ∈ xorL l m ↔ (x ∈ l ∧ x ∉ m) ∨ (x ∈ m ∧ x ∉ l) := by
  simp [xorL, mem_unionL, mem_diffL, mem_dedup]

/-! ### comparisons -/

/-- a duplicate-free list inside a list that is not longer contains all of it -/
theorem subset_of_subset_of_length_le {l m : List α} (hl : l.Nodup) (hs : l ⊆ m) (hlen : m.length ≤ l.length) :
    m ⊆ l := by
  induction l generalizing m with
  | nil =>
    have : m = [] := List.eq_nil_of_length_eq_zero (by simpa using hlen)
    simp [this]
  | cons a t ih =>
    rw [List.nodup_cons] at hl
    have ha : a ∈ m := hs List.mem_cons_self
    have hts : t ⊆ m.erase a := by
      intro x hx
      have hxa : x ≠ a := fun h => hl.1 (h ▸ hx)
      exact (List.mem_erase_of_ne hxa).2 (hs (List.mem_cons_of_mem _ hx))
    have hlen' : (m.erase a).length ≤ t.length := by
      rw [List.length_erase_of_mem ha]; simp at hlen; omega
    have := ih hl.2 hts hlen'
    intro x hx
    by_cases hxa : x = a
    · simp [hxa]
    · exact List.mem_cons_of_mem _ (this ((List.mem_erase_of_ne hxa).2 hx))

theorem leL_iff {l m : List α} (hl : l.Nodup) : leL l m = true ↔ l ⊆ m := by
  unfold leL
  constructor
  · intro h
    split at h
    · simp at h
    · intro x hx; simpa using (List.all_eq_true.mp h) x hx
  · intro h
    have := hl.length_le_of_subset h
    rw [if_neg (by omega)]
    exact List.all_eq_true.mpr (fun x hx => by simpa using h hx)

theorem geL_eq_leL (l m : List α) : geL l m = leL m l := rfl
theorem gtL_eq_ltL (l m : List α) : gtL l m = ltL m l := rfl

theorem eqL_iff {l m : List α} (hl : l.Nodup) (hm : m.Nodup) : eqL l m = true ↔ l.Perm m := by
  unfold eqL
  rw [Bool.and_eq_true, decide_eq_true_eq, leL_iff hl]
  constructor
  · rintro ⟨hlen, hs⟩
    exact (List.perm_ext_iff_of_nodup hl hm).mpr
      (fun a => ⟨fun h => hs h, fun h => subset_of_subset_of_length_le hl hs (by omega) h⟩)
  · intro h
    exact ⟨h.length_eq, h.subset⟩

theorem ltL_iff {l m : List α} (hl : l.Nodup) (hm : m.Nodup) : ltL l m = true ↔ l ⊆ m ∧ ¬ m ⊆ l := by
  unfold ltL
  rw [Bool.and_eq_true, decide_eq_true_eq, leL_iff hl]
  constructor
  · rintro ⟨hlen, hs⟩
    refine ⟨hs, fun h => ?_⟩
    have := hm.length_le_of_subset h
    omega
  · rintro ⟨hs, hn⟩
    refine ⟨?_, hs⟩
    have h1 := hl.length_le_of_subset hs
    rcases Nat.lt_or_ge l.length m.length with h | h
    · exact h
    · exact absurd (subset_of_subset_of_length_le hl hs h) hn

theorem disjointL_iff (l m : List α) : disjointL l m = true ↔ ∀ x, x ∈ l → x ∉ m := by
  unfold disjointL
  rw [List.all_eq_true]
  constructor
  · intro h x hx hm; have := h x hm; simp [hx] at this
  · intro h x hm; simpa using fun hx => h x hx hm

/-! ### `pop`, `clear`, the in-place operators -/

omit [DecidableEq α] in
theorem clearL_go_nil (f : Nat) (l : List α) (h : l.length ≤ f) : clearL.go f l = [] := by
  induction f generalizing l with
  | zero => simp at h; simp [clearL.go, h]
  | succ f ih =>
    cases l with
    | nil => simp [clearL.go, popL]
    | cons a rest => simp only [clearL.go, popL]; exact ih rest (by simpa using h)

omit [DecidableEq α] in
theorem clearL_eq_nil (l : List α) : clearL l = [] := clearL_go_nil _ _ (Nat.le_refl _)

theorem iorL_eq_unionL {l m : List α} (hl : l.Nodup) : iorL l m = unionL l m := by
  unfold iorL unionL dedup
  rw [List.foldl_append]
  have : l.foldl addKey [] = l := dedup_of_nodup hl
  rw [this]

theorem discardAll_eq_filter {l : List α} (hl : l.Nodup) (m : List α) :
    discardAll l m = l.filter (fun x => x ∉ m) := by
  unfold discardAll
  induction m generalizing l with
  | nil => simpa using (List.filter_eq_self.mpr (fun _ _ => rfl)).symm
  | cons a m ih =>
    simp only [List.foldl_cons]
    rw [ih (hl.erase a), hl.erase_eq_filter, List.filter_filter]
    apply List.filter_congr
    intro x _
    by_cases hxa : x = a <;> simp [hxa]

theorem nodup_discardAll {l : List α} (hl : l.Nodup) (m : List α) : (discardAll l m).Nodup := by
  rw [discardAll_eq_filter hl]; exact hl.sublist List.filter_sublist

theorem iandL_eq_filter {l : List α} (hl : l.Nodup) (m : List α) : iandL l m = l.filter (fun x => x ∈ m) := by
  unfold iandL
  rw [discardAll_eq_filter hl]
  apply List.filter_congr
  intro x hx
  simp [mem_diffL, hx]

theorem isubL_eq_diffL {l : List α} (hl : l.Nodup) (m : List α) : isubL l m false = diffL l m := by
  simp only [isubL, Bool.false_eq_true, if_false]
  rw [discardAll_eq_filter hl, diffL_eq, dedup_of_nodup hl]

/-- the toggling loop of `__ixor__` over a duplicate-free `d` -/
theorem ixor_fold {l : List α} (hl : l.Nodup) (d : List α) (hd : d.Nodup) :
    d.foldl (fun acc v => if v ∈ acc then acc.erase v else addKey acc v) l
      = l.filter (fun x => x ∉ d) ++ d.filter (fun x => x ∉ l) := by
  induction d using snoc_induction with
  | nil => simpa using (List.filter_eq_self.mpr (fun _ _ => rfl)).symm
  | snoc d v ih =>
    have hd' : d.Nodup := (List.nodup_append.mp hd).1
    have hv : v ∉ d := by
      intro h
      exact (List.nodup_append.mp hd).2.2 v h v (by simp) rfl
    rw [List.foldl_append, ih hd']
    simp only [List.foldl_cons, List.foldl_nil]
    have hfl : (l.filter (fun x => x ∉ d)).Nodup := hl.sublist List.filter_sublist
    by_cases hvl : v ∈ l
    · have h1 : v ∈ l.filter (fun x => x ∉ d) := by simp [hvl, hv]
      have h2 : v ∈ l.filter (fun x => x ∉ d) ++ d.filter (fun x => x ∉ l) := List.mem_append_left _ h1
      rw [if_pos h2, List.erase_append_left _ h1, hfl.erase_eq_filter, List.filter_filter]
      congr 1
      · apply List.filter_congr
        intro x _
        by_cases hxv : x = v <;> simp [hxv, hv]
      · simp [List.filter_append, hvl]
    · have h2 : v ∉ l.filter (fun x => x ∉ d) ++ d.filter (fun x => x ∉ l) := by simp [hvl, hv]
      rw [if_neg h2, addKey_of_not_mem h2]
      have : l.filter (fun x => x ∉ d ++ [v]) = l.filter (fun x => x ∉ d) := by
        apply List.filter_congr
        intro x hx
        have : x ≠ v := fun h => hvl (h ▸ hx)
        simp [this]
      rw [this]
      simp [List.filter_append, hvl]

theorem ixorL_eq_xorL {l : List α} (hl : l.Nodup) (m : List α) : ixorL l m false = xorL l m := by
  simp only [ixorL, Bool.false_eq_true, if_false]
  rw [ixor_fold hl _ (nodup_dedup m), xorL_eq, dedup_of_nodup hl]
  congr 1
  apply List.filter_congr
  intro x _
  simp [mem_dedup]

theorem nodup_isetopL {l : List Nat} (hl : l.Nodup) (m : List Nat) (same : Bool) (op : SetOp) :
    (isetopL l m same op).Nodup := by
  cases op with
  | or => simp only [isetopL]; rw [iorL_eq_unionL hl]; exact nodup_unionL _ _
  | and => simp only [isetopL]; rw [iandL_eq_filter hl]; exact hl.sublist List.filter_sublist
  | sub =>
    cases same
    · simp only [isetopL]; rw [isubL_eq_diffL hl]; exact nodup_diffL _ _
    · simp [isetopL, isubL, clearL_eq_nil]
  | xor =>
    cases same
    · simp only [isetopL]; rw [ixorL_eq_xorL hl]; exact nodup_xorL _ _
    · simp [isetopL, ixorL, clearL_eq_nil]
  | rsub => exact hl

theorem nodup_setop_eval (l m : List Nat) (op : SetOp) : (op.eval l m).Nodup := by
  cases op <;> exact nodup_dedup _

/-! ### `index` -/

theorem indexGo_spec (v : α) (stop : Option Int) (l : List α) (i j : Nat) :
    indexGo v stop l i = some j ↔
      ∃ k, j = i + k ∧ l[k]? = some v ∧ (∀ k', k' < k → l[k']? ≠ some v) ∧ (∀ s, stop = some s → (j : Int) < s) := by
  induction l generalizing i with
  | nil => simp [indexGo]
  | cons a rest ih =>
    unfold indexGo
    by_cases hstop : stopHit stop i = true
    · -- the range is exhausted at i
      rw [if_pos hstop]
      constructor
      · intro h; simp at h
      · rintro ⟨k, rfl, _, _, hs⟩
        cases stop with
        | none => simp [stopHit] at hstop
        | some s =>
          simp only [stopHit, decide_eq_true_eq] at hstop
          have := hs s rfl
          omega
    · rw [if_neg hstop]
      have hs0 : ∀ s, stop = some s → (i : Int) < s := by
        intro s hs; subst hs; simp only [stopHit, decide_eq_true_eq] at hstop; omega
      by_cases hav : a = v
      · rw [if_pos hav]
        constructor
        · intro h
          simp only [Option.some.injEq] at h
          subst h
          exact ⟨0, rfl, by simp [hav], fun k' hk' => absurd hk' (Nat.not_lt_zero _), by simpa using hs0⟩
        · rintro ⟨k, rfl, hk, hmin, _⟩
          cases k with
          | zero => rfl
          | succ k => exact absurd (by simp [hav]) (hmin 0 (Nat.succ_pos _))
      · rw [if_neg hav, ih]
        constructor
        · rintro ⟨k, rfl, hk, hmin, hs⟩
          refine ⟨k + 1, by omega, by simpa using hk, ?_, hs⟩
          intro k' hk'
          cases k' with
          | zero => simp [hav]
          | succ k' => simpa using hmin k' (by omega)
        · rintro ⟨k, rfl, hk, hmin, hs⟩
          cases k with
          | zero => simp at hk; exact absurd hk hav
          | succ k =>
            refine ⟨k, by omega, by simpa using hk, ?_, hs⟩
            intro k' hk'
            simpa using hmin (k' + 1) (by omega)

end mixins
end ASet
end Mesa
