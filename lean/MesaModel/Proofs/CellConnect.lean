import MesaModel.Proofs.CellOffsets
/-!
Helper lemmas for C07: `connectNd` / `connect2d` = "add the offset, wrap on a torus, keep iff in
bounds"; totality on a torus; symmetry (torus wrap-back); the cells of a grid.  Core Lean only.
-/
namespace Mesa.Cells

/-- `c` is a coordinate of the grid with dimensions `dims` (same number of axes, every component in range) -/
def InB : List Int → List Nat → Prop
  | [], [] => True
  | x :: c, w :: ds => (0 ≤ x ∧ x < (w : Int)) ∧ InB c ds
  | _, _ => False

theorem InB.length_eq {c : List Int} {dims : List Nat} (h : InB c dims) : c.length = dims.length := by
  induction c generalizing dims with
  | nil => cases dims <;> simp_all [InB]
  | cons x c ih =>
    cases dims with
    | nil => simp [InB] at h
    | cons w ds => simp [InB] at h; simp [ih h.2]

theorem inb_cons (x : Int) (c : List Int) (w : Nat) (ds : List Nat) :
    inb (x :: c) (w :: ds) = (decide (0 ≤ x ∧ x < (w : Int)) && inb c ds) := rfl

theorem inb_of_InB {c : List Int} {dims : List Nat} (h : InB c dims) : inb c dims = true := by
  induction c generalizing dims with
  | nil => cases dims <;> simp_all [InB, inb]
  | cons x c ih =>
    cases dims with
    | nil => simp [InB] at h
    | cons w ds =>
      simp only [InB] at h
      rw [inb_cons, ih h.2, decide_eq_true h.1]
      rfl

theorem InB_of_inb {c : List Int} {dims : List Nat} (hl : c.length = dims.length) (h : inb c dims = true) :
    InB c dims := by
  induction c generalizing dims with
  | nil => cases dims <;> simp_all [InB]
  | cons x c ih =>
    cases dims with
    | nil => simp at hl
    | cons w ds =>
      rw [inb_cons, Bool.and_eq_true, decide_eq_true_eq] at h
      exact ⟨h.1, ih (by simpa using hl) h.2⟩

theorem mem_allCoords (dims : List Nat) (c : List Int) : c ∈ allCoords dims ↔ InB c dims := by
  induction dims generalizing c with
  | nil => cases c <;> simp [allCoords, InB]
  | cons w ds ih =>
    simp only [allCoords, List.mem_flatMap, List.mem_range, List.mem_map]
    constructor
    · rintro ⟨x, hx, t, ht, rfl⟩
      exact ⟨⟨by omega, by omega⟩, (ih t).mp ht⟩
    · intro h
      cases c with
      | nil => simp [InB] at h
      | cons x t =>
        simp only [InB] at h
        refine ⟨x.toNat, by omega, t, (ih t).mpr h.2, ?_⟩
        congr 1
        omega

/-- symmetry of a torus connection in one axis: going d then -d returns (DESIGN A.2) -/
theorem wrap_back (x d w : Int) (hw : 0 < w) (hx : 0 ≤ x) (hx' : x < w) :
    ((x + d) % w + -d) % w = x := by
  rw [Int.add_emod, Int.emod_emod_of_dvd _ (Int.dvd_refl w), ← Int.add_emod]
  have : x + d + -d = x := by omega
  rw [this]
  exact Int.emod_eq_of_lt hx hx'

theorem InB_wrapv {v : List Int} {dims : List Nat} (hpos : ∀ w ∈ dims, 0 < w) (hl : v.length = dims.length) :
    InB (wrapv v dims) dims := by
  induction v generalizing dims with
  | nil => cases dims <;> simp_all [InB, wrapv]
  | cons x v ih =>
    cases dims with
    | nil => simp at hl
    | cons w ds =>
      have hw : 0 < w := hpos w (by simp)
      simp only [wrapv, List.zipWith_cons_cons, InB]
      refine ⟨⟨Int.emod_nonneg _ (by omega), Int.emod_lt_of_pos _ (by omega)⟩, ?_⟩
      exact ih (fun w' hw' => hpos w' (by simp [hw'])) (by simpa using hl)

theorem addv_length {c d : List Int} (h : d.length = c.length) : (addv c d).length = c.length := by
  simp [addv, h]

theorem wrapv_addv_back {c d : List Int} {dims : List Nat} (hpos : ∀ w ∈ dims, 0 < w) (hc : InB c dims)
    (hd : d.length = dims.length) : wrapv (addv (wrapv (addv c d) dims) (negv d)) dims = c := by
  induction c generalizing d dims with
  | nil => cases dims <;> simp_all [InB, wrapv, addv]
  | cons x c ih =>
    cases dims with
    | nil => simp [InB] at hc
    | cons w ds =>
      cases d with
      | nil => simp at hd
      | cons y d =>
        simp only [InB] at hc
        have hw : 0 < w := hpos w (by simp)
        simp only [addv, wrapv, negv, List.zipWith_cons_cons, List.map_cons, List.cons.injEq]
        refine ⟨wrap_back x y w (by omega) hc.1.1 hc.1.2, ?_⟩
        exact ih (fun w' hw' => hpos w' (by simp [hw'])) hc.2 (by simpa using hd)

theorem addv_negv_back {c d : List Int} (hd : d.length = c.length) : addv (addv c d) (negv d) = c := by
  induction c generalizing d with
  | nil => simp [addv]
  | cons x c ih =>
    cases d with
    | nil => simp at hd
    | cons y d =>
      simp only [addv, negv, List.zipWith_cons_cons, List.map_cons, List.cons.injEq]
      exact ⟨by omega, ih (by simpa using hd)⟩

/-- what `connectNd` computes before the bounds test -/
def target (dims : List Nat) (torus : Bool) (c d : List Int) : List Int :=
  if torus then wrapv (addv c d) dims else addv c d

theorem target_length {dims : List Nat} {torus : Bool} {c d : List Int} (hc : c.length = dims.length)
    (hd : d.length = dims.length) : (target dims torus c d).length = dims.length := by
  unfold target
  split
  · simp [wrapv, addv, hc, hd]
  · simp [addv, hc, hd]

/-- `connect … c d = some c' ↔ c' = wrap/plain (c+d) ∧ c' in bounds` -/
theorem connectNd_spec {dims : List Nat} {torus : Bool} {c d c' : List Int} (hc : c.length = dims.length)
    (hd : d.length = dims.length) :
    connectNd dims torus c d = some c' ↔ c' = target dims torus c d ∧ InB c' dims := by
  have hl := target_length (torus := torus) hc hd
  unfold connectNd
  simp only
  change (if inb (target dims torus c d) dims = true then some (target dims torus c d) else none) = some c' ↔ _
  constructor
  · intro h
    split at h
    · rename_i hb
      simp at h
      subst h
      exact ⟨rfl, InB_of_inb hl hb⟩
    · simp at h
  · rintro ⟨rfl, hb⟩
    rw [if_pos (inb_of_InB hb)]

/-- on a torus every offset leads to a cell -/
theorem connectNd_torus_total {dims : List Nat} {c d : List Int} (hpos : ∀ w ∈ dims, 0 < w)
    (hc : c.length = dims.length) (hd : d.length = dims.length) :
    connectNd dims true c d = some (wrapv (addv c d) dims) := by
  rw [connectNd_spec hc hd]
  refine ⟨by simp [target], InB_wrapv hpos ?_⟩
  simp [addv, hc, hd]

/-- without wrapping a connection is absent exactly beyond the edge -/
theorem connectNd_plain_none {dims : List Nat} {c d : List Int} (hc : c.length = dims.length)
    (hd : d.length = dims.length) : connectNd dims false c d = none ↔ ¬ InB (addv c d) dims := by
  constructor
  · intro h hb
    have := (connectNd_spec (torus := false) hc hd).mpr ⟨rfl, by simpa [target] using hb⟩
    simp [target] at this
    rw [h] at this
    simp at this
  · intro h
    cases hcn : connectNd dims false c d with
    | none => rfl
    | some c' =>
      obtain ⟨rfl, hb⟩ := (connectNd_spec hc hd).mp hcn
      simp [target] at hb
      exact absurd hb h

/-- connection is symmetric: the negated offset leads back (torus: wrap-back) -/
theorem connectNd_symm {dims : List Nat} {torus : Bool} {c d c' : List Int} (hpos : ∀ w ∈ dims, 0 < w)
    (hc : InB c dims) (hd : d.length = dims.length) (h : connectNd dims torus c d = some c') :
    connectNd dims torus c' (negv d) = some c := by
  obtain ⟨rfl, hb⟩ := (connectNd_spec hc.length_eq hd).mp h
  rw [connectNd_spec hb.length_eq (by rw [negv_length]; exact hd)]
  refine ⟨?_, hc⟩
  unfold target
  cases torus with
  | true => simp only [if_true]; exact (wrapv_addv_back hpos hc hd).symm
  | false =>
    simp only [Bool.false_eq_true, if_false]
    exact (addv_negv_back (by rw [hd, hc.length_eq])).symm

/-- the 2-D code path computes the same as the n-D one -/
theorem connect2d_eq_nd (h w : Nat) (torus : Bool) (i j di dj : Int) :
    (connect2d h w torus i j di dj).map (fun p => [p.1, p.2]) = connectNd [h, w] torus [i, j] [di, dj] := by
  unfold connect2d connectNd
  cases torus <;>
    simp only [addv, wrapv, inb, List.zipWith_cons_cons, List.zipWith_nil_right, List.all_cons, List.all_nil, id,
      Bool.false_eq_true, if_false, if_true, Bool.and_true] <;>
    split <;> rename_i hh <;> simp_all

end Mesa.Cells
