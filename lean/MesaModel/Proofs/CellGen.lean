import MesaModel.Model.CellGen
/-! helper lemmas for `Props/C01Cells.lean`: the rejection-sampling loop and its draw count -/
namespace Mesa.Cells

theorem tryRandom_congr (s s' : State) (cells : List Cid) (h : ∀ c ∈ cells, isEmpty s c = isEmpty s' c) (draws : List Nat) :
    tryRandomLoop s cells draws = tryRandomLoop s' cells draws ∧ tryRandomUsed s cells draws = tryRandomUsed s' cells draws := by
  induction draws with
  | nil => exact ⟨rfl, rfl⟩
  | cons d ds ih =>
    simp only [tryRandomLoop, tryRandomUsed]
    cases hd : draw cells d with
    | none => exact ⟨rfl, rfl⟩
    | some c =>
      have hc : c ∈ cells := by
        unfold draw at hd
        exact List.mem_of_getElem? hd
      simp only [h c hc]
      by_cases he : isEmpty s' c = true
      · simp [he]
      · simp only [he, Bool.false_eq_true, if_false]
        exact ⟨ih.1, by rw [ih.2]⟩

theorem tryRandomUsed_le (s : State) (cells : List Cid) (draws : List Nat) : tryRandomUsed s cells draws ≤ draws.length := by
  induction draws with
  | nil => simp [tryRandomUsed]
  | cons d ds ih =>
    simp only [tryRandomUsed]
    cases draw cells d with
    | none => simp
    | some c =>
      by_cases he : isEmpty s c = true
      · simp [he]
      · simp only [he, Bool.false_eq_true, if_false, List.length_cons]; omega

theorem tryRandomUsed_pos (s : State) (cells : List Cid) (draws : List Nat) (c : Cid)
    (h : tryRandomLoop s cells draws = .okCell c) : 1 ≤ tryRandomUsed s cells draws := by
  cases draws with
  | nil => simp [tryRandomLoop] at h
  | cons d ds =>
    simp only [tryRandomLoop, tryRandomUsed] at h ⊢
    cases hd : draw cells d with
    | none => rw [hd] at h; simp at h
    | some c0 =>
      by_cases he : isEmpty s c0 = true
      · simp [he]
      · simp only [he, Bool.false_eq_true, if_false]; omega

theorem tryRandomUsed_script (s : State) (cells : List Cid) (draws : List Nat)
    (h : tryRandomLoop s cells draws = .err .script) : tryRandomUsed s cells draws = draws.length := by
  induction draws with
  | nil => simp [tryRandomUsed]
  | cons d ds ih =>
    simp only [tryRandomLoop, tryRandomUsed] at h ⊢
    cases hd : draw cells d with
    | none => rw [hd] at h; simp at h
    | some c0 =>
      rw [hd] at h
      by_cases he : isEmpty s c0 = true
      · simp [he] at h
      · simp only [he, Bool.false_eq_true, if_false] at h ⊢
        rw [ih h, List.length_cons]; omega

end Mesa.Cells
