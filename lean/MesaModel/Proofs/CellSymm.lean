import MesaModel.Proofs.CellGrid
import MesaModel.Proofs.CellNbhd
/-!
Helper lemmas for C07: symmetry of grid connections; Network and Voronoi adjacency.
-/
namespace Mesa.Cells

/-- the hypothesis under which a wrapped hexagonal tiling exists: even size along the offset axis -/
def HexTorusOK (k : GridKind) (dims : List Nat) (torus : Bool) : Prop :=
  k = .hex → torus = true → ∀ h w, dims = [h, w] → w % 2 = 0

theorem isOffset_symm {k : GridKind} {dims : List Nat} {torus : Bool} {c key c' : List Int}
    (hc : InB c dims) (hx : HexTorusOK k dims torus)
    (ho : IsOffset k dims.length c key) (hcn : connectNd dims torus c key = some c') :
    IsOffset k dims.length c' (negv key) := by
  cases k with
  | moore => exact ⟨by rw [negv_length]; exact ho.1, by rw [chebNorm_negv]; exact ho.2⟩
  | vn => exact ⟨by rw [negv_length]; exact ho.1, by rw [manhNorm_negv]; exact ho.2⟩
  | hex =>
    obtain ⟨h2, i, j, di, dj, rfl, rfl, ht⟩ := ho
    refine ⟨h2, ?_⟩
    match dims, hc with
    | [h, w], hc =>
      obtain ⟨rfl, _⟩ := (connectNd_spec hc.length_eq rfl).mp hcn
      cases torus with
      | false =>
        refine ⟨i + di, j + dj, -di, -dj, by simp [target, addv], by simp [negv], hexTouch_symm i j di dj ht⟩
      | true =>
        have hw : (w : Int) % 2 = 0 := by
          have := hx rfl rfl h w rfl
          omega
        refine ⟨(i + di) % h, (j + dj) % w, -di, -dj, by simp [target, addv, wrapv], by simp [negv], ?_⟩
        have hs := hexTouch_symm i j di dj ht
        rw [← hexTable_touching] at hs ⊢
        rw [hexTable_parity ((j + dj) % w) (j + dj)]
        · exact hs
        · exact Int.emod_emod_of_dvd _ (Int.dvd_of_emod_eq_zero hw)

/-- connection is symmetric in every grid geometry (hex tori: even offset-axis size) -/
theorem gridConn_symm (k : GridKind) (dims : List Nat) (torus : Bool) (c : List Int)
    (hpos : ∀ w ∈ dims, 0 < w) (hc : InB c dims) (hk : k = .hex → dims.length = 2)
    (hx : HexTorusOK k dims torus) (key c' : List Int)
    (h : (key, c') ∈ gridConn k dims torus c) : (negv key, c) ∈ gridConn k dims torus c' := by
  obtain ⟨ho, hcn⟩ := (mem_gridConn k dims torus c hc hk key c').mp h
  have hc' : InB c' dims := ((connectNd_spec hc.length_eq ho.length_eq).mp hcn).2
  rw [mem_gridConn k dims torus c' hc' hk]
  exact ⟨isOffset_symm hc hx ho hcn, connectNd_symm hpos hc ho.length_eq hcn⟩

/-- connections stay inside the grid -/
theorem gridConn_InB (k : GridKind) (dims : List Nat) (torus : Bool) (c : List Int) (hc : InB c dims)
    (hk : k = .hex → dims.length = 2) (key c' : List Int) (h : (key, c') ∈ gridConn k dims torus c) :
    InB c' dims := by
  obtain ⟨ho, hcn⟩ := (mem_gridConn k dims torus c hc hk key c').mp h
  exact ((connectNd_spec hc.length_eq ho.length_eq).mp hcn).2

/-! ### Network -/

theorem mem_netAdj (directed : Bool) (edges : List (Nat × Nat)) (u v : Nat) :
    v ∈ netAdj directed edges u ↔ (u, v) ∈ edges ∨ (directed = false ∧ (v, u) ∈ edges) := by
  unfold netAdj
  rw [mem_dictUpdate]
  simp only [List.not_mem_nil, false_or, List.mem_flatMap, List.mem_append, Prod.exists]
  constructor
  · rintro ⟨a, b, hm, h | h⟩
    · split at h
      · rename_i hau; subst hau; simp at h; subst h; exact Or.inl hm
      · simp at h
    · split at h
      · rename_i hbu
        simp at hbu h
        obtain ⟨hd, rfl⟩ := hbu
        subst h
        exact Or.inr ⟨hd, hm⟩
      · simp at h
  · rintro (h | ⟨hd, h⟩)
    · exact ⟨u, v, h, Or.inl (by simp)⟩
    · exact ⟨v, u, h, Or.inr (by simp [hd])⟩

theorem netAdj_nodup (directed : Bool) (edges : List (Nat × Nat)) (u : Nat) : (netAdj directed edges u).Nodup :=
  nodup_dictUpdate List.nodup_nil

theorem mem_netConn (directed : Bool) (edges : List (Nat × Nat)) (u : Nat) (key c' : List Int) :
    (key, c') ∈ netConn directed edges [(u : Int)] ↔
      ∃ v : Nat, key = [(v : Int)] ∧ c' = [(v : Int)] ∧ v ∈ netAdj directed edges u := by
  simp only [netConn, Int.natCast_nonneg, if_true, Int.toNat_natCast, List.mem_map, Prod.mk.injEq]
  constructor
  · rintro ⟨v, hv, rfl, rfl⟩; exact ⟨v, rfl, rfl, hv⟩
  · rintro ⟨v, rfl, rfl, hv⟩; exact ⟨v, hv, rfl, rfl⟩

/-! ### Voronoi -/

/-- both `i` and `j` are (distinct positions of) vertices of the triangle -/
theorem mem_triPairs (t : Nat × Nat × Nat) (i j : Nat) :
    (i, j) ∈ triPairs t ↔ (j, i) ∈ triPairs t := by
  obtain ⟨a, b, c⟩ := t
  simp only [triPairs, List.mem_cons, Prod.mk.injEq, List.not_mem_nil, or_false]
  omega

theorem mem_vorAdj (tris : List (Nat × Nat × Nat)) (i j : Nat) :
    j ∈ vorAdj tris i ↔ ∃ t ∈ tris, (i, j) ∈ triPairs t := by
  unfold vorAdj
  rw [mem_dictUpdate]
  simp only [List.not_mem_nil, false_or, List.mem_map, List.mem_filter, List.mem_flatMap, decide_eq_true_eq,
    Prod.exists]
  constructor
  · rintro ⟨a, b, ⟨⟨t, ht, hm⟩, rfl⟩, rfl⟩
    exact ⟨t, ht, hm⟩
  · rintro ⟨t, ht, hm⟩
    exact ⟨i, j, ⟨⟨t, ht, hm⟩, rfl⟩, rfl⟩

theorem mem_vorConn (tris : List (Nat × Nat × Nat)) (i : Nat) (key c' : List Int) :
    (key, c') ∈ vorConn tris [(i : Int)] ↔
      ∃ j : Nat, key = [(i : Int), (j : Int)] ∧ c' = [(j : Int)] ∧ j ∈ vorAdj tris i := by
  simp only [vorConn, Int.natCast_nonneg, if_true, Int.toNat_natCast, List.mem_map, Prod.mk.injEq]
  constructor
  · rintro ⟨v, hv, rfl, rfl⟩; exact ⟨v, rfl, rfl, hv⟩
  · rintro ⟨v, rfl, rfl, hv⟩; exact ⟨v, hv, rfl, rfl⟩

end Mesa.Cells
