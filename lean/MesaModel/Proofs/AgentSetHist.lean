import MesaModel.Proofs.AgentSetAlg
/-! Histories of set-changing operations on the store of C03 (`SOp`, `applyOp`) and the
    duplicate-freeness invariant they preserve. -/
namespace Mesa.ASet

/-! ### histories of set-changing operations -/

inductive SOp where
  | mk (ids : List Nat)
  | select (s : Nat) (pred : Option Pred) (ty : Option Nat) (am : AtMost) (inplace : Bool)
  | shuffle (s : Nat) (inplace : Bool)
  | sort (s : Nat) (key : Key) (asc : Bool) (inplace : Bool)
  | group (s : Nat) (key : Key) (asSets : Bool)
  | setAttr (s : Nat) (k : Nat) (v : Int)
  | add (s : Nat) (a : Nat)
  | discard (s : Nat) (a : Nat)
  | remove (s : Nat) (a : Nat)
  | setop (op : SetOp) (s : Nat) (o : Other)
  | isetop (op : SetOp) (s : Nat) (o : Other)
  | pop (s : Nat)
  | clear (s : Nat)
  | kill (a : Nat)

/-- the state after an operation (a raising call leaves the store as it was) -/
def applyOp (st : Store) : SOp → Store
  | .mk ids => (mk st ids).1
  | .select s p t a i => (select st s p t a i).1
  | .shuffle s i => (shuffle st s i).1
  | .sort s key asc i => match sort st s key asc i with | .ok r => r.1 | .error _ => st
  | .group s key b => match group st s key b with | .ok r => r.1 | .error _ => st
  | .setAttr s k v => setAttr st s k v
  | .add s a => add st s a
  | .discard s a => discard st s a
  | .remove s a => match remove st s a with | .ok st' => st' | .error _ => st
  | .setop op s o => (setop st op s o).1
  | .isetop op s o => isetop st op s o
  | .pop s => match pop st s with | .ok r => r.1 | .error _ => st
  | .clear s => clear st s
  | .kill a => kill st a

theorem set_wf {st : Store} (h : st.WF) (s : Nat) (l : List Nat) (hl : l.Nodup) :
    Store.WF { st with sets := st.sets.set s l } := by
  intro x hx
  rcases List.mem_or_eq_of_mem_set hx with hx | rfl
  · exact h x hx
  · exact hl

theorem applyOp_wf {st : Store} (h : st.WF) (op : SOp) : (applyOp st op).WF := by
  cases op with
  | mk ids => exact Store.put_wf h _ _ _ (nodup_dedup _)
  | select s p t a i =>
    exact Store.put_wf h _ _ _ ((Store.get_nodup h s).sublist (selectIds_sublist st _ p t a))
  | shuffle s i =>
    simp only [applyOp, shuffle]
    have h' : Store.WF { st with rng := (Rng.shuffle (st.get s) st.rng).2 } := h
    exact Store.put_wf h' _ _ _ ((Rng.shuffle_nodup _ _).mpr (Store.get_nodup h s))
  | sort s key asc i =>
    cases hk : keysOf st key (st.get s) with
    | none => simp only [applyOp, sort, hk]; exact h
    | some ks =>
      simp only [applyOp, sort, hk]
      exact Store.put_wf h _ _ _ ((sortL_perm _ _ _).nodup_iff.mpr (Store.get_nodup h s))
  | group s key b =>
    cases hk : keysOf st key (st.get s) with
    | none => simp only [applyOp, group, hk]; exact h
    | some ks =>
      simp only [applyOp, group, hk]
      cases b
      · exact h
      · intro x hx
        simp only [if_true, List.mem_append, List.mem_map] at hx
        rcases hx with hx | ⟨g, hg, rfl⟩
        · exact h x hx
        · rw [groupBy_eq] at hg
          obtain ⟨k, _, rfl⟩ := List.mem_map.mp hg
          exact (Store.get_nodup h s).sublist List.filter_sublist
  | setAttr s k v => exact h
  | add s a => exact set_wf h _ _ (nodup_addKey (Store.get_nodup h s))
  | discard s a => exact set_wf h _ _ ((Store.get_nodup h s).erase a)
  | remove s a =>
    by_cases hm : a ∈ st.get s
    · simp only [applyOp, remove, hm, if_true]
      exact set_wf h _ _ ((Store.get_nodup h s).erase a)
    · simp only [applyOp, remove, hm, if_false]; exact h
  | setop op s o => exact Store.put_wf h _ _ _ (nodup_setop_eval _ _ op)
  | isetop op s o => exact set_wf h _ _ (nodup_isetopL (Store.get_nodup h s) _ _ op)
  | pop s =>
    simp only [applyOp, pop]
    cases hl : st.get s with
    | nil => simp only [popL]; exact h
    | cons a rest =>
      simp only [popL]
      have := Store.get_nodup h s
      rw [hl] at this
      exact set_wf h _ _ (List.nodup_cons.mp this).2
  | clear s => exact set_wf h _ _ (by rw [clearL_eq_nil]; exact List.nodup_nil)
  | kill a =>
    intro x hx
    simp only [applyOp, kill, List.mem_map] at hx
    obtain ⟨l, hl, rfl⟩ := hx
    exact (h l hl).erase a

end Mesa.ASet
