import MesaModel.Model.CellCollection
/-!
Line-protocol driver for the cell-space models (C06, C07, C18-cells).
One output line per input line; see harness/cells_common.py for the producer and the grammar.

  scenario grid <moore|vn|hex> <torus 0|1> <cap|-> <d1,d2,...>
  scenario net <0|1|m0|m1> <cap|-> <n> [a-b ...]      (Graph | DiGraph | MultiGraph | MultiDiGraph; any edge list over 0..n-1,
                                                       also self loops and repeated / antiparallel edges: same adjacency dicts)
  scenario vor <cap|-> <n> p:x,y ... t:a,b,c ...
  scenario vor d <n> p:x,y ... t:a,b,c ... a:num/den ... [c:k]   (default capacity_function; a: the exact cell areas, one per cell;
                                                       c:k: `capacity=k` passed as well — overwritten by the function on every cell)
  new cell|fixed|g2d | set a c|- | moveto a c | moverel a key | move a Dir k | remove a
  tryrandom 0|1 | randempty d... | randcell d...      -> result | observation dump
  agentscopy c      -> `l = cell.agents; l.clear()`: what the list held | observation dump (the list is a copy: nothing changes)
  clearcell c       -> `for a in cell.agents: a.remove()` | observation dump
  conns c | nbhd c r ic | nbprop c | mask c r ic | nbagents c r ic      -> result
  connect c c2 key|- | disconnect c c2                                  -> result (`Cell.connect` / `disconnect`)
  setcap c k|-      -> `space[c].capacity = k` (`-`: None) by hand | observation dump (the occupants stay; `full=` / `cap=` follow)
  coll <expr> cells|agents|len|same | has c | get c | randcell d... | randagent d...      -> result (`CellCollection` API)
      <expr> = <base>[+<filter>:<at_most>]...      base = all | empties | nb:<c>:<r>:<ic> | nbp:<c>
      filter = none|empty|occupied|full|notfull    at_most = inf | <int> | <num>/<den> (the float num/den)
      `all`, `empties` and their selections are compared in order; neighbourhood-based collections as sets
      (the property does not fix the order inside a neighbourhood): cells / agents sorted, random picks by position
-/
open Mesa.Cells

def words (s : String) : List String := (s.splitOn " ").filter (· ≠ "")

def parseCoord (s : String) : Option (List Int) := (s.splitOn ",").mapM String.toInt?

def parseNats (s : String) (sep : String) : Option (List Nat) := (s.splitOn sep).mapM String.toNat?

def parseBool : String → Option Bool
  | "0" => some false
  | "1" => some true
  | _ => none

/-- `-` is None -/
def parseOpt {α} (f : String → Option α) (s : String) : Option (Option α) :=
  if s = "-" then some none else (f s).map some

def fmtCoord (c : List Int) : String := ",".intercalate (c.map toString)

def fmtCoords (l : List (List Int)) : String := " ".intercalate (l.map fmtCoord)

def fmtErr : Err → String
  | .full => "err Full"
  | .noCell => "err NoCell"
  | .fixed => "err Fixed"
  | .value => "err Value"
  | .attr => "err Attr"
  | .key => "err Key"
  | .index => "err Index"
  | .script => "err Script"
  | .noAgent => "err NoAgent"
  | .type => "err Type"

def fmtRes : Res → String
  | .ok => "ok"
  | .okAgent a => s!"ok {a}"
  | .okCell c => s!"ok {fmtCoord c}"
  | .err e => fmtErr e

/-- lexicographic order on coordinates / keys, for canonical (sorted) output -/
def coordLt : List Int → List Int → Bool
  | [], [] => false
  | [], _ :: _ => true
  | _ :: _, [] => false
  | x :: xs, y :: ys => x < y || (x == y && coordLt xs ys)

def insertSorted {α} (lt : α → α → Bool) (x : α) : List α → List α
  | [] => [x]
  | y :: ys => if lt x y then x :: y :: ys else y :: insertSorted lt x ys

def sortBy {α} (lt : α → α → Bool) (l : List α) : List α := l.foldr (insertSorted lt) []

def sortCoords := sortBy coordLt

structure DSt where
  sp : Option Space
  st : State
  caches : Caches Coord

def noSpace : Space := { cells := [], conn := fun _ => [], cap := fun _ => none, isGrid := false }

def DSt.empty : DSt := { sp := none, st := init noSpace, caches := {} }

/-- the full observation of C06's `observe_at`, from the model state -/
def dump (sp : Space) (s : State) : String :=
  let ags := (List.range s.kinds.length).map fun a =>
    s!"{a}:{match s.cellOf a with | some c => fmtCoord c | none => "-"}"
  let occ := (sp.cells.filter fun c => !(s.occ c).isEmpty).map fun c =>
    s!"{fmtCoord c}:{".".intercalate ((s.occ c).map toString)}"
  let empty := sp.cells.filter (isEmpty s)
  let full := sp.cells.filter (isFull sp s)
  let layer := if sp.isGrid then fmtCoords (sp.cells.filter fun c => s.flag c == some true) else "na"
  -- `cell.empty` off grids: a plain attribute that exists only once `add_agent` has run on the cell (`c:1` / `c:0`)
  let attr := if sp.isGrid then "na" else
    " ".intercalate (sp.cells.filterMap fun c => (s.flag c).map fun b => s!"{fmtCoord c}:{if b then 1 else 0}")
  -- the capacity of every cell that has one (`c:k`), as `cell.capacity` shows it now
  let caps := " ".intercalate (sp.cells.filterMap fun c => (sp.cap c).map fun k => s!"{fmtCoord c}:{k}")
  s!"ag={" ".intercalate ags} | occ={" ".intercalate occ} | empty={fmtCoords empty} | full={fmtCoords full} | layer={layer} | pempty={layer} | empties={fmtCoords (empties sp s)} | agents={" ".intercalate ((spaceAgents sp s).map toString)} | reg={" ".intercalate (s.registry.map toString)} | attr={attr} | cap={caps}"

def parseKind : String → Option AKind
  | "cell" => some .cell
  | "fixed" => some .fixed
  | "g2d" => some .grid2d
  | _ => none

def parseOp : List String → Option Op
  | ["new", k] => do pure (.new (← parseKind k))
  | ["set", a, c] => do pure (.setCell (← a.toNat?) (← parseOpt parseCoord c))
  | ["moveto", a, c] => do pure (.moveTo (← a.toNat?) (← parseCoord c))
  | ["moverel", a, d] => do pure (.moveRel (← a.toNat?) (← parseCoord d))
  | ["move", a, dir, k] => do pure (.gridMove (← a.toNat?) dir (← k.toInt?))
  | ["remove", a] => do pure (.remove (← a.toNat?))
  | ["tryrandom", b] => do pure (.setTryRandom (← parseBool b))
  | "randempty" :: ds => do pure (.randEmpty (← ds.mapM String.toNat?))
  | "randcell" :: ds => do pure (.randCell (← ds.mapM String.toNat?))
  | _ => none

def parseEdge (s : String) : Option (Nat × Nat) :=
  match s.splitOn "-" with
  | [a, b] => do pure (← a.toNat?, ← b.toNat?)
  | _ => none

/-- `Grid._validate_parameters` (+ `HexGrid`): positive ints, hex only in 2-D -/
def mkGrid (k : GridKind) (torus : Bool) (cap : Option Nat) (dims : List Int) : Option Space :=
  if dims.all (· > 0) && (k != .hex || dims.length == 2) then
    let nd := dims.map Int.toNat
    some (gridSpace k nd torus cap)
  else none

def parseTri (s : String) : Option (Nat × Nat × Nat) :=
  match s.splitOn "," with
  | [a, b, c] => do pure (← a.toNat?, ← b.toNat?, ← c.toNat?)
  | _ => none

/-- scenario header → space (`some none`: the constructor raises ValueError) -/
def parseScenario : List String → Option (Option Space)
  | ["grid", k, t, cap, dims] => do
    let k ← (match k with | "moore" => some GridKind.moore | "vn" => some .vn | "hex" => some .hex | _ => none)
    let t ← parseBool t
    let cap ← parseOpt String.toNat? cap
    let dims ← parseCoord dims
    if dims.isEmpty then none else pure (mkGrid k t cap dims)
  | "net" :: d :: cap :: n :: edges => do
    -- `m0` / `m1`: MultiGraph / MultiDiGraph — `G.neighbors` is the same adjacency dict, parallel edges add nothing to it
    let d ← (match d with | "m0" => some false | "m1" => some true | _ => parseBool d)
    let cap ← parseOpt String.toNat? cap
    let n ← n.toNat?
    let es ← edges.mapM parseEdge
    if es.all (fun (a, b) => a < n && b < n) then
      pure (some (netSpace d n es cap))
    else none
  | "vor" :: "d" :: n :: rest => do
    -- the default `capacity_function`: capacities come from the cell areas
    let n ← n.toNat?
    let pts := rest.filter (·.startsWith "p:")
    let ts := rest.filter (·.startsWith "t:")
    let ss := rest.filter (·.startsWith "s:")
    let ars := rest.filter (·.startsWith "a:")
    -- optional `c:k`: a `capacity` argument passed next to the default `capacity_function`, which overwrites it on every cell
    let cs := rest.filter (·.startsWith "c:")
    if cs.length > 1 || !(cs.all fun t => ((t.drop 2).toString.toNat?).isSome) then none else
    if ss.length > 1 || !(ss.all fun t => ((t.drop 2).toString.toNat?).isSome) then none else
    if pts.length != n || ars.length != n || pts.length + ts.length + ss.length + ars.length + cs.length != rest.length then none else
    let _ ← pts.mapM (fun p => parseCoord (p.drop 2).toString)
    let tris ← ts.mapM (fun t => parseTri (t.drop 2).toString)
    let areas ← ars.mapM (fun a => match (a.drop 2).toString.splitOn "/" with
      | [x, y] => do
        let x ← x.toNat?
        let y ← y.toNat?
        if y = 0 then none else pure (x, y)
      | _ => none)
    if tris.all (fun (a, b, c) => a < n && b < n && c < n) then
      pure (some (vorSpaceAreas n tris areas))
    else none
  | "vor" :: cap :: n :: rest => do
    let cap ← parseOpt String.toNat? cap
    let n ← n.toNat?
    let pts := rest.filter (·.startsWith "p:")
    let ts := rest.filter (·.startsWith "t:")
    -- optional `s:k`: the centroids are the integer points divided by k; connections do not depend on it
    let ss := rest.filter (·.startsWith "s:")
    if ss.length > 1 || !(ss.all fun t => ((t.drop 2).toString.toNat?).isSome) then none else
    if pts.length != n || pts.length + ts.length + ss.length != rest.length then none else
    let _ ← pts.mapM (fun p => parseCoord (p.drop 2).toString)
    let tris ← ts.mapM (fun t => parseTri (t.drop 2).toString)
    if tris.all (fun (a, b, c) => a < n && b < n && c < n) then
      pure (some (vorSpace n tris cap))
    else none
  | _ => none

def nbOf (sp : Space) (c : Coord) : List Coord := (sp.conn c).map (·.2)

/-! ### collection expressions -/

def parseFilt : String → Option (Option Filt)
  | "none" => some none
  | "empty" => some (some .empty)
  | "occupied" => some (some .occupied)
  | "full" => some (some .full)
  | "notfull" => some (some .notFull)
  | _ => none

def parseAtMost (s : String) : Option AtMost :=
  if s = "inf" then some .inf
  else match s.splitOn "/" with
    | [n] => (n.toInt?).map .int
    | [a, b] => do
      let a ← a.toNat?
      let b ← b.toNat?
      if b = 0 then none else pure (.frac a b)
    | _ => none

inductive Base where
  | all
  | empties
  | nb (c : Coord) (r : Int) (ic : Bool)
  | nbp (c : Coord)

def parseBase (s : String) : Option Base :=
  match s.splitOn ":" with
  | ["all"] => some .all
  | ["empties"] => some .empties
  | ["nb", c, r, ic] => do pure (.nb (← parseCoord c) (← r.toInt?) (← parseBool ic))
  | ["nbp", c] => do pure (.nbp (← parseCoord c))
  | _ => none

def parseSel (s : String) : Option (Option Filt × AtMost) :=
  match s.splitOn ":" with
  | [f, m] => do pure (← parseFilt f, ← parseAtMost m)
  | _ => none

def parseExpr (s : String) : Option (Base × List (Option Filt × AtMost)) :=
  match s.splitOn "+" with
  | [] => none
  | b :: sels => do pure (← parseBase b, ← sels.mapM parseSel)

/-- evaluate a collection expression: the cells, whether their order is fixed by the API (not a neighbourhood),
    whether the last selection returned the collection itself, and the memo tables afterwards -/
def evalExpr (sp : Space) (s : State) (cs : Caches Coord) (e : Base × List (Option Filt × AtMost)) :
    Except Err (Coll × Bool × Bool × Caches Coord) :=
  let base : Except Err (Coll × Bool × Caches Coord) :=
    match e.1 with
    | .all => .ok (sp.cells, true, cs)
    | .empties => .ok (empties sp s, true, cs)
    | .nb c r ic =>
      if c ∈ sp.cells then
        if r < 1 then .error .value
        else let (v, cs') := getNbhd (nbOf sp) r.toNat ic c cs; .ok (v, false, cs')
      else .error .key
    | .nbp c =>
      if c ∈ sp.cells then let (v, cs') := nbProp (nbOf sp) c cs; .ok (v, false, cs')
      else .error .key
  match base with
  | .error err => .error err
  | .ok (cells, ordered, cs') =>
    let r := e.2.foldl (fun (acc : Coll × Bool) (fm : Option Filt × AtMost) =>
      (select (fm.1.map fun f => f.eval sp s) fm.2 acc.1, selectIsSelf (fm.1.map fun f => f.eval sp s) fm.2)) (cells, false)
    .ok (r.1, ordered, r.2, cs')

def sortNats (l : List Nat) : List Nat := sortBy (fun (a b : Nat) => decide (a < b)) l
def fmtNats (l : List Nat) : String := " ".intercalate (l.map toString)

def stepLine (d : DSt) (ws : List String) : DSt × String :=
  match ws with
  | "scenario" :: rest =>
    match parseScenario rest with
    | none => (DSt.empty, "bad-op")
    | some none => (DSt.empty, "err Value")
    | some (some sp) => ({ sp := some sp, st := init sp, caches := {} }, "ok")
  | _ =>
  match d.sp with
  | none => (d, if ws.isEmpty then "bad-op" else "err NoSpace")
  | some sp =>
    match ws with
    | "coll" :: expr :: verb =>
      match parseExpr expr with
      | none => (d, "bad-op")
      | some e =>
        -- the verb is parsed before the collection is built, so a malformed line never touches the memo tables
        let act : Option (Coll → Bool → Bool → Option String) :=
          match verb with
          | ["cells"] => some fun cells ord _ => some ("ok " ++ fmtCoords (if ord then cells else sortCoords cells))
          | ["agents"] => some fun cells ord _ =>
              some ("ok " ++ fmtNats (if ord then collAgents d.st cells else sortNats (collAgents d.st cells)))
          | ["len"] => some fun cells _ _ => some s!"ok {cells.length}"
          | ["same"] => if e.2.isEmpty then none else some fun _ _ same => some (if same then "ok 1" else "ok 0")
          | ["has", c] => (parseCoord c).map fun c => fun cells _ _ =>
              some (if c ∈ sp.cells then (if collHas cells c then "ok 1" else "ok 0") else "err Key")
          | ["get", c] => (parseCoord c).map fun c => fun cells _ _ =>
              some (if c ∈ sp.cells then
                match collGet d.st cells c with
                | some l => "ok " ++ ".".intercalate (l.map toString)
                | none => "err Key"
              else "err Key")
          | "randcell" :: ds => (ds.mapM String.toNat?).map fun ds => fun cells ord _ =>
              some (match selectRandomCell cells ds with
                | .err er => fmtErr er
                | .ok x pos used => (if ord then s!"ok {fmtCoord x}" else "ok") ++ s!" pos={pos}/{cells.length} used={used}")
          | "randagent" :: ds => (ds.mapM String.toNat?).map fun ds => fun cells ord _ =>
              some (match selectRandomAgent d.st cells ds with
                | .err er => fmtErr er
                | .ok x pos used => (if ord then s!"ok {x}" else "ok") ++ s!" pos={pos}/{(collAgents d.st cells).length} used={used}")
          | _ => none
        match act with
        | none => (d, "bad-op")
        | some f =>
          match evalExpr sp d.st d.caches e with
          | .error er => (d, fmtErr er)
          | .ok (cells, ord, same, cs') =>
            match f cells ord same with
            | some out => ({ d with caches := cs' }, out)
            | none => (d, "bad-op")
    | ["connect", c, c2, key] =>
      match parseCoord c, parseCoord c2, parseOpt parseCoord key with
      | some c, some c2, some key =>
        let (sp', r) := editSp sp (.connect c c2 key)
        -- the memo tables are dropped when the edit was made (`_forget_neighborhoods`)
        ({ d with sp := some sp', caches := if r = .ok then d.caches.forget c else d.caches }, fmtRes r)
      | _, _, _ => (d, "bad-op")
    | ["disconnect", c, c2] =>
      match parseCoord c, parseCoord c2 with
      | some c, some c2 =>
        let (sp', r) := editSp sp (.disconnect c c2)
        ({ d with sp := some sp', caches := if r = .ok then d.caches.forget c else d.caches }, fmtRes r)
      | _, _ => (d, "bad-op")
    | ["setcap", c, k] =>
      match parseCoord c, parseOpt String.toNat? k with
      | some c, some k =>
        let (sp', r) := editSp sp (.setCap c k)
        ({ d with sp := some sp' }, fmtRes r ++ " | " ++ dump sp' d.st)
      | _, _ => (d, "bad-op")
    | ["conns", c] =>
      match parseCoord c with
      | none => (d, "bad-op")
      | some c =>
        if c ∈ sp.cells then
          let l := sortBy (fun a b => coordLt a.1 b.1) (sp.conn c)
          (d, "ok " ++ " ".intercalate (l.map fun (k, v) => s!"{fmtCoord k}>{fmtCoord v}"))
        else (d, "err Key")
    | "nbhd" :: c :: r :: ic :: style =>
      -- `style` (p|k|m: positional / keyword / mixed call) only varies the memo key on the Python side
      match parseCoord c, r.toInt?, parseBool ic, (if style ∈ [[], ["p"], ["k"], ["m"]] then some () else none) with
      | some c, some r, some ic, some _ =>
        if c ∈ sp.cells then
          if r < 1 then (d, "err Value")
          else
            let (v, cs) := getNbhd (nbOf sp) r.toNat ic c d.caches
            ({ d with caches := cs }, "ok " ++ fmtCoords (sortCoords v))
        else (d, "err Key")
      | _, _, _, _ => (d, "bad-op")
    | ["nbagents", c, r, ic] =>
      match parseCoord c, r.toInt?, parseBool ic with
      | some c, some r, some ic =>
        if c ∈ sp.cells then
          if r < 1 then (d, "err Value")
          else
            let (v, cs) := getNbhd (nbOf sp) r.toNat ic c d.caches
            ({ d with caches := cs },
             "ok " ++ " ".intercalate ((sortBy (fun (a b : Nat) => decide (a < b)) (nbhdAgents d.st v)).map toString))
        else (d, "err Key")
      | _, _, _ => (d, "bad-op")
    | ["nbprop", c] =>
      match parseCoord c with
      | none => (d, "bad-op")
      | some c =>
        if c ∈ sp.cells then
          let (v, cs) := nbProp (nbOf sp) c d.caches
          ({ d with caches := cs }, "ok " ++ fmtCoords (sortCoords v))
        else (d, "err Key")
    | ["mask", c, r, ic] =>
      -- `get_neighborhood_mask`: the coordinates where the mask is True
      match parseCoord c, r.toInt?, parseBool ic with
      | some c, some r, some ic =>
        if !sp.isGrid then (d, "err Attr")
        else if c ∈ sp.cells then
          if r < 1 then (d, "err Value")
          else
            let (v, cs) := getNbhd (nbOf sp) r.toNat ic c d.caches
            ({ d with caches := cs }, "ok " ++ fmtCoords (sortCoords v))
        else (d, "err Key")
      | _, _, _ => (d, "bad-op")
    | ["agentscopy", c] =>
      -- `cell.agents` hands out a copy of the cell's list: scribbling on it (`clear()`) leaves the state alone
      match parseCoord c with
      | none => (d, "bad-op")
      | some c =>
        if c ∈ sp.cells then (d, "ok " ++ ".".intercalate ((d.st.occ c).map toString) ++ " | " ++ dump sp d.st)
        else (d, "err Key | " ++ dump sp d.st)
    | ["clearcell", c] =>
      match parseCoord c with
      | none => (d, "bad-op")
      | some c =>
        if c ∈ sp.cells then
          let (s', r) := clearCell sp d.st c
          ({ d with st := s' }, fmtRes r ++ " | " ++ dump sp s')
        else (d, "err Key | " ++ dump sp d.st)
    | _ =>
      match parseOp ws with
      | none => (d, "bad-op")
      | some op =>
        let (s', r) := step sp d.st op
        ({ d with st := s' }, fmtRes r ++ " | " ++ dump sp s')
