/-! stub: replaced by the Agents group driver -/
def main : IO Unit := pure ()
