import MesaModel.Model.Activation
import MesaModel.Model.AgentSet
/-!
Line-protocol driver of the `agents` group (C02, C03, C04).  One output line per input line.
Producers: harness/agents_common.py (world scenarios), harness/c03.py (aset scenarios).

World scenarios (registry + weak sets + activations; C02, C04)
  scenario world
  model <script>                         new Model whose `random` follows the draw script (`-` = empty)
  create m ty h x                        Agent subclass `ty` in model m; h=1: the program keeps a reference
  createn m ty h n <arg> [<arg>]         Agent.create_agents(m, n, x[, y]); <arg> = s:<v> a single object | l:<v1,..,vk>
                                         a sequence of any length (split over the agents iff k = n)
  setagents m                            model.agents = […]  (rejected: err Attr)
  remove a | removeall m | unhold a
  dropmodel m                            the program drops model m and every reference to its agents, then `gc.collect()`:
                                         the model and its agents are garbage (`M<m> gone` in the dumps; = `dropModel`).
                                         `bad-op` if a program-made set carries m's generator; from then on every line
                                         that names model m is `bad-op`, and callbacks no longer create agents in m
  register a | deregister a              model.register_agent(a) / model.deregister_agent(a) called directly by the program
                                         (deregister of an agent that is not registered: err Key)
  shuffle <tgt> | sort <tgt> asc|desc    in place
  mkset m a b c …                        AgentSet([...], random=model_m.random)
  copyset <tgt> sel|copy                 <tgt>.select() without criteria | copy.copy(<tgt>): a new program-made set
  sadd k a | sdiscard k a                program_set_k.add(a) / .discard(a) outside any activation
  items <tgt>                            the set read by position: every index and the full slice
  script a <act> ; <act> …               act: rmself | rm b | create m ty n h | unhold b | add k b | discard k b | raise
                                         (add / discard edit program-made set k; `raise`: the callback raises there,
                                         what follows it never runs)
  do|shuffledo|map <tgt> <arg> str|fn
  gdo|gmap <tgt> ty|mod2|mod3 <arg> str|fn
  <tgt> = all:m | type:m:ty | set:k
Every answer is `ok <result> || <dump of all registries, sets and live agents>`; an activation that a callback's
exception left answers `ok log=… raised || …` (no `res=`).

AgentSet scenarios (C03): see `asetLine`.  Besides the methods `AgentSet` defines itself, the inherited mixin methods:
  setop or|and|sub|xor|rsub s <other>    a | b, a & b, a - b, a ^ b, [..] - a   (new set)
  isetop or|and|sub|xor s <other>        a |= b, …                              (in place)
  cmp le|lt|ge|gt|eq|ne s t | disjoint s <other> | pop s | clear s | index s a [start [stop]] | count s a | reversed s
  <other> = s:<k> | l:<ids> | x          (x: not iterable → TypeError; glue answered by the driver)
  kill a                                 agent.remove() and the program drops its reference: the agent dies
-/
open Mesa Mesa.Agents

def words (s : String) : List String := (s.splitOn " ").filter (· ≠ "")

def joinNat (sep : String) (l : List Nat) : String := sep.intercalate (l.map toString)
def joinInt (sep : String) (l : List Int) : String := sep.intercalate (l.map toString)

def parseNats (s : String) : Option (List Nat) :=
  if s = "-" then some [] else (s.splitOn ",").mapM (·.toNat?)

def parseInts (s : String) : Option (List Int) :=
  if s = "-" then some [] else (s.splitOn ",").mapM (·.toInt?)

def parseBool (s : String) : Option Bool :=
  if s = "1" then some true else if s = "0" then some false else none

/-! ## world -/

def parseTarget (s : String) : Option Target :=
  match s.splitOn ":" with
  | ["all", m] => do pure (.all (← m.toNat?))
  | ["type", m, ty] => do pure (.byType (← m.toNat?) (← ty.toNat?))
  | ["set", k] => do pure (.set (← k.toNat?))
  | _ => none

def parseAction : List String → Option Action
  | ["rmself"] => some .rmSelf
  | ["rm", b] => do pure (.rm (← b.toNat?))
  | ["create", m, ty, n, h] => do pure (.create (← m.toNat?) (← ty.toNat?) (← n.toNat?) (← parseBool h))
  | ["unhold", b] => do pure (.unhold (← b.toNat?))
  | ["add", k, b] => do pure (.addTo (← k.toNat?) (← b.toNat?))
  | ["discard", k, b] => do pure (.discardFrom (← k.toNat?) (← b.toNat?))
  | _ => none

/-- the actions in front of the first `raise`, and whether there is one -/
def parseScript (rest : List String) : Option (List Action × Bool) :=
  let parts := ((String.intercalate " " rest).splitOn ";").map words |>.filter (· ≠ [])
  let before := parts.takeWhile (· ≠ ["raise"])
  -- what follows a `raise` is dead code, but must still be well formed
  match before.mapM parseAction, ((parts.drop before.length).filter (· ≠ ["raise"])).mapM parseAction with
  | some acts, some _ => some (acts, before.length < parts.length)
  | _, _ => none

def dumpReg (w : World) (m : Nat) (r : Reg) : String :=
  let a := ",".intercalate ((members w (.all m)).map fun a => s!"{a}:{uidOf w a}")
  let t := ",".intercalate (r.byType.map fun (ty, _) => s!"{ty}:{joinNat "." (members w (.byType m ty))}")
  let k := joinNat "," (r.byType.map (·.1))
  s!"M{m} A={a} T={t} K={k}"

def dumpWorld (w : World) (dropped : List Nat := []) : String :=
  let ms := (w.regs.zipIdx.map fun (r, m) => if dropped.contains m then s!"M{m} gone" else dumpReg w m r)
  let ss := (List.range w.sets.length).map fun k => s!"S{k}={joinNat "," (members w (.set k))}"
  let live := (List.range w.info.length).filter (alive w)
  " | ".intercalate (ms ++ ss ++ [s!"live={joinNat "," live}"])

def fmtVal : Val → String
  | .int v => toString v
  | .seq l => "[" ++ ".".intercalate (l.map toString) ++ "]"

/-- `a:uid:payload` of the `n` agents created from serial `a0` on -/
def fmtNew (w : World) (a0 n : Nat) : String :=
  ",".intercalate ((List.range' a0 n).map fun a =>
    s!"{a}:{uidOf w a}:{"/".intercalate (((w.info[a]?.map (·.x)).getD []).map fmtVal)}")

/-- an argument of `create_agents`: `s:<v>` a single object, `l:<v1,…>` a list / tuple / ndarray of any length -/
def parseArg (s : String) : Option Arg :=
  match s.splitOn ":" with
  | ["s", v] => v.toInt?.map .scalar
  | ["l", vs] => (parseInts vs).map .seq
  | _ => none

def fmtLog (l : List (Aid × Nat)) : String := ",".intercalate (l.map fun (a, x) => s!"{a}@{x}")

structure WSt where
  w : World
  scripts : List (Aid × List Action × Bool)
  dropped : List Nat := []     -- models the program has dropped (`dropmodel`)

def WSt.script (st : WSt) (a : Aid) : List Action := ((st.scripts.lookup a).map (·.1)).getD []
def WSt.raises (st : WSt) (a : Aid) : Bool := ((st.scripts.lookup a).map (·.2)).getD false

def retFn (a : Aid) (arg : Nat) : Nat := a * 100 + arg

def keyFn (w : World) (k : String) : Option (Aid → Nat) :=
  if k = "ty" then some (GroupKey.ty.eval w) else if k = "mod2" then some ((GroupKey.uidMod 2).eval w)
  else if k = "mod3" then some ((GroupKey.uidMod 3).eval w) else none

def okW (w : World) (res : String) (dropped : List Nat := []) : String :=
  if res = "" then s!"ok || {dumpWorld w dropped}" else s!"ok {res} || {dumpWorld w dropped}"

/-- the model a line names, if any: first argument of the model-indexed commands, the model of an `all:` / `type:` target -/
def lineModels (ws : List String) : List Nat :=
  let tgt := fun (t : String) => match t.splitOn ":" with
    | ["all", m] => m.toNat?.toList | ["type", m, _] => m.toNat?.toList | _ => []
  match ws with
  | "script" :: _ :: rest =>
    (((String.intercalate " " rest).splitOn ";").map words).flatMap fun
      | ["create", m, _, _, _] => m.toNat?.toList
      | _ => []
  | op :: x :: _ =>
    if ["create", "createn", "setagents", "removeall", "mkset", "dropmodel"].contains op then x.toNat?.toList
    else if ["shuffle", "sort", "copyset", "items", "do", "shuffledo", "map", "gdo", "gmap"].contains op then tgt x
    else []
  | _ => []


/-- check that a target denotes something; `err Key` for a missing class, `bad-op` otherwise -/
def checkTarget (w : World) (t : Target) : Option String :=
  if t.exists? w then none else
    match t with
    | .byType m _ => if m < w.regs.length then some "err Key" else some "bad-op"
    | _ => some "bad-op"

def worldLine (st : WSt) (ws : List String) : WSt × String :=
  let w := st.w
  let bad := (st, "bad-op")
  let okW := fun (w : World) (res : String) => okW w res st.dropped
  -- a dropped model cannot be named any more
  if (lineModels ws).any st.dropped.contains then bad else
  match ws with
  | ["dropmodel", m] =>
    match m.toNat? with
    | some m =>
      if m < w.regs.length && !(w.sets.any fun (m', _) => m' == m) then
        let w' := dropModel w m
        let notInM : Action → Bool := fun | .create m' _ _ _ => m' != m | _ => true
        let st' := { st with w := w', dropped := m :: st.dropped,
                             scripts := st.scripts.map fun (a, acts, r) => (a, acts.filter notInM, r) }
        (st', _root_.okW w' "" st'.dropped)
      else bad
    | none => bad
  | ["model", s] =>
    match parseNats s with
    | some sc => let w' := newModel w ⟨sc⟩; ({ st with w := w' }, okW w' s!"m={w.regs.length}")
    | none => bad
  | ["create", m, ty, h, x] =>
    match m.toNat?, ty.toNat?, parseBool h, x.toInt? with
    | some m, some ty, some h, some x =>
      if m < w.regs.length then
        let w' := createAgent w m ty h [.int x]
        ({ st with w := w' }, okW w' s!"new={fmtNew w' w.info.length 1}")
      else bad
    | _, _, _, _ => bad
  | "createn" :: m :: ty :: h :: n :: args =>
    match m.toNat?, ty.toNat?, parseBool h, n.toNat?, args.mapM parseArg with
    | some m, some ty, some h, some n, some args =>
      if m < w.regs.length && (args.length = 1 || args.length = 2) then
        let w' := createAgents w m ty h n args
        ({ st with w := w' }, okW w' s!"new={fmtNew w' w.info.length n}")
      else bad
    | _, _, _, _, _ => bad
  | ["setagents", m] =>
    -- `model.agents = […]`: the property's setter raises AttributeError; nothing to change
    match m.toNat? with
    | some m => if m < w.regs.length then (st, "err Attr") else bad
    | none => bad
  | ["remove", a] =>
    match a.toNat? with
    | some a => let w' := removeAgent w a; ({ st with w := w' }, okW w' "")   -- unknown agent: nothing to call
    | none => bad
  | ["register", a] =>
    match a.toNat? with
    | some a =>
      let w' := if alive w a then registerAgain w a else w   -- a dead agent cannot be handed to the call
      ({ st with w := w' }, okW w' "")
    | none => bad
  | ["deregister", a] =>
    match a.toNat? with
    | some a =>
      if alive w a then
        match deregisterDirect w a with
        | some w' => ({ st with w := w' }, okW w' "")
        | none => (st, "err Key")
      else (st, okW w "")
    | none => bad
  | ["removeall", m] =>
    match m.toNat? with
    | some m => if m < w.regs.length then let w' := removeAll w m; ({ st with w := w' }, okW w' "") else bad
    | none => bad
  | ["unhold", a] =>
    match a.toNat? with
    | some a => let w' := unhold w a; ({ st with w := w' }, okW w' "")
    | none => bad
  | ["shuffle", t] =>
    match parseTarget t with
    | some t =>
      match checkTarget w t with
      | some e => (st, e)
      | none => let w' := shuffleInPlace w t; ({ st with w := w' }, okW w' "")
    | none => bad
  | ["sort", t, dir] =>
    match parseTarget t, (if dir = "asc" then some true else if dir = "desc" then some false else none) with
    | some t, some asc =>
      match checkTarget w t with
      | some e => (st, e)
      | none => let w' := sortInPlace w t asc; ({ st with w := w' }, okW w' "")
    | _, _ => bad
  | "mkset" :: m :: rest =>
    match m.toNat?, rest.mapM (·.toNat?) with
    | some m, some l =>
      if m < w.regs.length then let w' := mkSet w m l; ({ st with w := w' }, okW w' s!"set={w.sets.length}") else bad
    | _, _ => bad
  | ["copyset", t, how] =>
    -- `set.select()` (no criteria) / `copy.copy(set)`: a new program-made set over the members, same generator
    match parseTarget t with
    | some t =>
      match checkTarget w t with
      | some e => (st, e)
      | none =>
        if how ≠ "sel" && how ≠ "copy" then bad else
        let w' := copySet w t; ({ st with w := w' }, okW w' s!"set={w.sets.length}")
    | none => bad
  | ["sadd", k, a] =>
    match k.toNat?, a.toNat? with
    | some k, some a => if k < w.sets.length then let w' := setAdd w k a; ({ st with w := w' }, okW w' "") else bad
    | _, _ => bad
  | ["sdiscard", k, a] =>
    match k.toNat?, a.toNat? with
    | some k, some a => if k < w.sets.length then let w' := setDiscard w k a; ({ st with w := w' }, okW w' "") else bad
    | _, _ => bad
  | ["items", t] =>
    -- `[s[i] for i in range(len(s))]` and `s[:]`: reading by position shows the members
    match parseTarget t with
    | some t =>
      match checkTarget w t with
      | some e => (st, e)
      | none => (st, okW w s!"idx={joinNat "," (itemsOf w t)} slice={joinNat "," (itemsOf w t)}")
    | none => bad
  | "script" :: a :: rest =>
    match a.toNat?, parseScript rest with
    | some a, some acts => ({ st with scripts := (a, acts) :: st.scripts }, "ok")
    | _, _ => bad
  | [op, t, arg, how] =>
    if how ≠ "str" && how ≠ "fn" then bad else
    match parseTarget t, arg.toNat? with
    | some t, some arg =>
      match checkTarget w t with
      | some e => (st, e)
      | none =>
        let n0 := w.log.length
        let fin := fun (w' : World) (raised : Bool) =>
          ({ st with w := w' }, okW w' (s!"log={fmtLog (w'.log.drop n0)}" ++ (if raised then " raised" else "")))
        if op = "do" then
          let (w', r) := doSetX st.script st.raises arg w t
          fin w' r
        else if op = "shuffledo" then
          let (w', r) := shuffleDoX st.script st.raises arg w t
          fin w' r
        else if op = "map" then
          match mapSetX st.script st.raises arg retFn w t with
          | (w', none) => fin w' true
          | (w', some rs) => ({ st with w := w' }, okW w' s!"log={fmtLog (w'.log.drop n0)} res={joinNat "," rs}")
        else bad
    | _, _ => bad
  | [op, t, key, arg, how] =>
    if how ≠ "str" && how ≠ "fn" then bad else
    match parseTarget t, keyFn w key, arg.toNat? with
    | some t, some key, some arg =>
      match checkTarget w t with
      | some e => (st, e)
      | none =>
        let n0 := w.log.length
        if op = "gdo" then
          let (w', r) := groupDoX st.script st.raises arg key w t
          ({ st with w := w' }, okW w' (s!"log={fmtLog (w'.log.drop n0)}" ++ (if r then " raised" else "")))
        else if op = "gmap" then
          match groupMapX st.script st.raises arg retFn key w t with
          | (w', none) => ({ st with w := w' }, okW w' s!"log={fmtLog (w'.log.drop n0)} raised")
          | (w', some rs) =>
            let r := ";".intercalate (rs.map fun (k, l) => s!"{k}:{joinNat "." l}")
            ({ st with w := w' }, okW w' s!"log={fmtLog (w'.log.drop n0)} res={r}")
        else bad
    | _, _, _ => bad
  | _ => bad

/-! ## aset -/
open Mesa.ASet in
def parsePred (s : String) : Option (Option Pred) :=
  match s.splitOn ":" with
  | ["-"] => some none
  | ["lt", k, v] => do pure (some (.lt (← k.toNat?) (← v.toInt?)))
  | ["ge", k, v] => do pure (some (.ge (← k.toNat?) (← v.toInt?)))
  | ["eq", k, v] => do pure (some (.eq (← k.toNat?) (← v.toInt?)))
  | ["has", k] => do pure (some (.has (← k.toNat?)))
  | ["odd"] => some (some .oddUid)
  | _ => none

open Mesa.ASet in
def parseKey (s : String) : Option Key :=
  match s.splitOn ":" with
  | ["attr", k] => do pure (.attr (← k.toNat?))
  | ["mod", k, m] => do
    let m ← m.toNat?
    if m = 0 then none else pure (.modAttr (← k.toNat?) m)
  | ["neg", k] => do pure (.negAttr (← k.toNat?))
  | ["ty"] => some .ty
  | ["uid"] => some .uid
  | _ => none

/-- `int(n * (p / q))` on IEEE doubles, exactly as `AgentSet.select` computes it for a float
    `at_most = p / q` (trusted glue: Lean `Float` = C `double`) -/
def fracCount (n p q : Nat) : Nat :=
  (Float.floor (Float.ofNat n * (Float.ofNat p / Float.ofNat q))).toUInt64.toNat

open Mesa.ASet in
def parseAtMost (n : Nat) (s : String) : Option AtMost :=
  match s.splitOn ":" with
  | ["inf"] => some .inf
  | ["n", k] => do pure (.count (← k.toNat?))
  | ["f", p, q] => do
    let p ← p.toNat?
    let q ← q.toNat?
    if q = 0 || p > q then none else pure (.count (fracCount n p q))
  | _ => none

open Mesa.ASet in
def fmtErr : Err → String
  | .attr => "err Attr" | .key => "err Key" | .index => "err Index" | .value => "err Value" | .type => "err Type"

def fmtOptInt : Option Int → String
  | some v => toString v | none => "None"

open Mesa.ASet in
/-- right-hand operand of a set operation: `s:<k>` another set, `l:<ids>` a plain iterable of agents,
    `x` something that is not iterable (`some none`) -/
def parseOther (nsets npop : Nat) (s : String) (dead : List Nat := []) : Option (Option Other) :=
  match s.splitOn ":" with
  | ["x"] => some none
  | ["s", k] => do
    let k ← k.toNat?
    if k < nsets then pure (some (.set k)) else none
  | ["l", ids] => do
    let ids ← parseNats ids
    if ids.all (fun i => i < npop && !dead.contains i) then pure (some (.list ids)) else none
  | _ => none

open Mesa.ASet in
def dumpStore (st : Store) : String :=
  let ss := "|".intercalate (st.sets.zipIdx.map fun (l, k) => s!"S{k}={joinNat "," l}")
  let ags := " ".intercalate (st.pop.map fun a =>
    if st.dead.contains a.id then s!"{a.id}:dead"
    else s!"{a.id}:{fmtOptInt (a.attr 0)}/{fmtOptInt (a.attr 1)}/{fmtOptInt (a.attr 2)}")
  s!"{ss} || {ags}"

open Mesa.ASet in
def okS (st : Store) (res : String) : String := s!"ok {res} || {dumpStore st}"

open Mesa.ASet in
def asetLine (st : Store) (ws : List String) : Store × String :=
  let bad := (st, "bad-op")
  let nsets := st.sets.length
  let npop := st.pop.length
  match ws with
  | ["rng", s] =>
    match parseNats s with
    | some sc => ({ st with rng := ⟨sc⟩ }, "ok")
    | none => bad
  | ["agent", ty, x, y] =>
    match ty.toNat?, x.toInt?, (if y = "-" then some none else y.toInt?.map some) with
    | some ty, some x, some y =>
      let attrs := (0, x) :: (match y with | some y => [(1, y)] | none => [])
      let st' := { st with pop := st.pop ++ [{ id := npop, ty := ty, attrs := attrs }] }
      (st', okS st' s!"id={npop}")
    | _, _, _ => bad
  | "mk" :: ids =>
    match ids.mapM (·.toNat?) with
    | some ids =>
      if ids.all (fun i => i < npop && !st.dead.contains i) then let (st', k) := mk st ids; (st', okS st' s!"set={k}") else bad
    | none => bad
  | ["select", s, pred, ty, am, inpl] =>
    match s.toNat?, parsePred pred, (if ty = "-" then some none else ty.toNat?.map some), parseBool inpl with
    | some s, some pred, some ty, some inpl =>
      if s < nsets then
        match parseAtMost (len st s) am with
        | some am => let (st', k) := select st s pred ty am inpl; (st', okS st' s!"set={k}")
        | none => bad
      else bad
    | _, _, _, _ => bad
  | ["sort", s, key, dir, inpl] =>
    match s.toNat?, parseKey key, (if dir = "asc" then some true else if dir = "desc" then some false else none), parseBool inpl with
    | some s, some key, some asc, some inpl =>
      if s < nsets then
        match sort st s key asc inpl with
        | .ok (st', k) => (st', okS st' s!"set={k}")
        | .error e => (st, fmtErr e)
      else bad
    | _, _, _, _ => bad
  | ["shuffle", s, inpl] =>
    match s.toNat?, parseBool inpl with
    | some s, some inpl =>
      if s < nsets then let (st', k) := shuffle st s inpl; (st', okS st' s!"set={k}") else bad
    | _, _ => bad
  | ["group", s, key, kind] =>
    match s.toNat?, parseKey key, (if kind = "sets" then some true else if kind = "list" then some false else none) with
    | some s, some key, some asSets =>
      if s < nsets then
        match group st s key asSets with
        | .ok (st', gs) =>
          let g := ";".intercalate (gs.map fun (k, l) => s!"{k}:{joinNat "." l}")
          let c := ";".intercalate (gs.map fun (k, l) => s!"{k}:{l.length}")
          let sm := ";".intercalate (gs.map fun (k, l) =>
            s!"{k}:{(l.map fun i => ((st.agent i).attr 0).getD 0).sum}")
          (st', okS st' s!"groups={g} counts={c} sums={sm} n={gs.length}")
        | .error e => (st, fmtErr e)
      else bad
    | _, _, _ => bad
  | ["get", s, ks, mode] =>
    let ksP : Option (Bool × List Nat) :=
      match ks.splitOn ":" with
      | ["one", k] => k.toNat?.map fun k => (true, [k])
      | ["many", l] => (parseNats l).map fun l => (false, l)
      | _ => none
    let modeP : Option Missing :=
      match mode.splitOn ":" with
      | ["error"] => some .error
      | ["default", "None"] => some (.default none)
      | ["default", v] => v.toInt?.map fun v => .default (some v)
      | ["bogus"] => some .bogus
      | _ => none
    match s.toNat?, ksP, modeP with
    | some s, some (one, ks), some mode =>
      if s < nsets then
        match get st s ks mode with
        | .ok rows =>
          let r := if one then ",".intercalate (rows.map fun r => "/".intercalate (r.map fmtOptInt))
                   else ",".intercalate (rows.map fun r => "[" ++ "/".intercalate (r.map fmtOptInt) ++ "]")
          (st, okS st s!"vals={r}")
        | .error e => (st, fmtErr e)
      else bad
    | _, _, _ => bad
  | ["setattr", s, k, v] =>
    match s.toNat?, k.toNat?, v.toInt? with
    | some s, some k, some v =>
      if s < nsets then let st' := setAttr st s k v; (st', okS st' "set") else bad
    | _, _, _ => bad
  | ["agg", s, k, f] =>
    let fP : Option AggFn :=
      if f = "sum" then some .sum else if f = "min" then some .min else if f = "max" then some .max
      else if f = "len" then some .len else none
    match s.toNat?, k.toNat?, fP with
    | some s, some k, some f =>
      if s < nsets then
        match agg st s k f with
        | .ok v => (st, okS st s!"val={v}")
        | .error e => (st, fmtErr e)
      else bad
    | _, _, _ => bad
  | ["map", s, f] =>
    let fP : Option MapFn :=
      match f.splitOn ":" with
      | ["dbl", k] => k.toNat?.map .dbl
      | ["plus", k, d] => do pure (.plus (← k.toNat?) (← d.toInt?))
      | ["nosuch"] => some .nosuch
      | ["stat", d] => d.toInt?.map .stat
      | ["cls", d] => d.toInt?.map .cls
      | ["own", k, d] => do pure (.own (← k.toNat?) (← d.toInt?))
      | _ => none
    match s.toNat?, fP with
    | some s, some f =>
      if s < nsets then
        match map st s f with
        | .ok vs => (st, okS st s!"vals={joinInt "," vs}")
        | .error e => (st, fmtErr e)
      else bad
    | _, _ => bad
  | ["item", s, i] =>
    match s.toNat?, i.toInt? with
    | some s, some i =>
      if s < nsets then
        match item st s i with
        | .ok a => (st, okS st s!"item={a}")
        | .error e => (st, fmtErr e)
      else bad
    | _, _ => bad
  | ["slice", s, i, j] =>
    match s.toNat?, i.toInt?, j.toInt? with
    | some s, some i, some j =>
      if s < nsets then (st, okS st s!"items={joinNat "," (slice st s i j)}") else bad
    | _, _, _ => bad
  | [kind, op, s, o] =>
    -- set algebra: `setop or|and|sub|xor|rsub s <other>` (new set), `isetop or|and|sub|xor s <other>` (in place),
    -- `cmp le|lt|ge|gt|eq|ne s t`
    if kind = "cmp" then
      let opP : Option CmpOp :=
        if op = "le" then some .le else if op = "lt" then some .lt else if op = "ge" then some .ge
        else if op = "gt" then some .gt else if op = "eq" then some .eq else if op = "ne" then some .ne else none
      match opP, s.toNat?, o.toNat? with
      | some op, some s, some t =>
        if s < nsets && t < nsets then (st, okS st s!"cmp={if cmp st op s t then 1 else 0}") else bad
      | _, _, _ => bad
    else if kind = "setop" || kind = "isetop" then
      let opP : Option SetOp :=
        if op = "or" then some .or else if op = "and" then some .and else if op = "sub" then some .sub
        else if op = "xor" then some .xor else if op = "rsub" && kind = "setop" then some .rsub else none
      match opP, s.toNat? with
      | some op, some s =>
        if s < nsets then
          match parseOther nsets npop o st.dead with
          | some none => (st, "err Type")          -- a non-iterable operand: TypeError, nothing changes
          | some (some o) =>
            if op = .rsub && (match o with | .set _ => true | .list _ => false) then bad
            else if kind = "setop" then let (st', k) := setop st op s o; (st', okS st' s!"set={k}")
            else let st' := isetop st op s o; (st', okS st' "self")
          | none => bad
        else bad
      | _, _ => bad
    else if kind = "index" then
      -- `index s a start` (stop = None)
      match op.toNat?, s.toNat?, o.toInt? with
      | some s, some a, some start =>
        if s < nsets && a < npop && !st.dead.contains a then
          match index st s a start none with
          | .ok i => (st, okS st s!"index={i}")
          | .error e => (st, fmtErr e)
        else bad
      | _, _, _ => bad
    else bad
  | ["index", s, a, start, stop] =>
    match s.toNat?, a.toNat?, start.toInt?, stop.toInt? with
    | some s, some a, some start, some stop =>
      if s < nsets && a < npop && !st.dead.contains a then
        match index st s a start (some stop) with
        | .ok i => (st, okS st s!"index={i}")
        | .error e => (st, fmtErr e)
      else bad
    | _, _, _, _ => bad
  | ["disjoint", s, o] =>
    match s.toNat? with
    | some s =>
      if s < nsets then
        match parseOther nsets npop o st.dead with
        | some none => (st, "err Type")
        | some (some o) => (st, okS st s!"disjoint={if isdisjoint st s o then 1 else 0}")
        | none => bad
      else bad
    | none => bad
  | ["kill", a] =>
    -- the agent is removed from the model and the program forgets it; an agent the program no longer has
    -- cannot be named again (bad-op)
    match a.toNat? with
    | some a => if a < npop && !st.dead.contains a then let st' := kill st a; (st', okS st' "killed") else bad
    | none => bad
  | ["pop", s] =>
    match s.toNat? with
    | some s =>
      if s < nsets then
        match pop st s with
        | .ok (st', a) => (st', okS st' s!"pop={a}")
        | .error e => (st, fmtErr e)
      else bad
    | none => bad
  | ["clear", s] =>
    match s.toNat? with
    | some s => if s < nsets then let st' := clear st s; (st', okS st' "cleared") else bad
    | none => bad
  | ["reversed", s] =>
    match s.toNat? with
    | some s => if s < nsets then (st, okS st s!"items={joinNat "," (reversed st s)}") else bad
    | none => bad
  | [op, s, a] =>
    match s.toNat?, a.toNat? with
    | some s, some a =>
      if s < nsets && a < npop && !st.dead.contains a then
        if op = "add" then let st' := add st s a; (st', okS st' "added")
        else if op = "discard" then let st' := discard st s a; (st', okS st' "discarded")
        else if op = "remove" then
          match remove st s a with
          | .ok st' => (st', okS st' "removed")
          | .error e => (st, fmtErr e)
        else if op = "contains" then (st, okS st s!"in={if contains st s a then 1 else 0}")
        else if op = "count" then (st, okS st s!"count={count st s a}")
        else if op = "index" then
          match index st s a 0 none with
          | .ok i => (st, okS st s!"index={i}")
          | .error e => (st, fmtErr e)
        else bad
      else bad
    | _, _ => bad
  | ["len", s] =>
    match s.toNat? with
    | some s => if s < nsets then (st, okS st s!"len={len st s}") else bad
    | none => bad
  | _ => bad

/-! ## main loop -/

inductive DSt where
  | none
  | world (st : WSt)
  | aset (st : Mesa.ASet.Store)

def stepLine (d : DSt) (ws : List String) : DSt × String :=
  match ws with
  | ["scenario", "world"] => (.world { w := World.empty, scripts := [] }, "ok")
  | ["scenario", "aset"] => (.aset { pop := [], sets := [], rng := ⟨[]⟩ }, "ok")
  | _ =>
    match d with
    | .none => (d, "bad-op")
    | .world st => let (st', o) := worldLine st ws; (.world st', o)
    | .aset st => let (st', o) := asetLine st ws; (.aset st', o)

partial def loop (h : IO.FS.Stream) (out : IO.FS.Stream) (d : DSt) : IO Unit := do
  let line ← h.getLine
  if line.isEmpty then return ()
  let (d', o) := stepLine d (words line.trimAscii.toString)
  out.putStrLn o
  loop h out d'

def main : IO Unit := do
  let out ← IO.getStdout
  loop (← IO.getStdin) out .none
  out.flush
