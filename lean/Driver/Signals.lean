/-! stub: replaced by the Signals group driver -/
def main : IO Unit := pure ()
