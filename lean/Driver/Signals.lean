import MesaModel.Model.Signals
import MesaModel.Model.SignalsSrc
import MesaModel.Model.Computed
/-!
Line-protocol driver for the signals group (C16, C17, C18-signals).  One output line per input line.

  scenario sig  name:kind:t1,t2,… … [prog:h:ACT,ACT…]…   C16 machine; kind ∈ obs|lst; the types in the set's iteration order;
      prog = the registry calls handler h makes whenever it is called: ACT = o.N.T.g (observe) | u.N.T.g (unobserve) | c.N
      (clear_all_subscriptions), N: name or *, T: type or *; only calls that are accepted are admitted
      `|` = class boundary (most derived class first), `ovr:name:kind` = this base class defines `name` as well (overridden)
      `veq` = implementation side only: the owners of the bound-method handlers (odd h) define `__eq__` by value
      observe N T h | unobserve N T h | clear N | drop h         (N: name or *, T: type or *)
      set n v | lassign n vs | lset n i v | lsetslice n a b vs | ldel n i | ldelslice n a b
      lsetslicex n A B C vs | ldelslicex n A B C      (`slice(A, B, C)`, each an int or N = None)
      linsert n i v | lappend n v | lpop n i | lremove n v | lextend n vs | liadd n vs | lreverse n | lclear n
      lextendsrc n vs k | liaddsrc n vs k        extend / += from an iterable that yields vs[0..k) and raises when asked
                                                 for the next item (k ≥ len: it just ends); answer `raised d…` (the
                                                 deliveries made before the exception came out) or as lextend / liadd
      subs | get n                               (vs: comma separated ints, `-` = empty)
  scenario comp owner.name.kind,… h:c.c,…       C17 machine; kind ∈ obs|comp; handler programs (`-` = none)
      define c o n TREE | assign o n v | read c | observe o n h | unobserve o n h | drop h
      TREE: ( ret v ) | ( read o n T… ) | ( readc c T… ) | ( write o n v T ) | ( fail )
            branch i for value i, last = otherwise (also for `None`); `fail` = the function raises (ZeroDivisionError,
            `err Zero`); a value v is an int or `N` (Python's `None`)
-/
open Mesa.Signals

def words (s : String) : List String := (s.splitOn " ").filter (· ≠ "")

def parseType : String → Option SigType
  | "change" => some .change | "append" => some .append | "insert" => some .insert
  | "remove" => some .remove | "replace" => some .replace | _ => none

def fmtType : SigType → String
  | .change => "change" | .append => "append" | .insert => "insert" | .remove => "remove" | .replace => "replace"

def parseInts (s : String) : Option (List Int) :=
  if s = "-" then some [] else (s.splitOn ",").mapM (·.toInt?)

def parseDecl (s : String) : Option Decl :=
  match s.splitOn ":" with
  | [n, k, ts] => do
    let n ← n.toNat?
    let k ← (if k = "obs" then some Kind.obs else if k = "lst" then some Kind.lst else none)
    let ts ← (ts.splitOn ",").mapM parseType
    -- the listed order must be an ordering of the kind's set
    if ts.length = k.types.length ∧ k.types.all (ts.contains ·) then pure ⟨n, k, ts⟩ else none
  | _ => none

def parseSelN (s : String) : Option (Sel Nat) := if s = "*" then some .all else s.toNat?.map .one
def parseSelT (s : String) : Option (Sel SigType) := if s = "*" then some .all else (parseType s).map .one

def fmtInts (l : List Int) : String := "[" ++ ",".intercalate (l.map toString) ++ "]"

def fmtVal : Val → String
  | .none => "N" | .int i => toString i | .list l => fmtInts l

def fmtOI : Option Int → String
  | none => "N" | some i => toString i

def parseOI (s : String) : Option (Option Int) := if s = "N" then some none else s.toInt?.map some

def fmtIdx : Idx → String
  | .none => "N" | .int i => toString i | .slice a b => s!"{a}..{b}"
  | .sliceX ⟨some a, some b, none⟩ => s!"{a}..{b}"
  | .sliceX ⟨a, b, c⟩ => s!"{fmtOI a}..{fmtOI b}..{fmtOI c}"

def fmtDeliv (d : Nat × Sig) : String :=
  s!"{d.1}:{d.2.name}:{fmtType d.2.type}:{fmtVal d.2.old}:{fmtVal d.2.new}:{fmtIdx d.2.index}"

def fmtErr : Err → String
  | .value => "err Value" | .key => "err Key" | .index => "err Index" | .attr => "err Attr" | .fuel => "err Fuel"
  | .user => "err Zero"

def fmtOut : Out → String
  | .err e => fmtErr e
  | .ok ds => " ".intercalate ("ok" :: ds.map fmtDeliv)

def canonTypes : List SigType := [.change, .append, .insert, .remove, .replace]

def kindOf (s : St) (n : Nat) : Option Kind := (s.reg.decls.find? (·.name == n)).map (·.kind)

def parseSigOp (s : St) : List String → Option Op
  | ["observe", n, t, h] => do pure (.observe (← parseSelN n) (← parseSelT t) (← h.toNat?))
  | ["unobserve", n, t, h] => do pure (.unobserve (← parseSelN n) (← parseSelT t) (← h.toNat?))
  | ["clear", n] => do pure (.clear (← parseSelN n))
  | ["drop", h] => do pure (.drop (← h.toNat?))
  | ["set", n, v] => do
      let n ← n.toNat?
      if kindOf s n = some .obs then pure (.assign n (← v.toInt?)) else none
  | op :: n :: rest => do
      let n ← n.toNat?
      if kindOf s n ≠ some .lst then none
      match op, rest with
      | "lassign", [vs] => pure (.lassign n (← parseInts vs))
      | "lset", [i, v] => pure (.lset n (← i.toInt?) (← v.toInt?))
      | "lsetslice", [a, b, vs] => pure (.lsetSlice n (← a.toInt?) (← b.toInt?) (← parseInts vs))
      | "ldel", [i] => pure (.ldel n (← i.toInt?))
      | "ldelslice", [a, b] => pure (.ldelSlice n (← a.toInt?) (← b.toInt?))
      | "lsetslicex", [a, b, c, vs] => pure (.lsetSliceX n ⟨← parseOI a, ← parseOI b, ← parseOI c⟩ (← parseInts vs))
      | "ldelslicex", [a, b, c] => pure (.ldelSliceX n ⟨← parseOI a, ← parseOI b, ← parseOI c⟩)
      | "linsert", [i, v] => pure (.linsert n (← i.toInt?) (← v.toInt?))
      | "lappend", [v] => pure (.lappend n (← v.toInt?))
      | "lpop", [i] => pure (.lpop n (← i.toInt?))
      | "lremove", [v] => pure (.lremove n (← v.toInt?))
      | "lextend", [vs] => pure (.lextend n (← parseInts vs))
      | "liadd", [vs] => pure (.liadd n (← parseInts vs))
      | "lreverse", [] => pure (.lreverse n)
      | "lclear", [] => pure (.lclear n)
      | _, _ => none
  | _ => none

/-- `lextendsrc n vs k` / `liaddsrc n vs k` -/
def parseSrcOp (s : St) : List String → Option (Bool × Nat × List Int × Nat)
  | [op, n, vs, k] => do
      let iadd ← (if op = "lextendsrc" then some false else if op = "liaddsrc" then some true else none)
      let n ← n.toNat?
      if kindOf s n ≠ some .lst then none
      pure (iadd, n, ← parseInts vs, ← k.toNat?)
  | _ => none

def fmtSrcOut (o : Out) (raised : Bool) : String :=
  match o, raised with
  | .ok ds, true => " ".intercalate ("raised" :: ds.map fmtDeliv)
  | o, _ => fmtOut o

def parseAct (s : String) : Option Act :=
  match s.splitOn "." with
  | ["o", n, t, g] => do pure (.observe (← parseSelN n) (← parseSelT t) (← g.toNat?))
  | ["u", n, t, g] => do pure (.unobserve (← parseSelN n) (← parseSelT t) (← g.toNat?))
  | ["c", n] => do pure (.clear (← parseSelN n))
  | _ => none

/-- `prog:h:ACT,ACT…` -/
def parseSigProg (s : String) : Option (Nat × List Act) :=
  match s.splitOn ":" with
  | ["prog", h, acts] => do pure (← h.toNat?, ← (acts.splitOn ",").mapM parseAct)
  | _ => none

def fmtSubs (s : St) : String :=
  let parts := s.reg.decls.map fun d =>
    let per := (canonTypes.filter (d.types.contains ·)).map fun t =>
      fmtType t ++ "=" ++ ",".intercalate ((s.reg.subs d.name t).map fun h => if s.alive h then toString h else "x")
    s!"{d.name}:" ++ ";".intercalate per
  " ".intercalate ("ok" :: parts)

/-! ### C17 -/
open Mesa.Computed in
section
open Mesa.Computed

/-- an int or `N` (= `None`) -/
def parseV (s : String) : Option V := if s = "N" then some none else s.toInt?.map some

inductive Syn where
  | ret (v : V)
  | read (k : Key) (bs : List Syn)
  | readC (c : Nat) (bs : List Syn)
  | write (k : Key) (v : V) (t : Syn)
  | fail
deriving Inhabited

instance : Inhabited Tree := ⟨.ret none⟩

/-- recursive descent; returns the tree and the remaining tokens -/
partial def parseSyn : List String → Option (Syn × List String)
  | "(" :: "ret" :: v :: ")" :: rest => do pure (.ret (← parseV v), rest)
  | "(" :: "fail" :: ")" :: rest => some (.fail, rest)
  | "(" :: "read" :: o :: n :: rest => do
      let (bs, rest) ← parseMany rest
      if bs.isEmpty then none else pure (.read (← o.toNat?, ← n.toNat?) bs, rest)
  | "(" :: "readc" :: c :: rest => do
      let (bs, rest) ← parseMany rest
      if bs.isEmpty then none else pure (.readC (← c.toNat?) bs, rest)
  | "(" :: "write" :: o :: n :: v :: rest => do
      let (t, rest) ← parseSyn rest
      match rest with
      | ")" :: rest => pure (.write (← o.toNat?, ← n.toNat?) (← parseV v) t, rest)
      | _ => none
  | _ => none
where
  parseMany : List String → Option (List Syn × List String)
    | ")" :: rest => some ([], rest)
    | toks => do
      let (t, rest) ← parseSyn toks
      let (ts, rest) ← parseMany rest
      pure (t :: ts, rest)

def pick (bs : List Syn) (v : V) : Syn :=
  match v with
  | some v => if 0 ≤ v ∧ v.toNat < bs.length then bs.getD v.toNat default else bs.getLastD default
  | none => bs.getLastD default

partial def toTree : Syn → Tree
  | .ret v => .ret v
  | .read k bs => .read k fun v => toTree (pick bs v)
  | .readC c bs => .readC c fun v => toTree (pick bs v)
  | .write k v t => .write k v (toTree t)
  | .fail => .fail

def parseCDecl (s : String) : Option (Nat × Decl) :=
  match s.splitOn "." with
  | [o, n, k] => do
    let k ← (if k = "obs" then some Kind.obs else if k = "comp" then some Kind.comp else none)
    pure (← o.toNat?, ⟨← n.toNat?, k, k.types⟩)
  | _ => none

def parseProg (s : String) : Option (Nat × List Nat) :=
  match s.splitOn ":" with
  | [h, cs] => do
    let cs ← (if cs = "" then some [] else (cs.splitOn ".").mapM (·.toNat?))
    pure (← h.toNat?, cs)
  | _ => none

structure CSt where
  st : Mesa.Computed.St
  defined : List Nat
  decls : List (Nat × Decl)

def cfuel : Nat := 20000

def fmtO : Option Int → String
  | none => "N" | some v => toString v

def fmtEntry (e : Entry) : String := s!"{e.h}:{e.owner}.{e.name}:{fmtO e.old}>{fmtO e.new}"

/-- `val` = the operation hands out a value (read, define); the others answer `ok 0` -/
def fmtC (cs : CSt) (val : Bool) (old : Mesa.Computed.St) (s : Mesa.Computed.St) (r : R) : String :=
  let head := match r with
    | .ok (some v) => if val then s!"ok {v}" else "ok 0"
    | .ok none => if val then "ok None" else "ok 0"
    | .err e => fmtErr e
  let log := " ".intercalate ((s.log.drop old.log.length).map fmtEntry)
  let evs := " ".intercalate (cs.defined.reverse.map fun c => s!"{c}:{((s.comps c).map (·.evals)).getD 0}")
  s!"{head} | {log} | {evs}"

def declKind (cs : CSt) (o n : Nat) : Option Kind :=
  (cs.decls.find? fun d => d.1 == o && d.2.name == n).map (·.2.kind)

def stepC (cs : CSt) (ws : List String) : CSt × String :=
  let s := cs.st
  let fin (cs' : CSt) (r : Option (Mesa.Computed.St × R)) (val : Bool := false) : CSt × String :=
    match r with
    | none => (cs, "err Fuel")
    | some (s', r) => let cs'' := { cs' with st := s' }; (cs'', fmtC cs'' val s s' r)
  match ws with
  | "define" :: c :: o :: n :: toks =>
    match c.toNat?, o.toNat?, n.toNat?, parseSyn toks with
    | some c, some o, some n, some (syn, []) =>
      if cs.defined.contains c ∨ declKind cs o n ≠ some .comp then (cs, "bad-op")
      else fin { cs with defined := c :: cs.defined } (step cfuel s (.define c o n (toTree syn))) true
    | _, _, _, _ => (cs, "bad-op")
  | ["assign", o, n, v] =>
    match o.toNat?, n.toNat?, parseV v with
    | some o, some n, some v =>
      if declKind cs o n ≠ some .obs then (cs, "bad-op") else fin cs (step cfuel s (.assign (o, n) v))
    | _, _, _ => (cs, "bad-op")
  | ["read", c] =>
    match c.toNat? with
    | some c => if cs.defined.contains c then fin cs (step cfuel s (.read c)) true else (cs, "bad-op")
    | none => (cs, "bad-op")
  | ["observe", o, n, h] =>
    match o.toNat?, n.toNat?, h.toNat? with
    | some o, some n, some h => fin cs (step cfuel s (.observe (o, n) h))
    | _, _, _ => (cs, "bad-op")
  | ["unobserve", o, n, h] =>
    match o.toNat?, n.toNat?, h.toNat? with
    | some o, some n, some h => fin cs (step cfuel s (.unobserve (o, n) h))
    | _, _, _ => (cs, "bad-op")
  | ["drop", h] =>
    match h.toNat? with
    | some h => fin cs (step cfuel s (.drop h))
    | none => (cs, "bad-op")
  | _ => (cs, "bad-op")

end

inductive Mach where
  | none
  | sig (s : St) (progs : List (Nat × List Act))
  | comp (c : CSt)

def progOf (progs : List (Nat × List Act)) (h : Nat) : List Act := (progs.lookup h).getD []

def stepLine (m : Mach) (ws : List String) : Mach × String :=
  match ws with
  | "scenario" :: "sig" :: ds =>
    -- `|` (class boundary) and `natural` (real sets on the Python side) only concern the implementation runner
    -- `veq`: the owners of the bound-method handlers are value objects with an `__eq__` of their own (equal while they have
    -- recorded the same signals); handlers are identities here (`H = Nat`, `h ≠ g` is about the handler, not its owner)
    -- `ovr:name:kind`: a base class defines the same name again; as in attribute lookup the most derived definition
    -- is the one in effect (M26 repaired), the overridden one is not a declaration
    match ((ds.filter fun t => t ≠ "|" ∧ t ≠ "natural" ∧ t ≠ "veq" ∧ !t.startsWith "prog:" ∧ !t.startsWith "ovr:").mapM parseDecl),
          ((ds.filter fun t => t.startsWith "prog:").mapM parseSigProg) with
    | some decls, some progs =>
      if (decls.map (·.name)).eraseDups.length = decls.length ∧ (progs.map (·.1)).eraseDups.length = progs.length ∧
          progs.all (fun p => p.2.all (Act.valid (init decls).reg)) then (.sig (init decls) progs, "ok")
      else (m, "bad-op")
    | _, _ => (m, "bad-op")
  | ["scenario", "comp", ds, ps] =>
    match (ds.splitOn ",").mapM parseCDecl, (if ps = "-" then some [] else (ps.splitOn ",").mapM parseProg) with
    | some decls, some progs =>
      let declsOf := fun o => (decls.filter (·.1 == o)).map (·.2)
      let progOf := fun h => (progs.lookup h).getD []
      (.comp { st := Mesa.Computed.init declsOf progOf, defined := [], decls := decls }, "ok")
    | _, _ => (m, "bad-op")
  | _ =>
    match m with
    | .none => (m, "bad-op")
    | .comp c => let (c', o) := stepC c ws; (.comp c', o)
    | .sig s progs =>
      match ws with
      | ["subs"] => (m, fmtSubs s)
      | ["get", n] =>
        match n.toNat? with
        | some n =>
          match kindOf s n with
          | some .obs => (m, "ok " ++ fmtVal (s.obsv n))
          | some .lst => (m, match s.lists n with | some d => "ok " ++ fmtInts d | none => "err Attr")
          | _ => (m, "bad-op")
        | none => (m, "bad-op")
      | _ =>
        match parseSrcOp s ws with
        | some (iadd, n, vs, k) =>
          let res := stepSrcR (progOf progs) s iadd n vs k
          (.sig res.1 progs, fmtSrcOut res.2.1 res.2.2)
        | none =>
        match parseSigOp s ws with
        | none => (m, "bad-op")
        | some op => let (s', o) := stepR (progOf progs) s op; (.sig s' progs, fmtOut o)

partial def loop (h : IO.FS.Stream) (out : IO.FS.Stream) (m : Mach) : IO Unit := do
  let line ← h.getLine
  if line.isEmpty then return ()
  let (m', o) := stepLine m (words line.trimAscii.toString)
  out.putStrLn o
  loop h out m'

def main : IO Unit := do
  let out ← IO.getStdout
  loop (← IO.getStdin) out .none
  out.flush
