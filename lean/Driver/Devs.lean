import MesaModel.Model.Devs
import MesaModel.Model.DevsLife
import MesaModel.Model.Heap
/-!
Line-protocol driver for the Devs model (C14, C15, C18-devs).
One output line per input line.  See harness/c14.py for the producer.

  scenario devs|abm         reset
  prog a cmd ; cmd ; …      define program a        (cmd: abs t p a | rel d p a | again c d p | cancel k | drop c | halt | raise Index|Value|Key)
  stepprog cmd ; …          define the user's step body
  setup | reset              (reset = Simulator.reset() followed by a fresh model: back to `init`, no model attached)
                             lifecycle (Model/DevsLife.lean): `setup` answers `err NotAtStart` / `err HasEvents` when the guards of
                             Simulator.setup refuse it; until / for / next answer `err NotSetup` while no model is attached
  abs t p a | rel d p a | cancel k | drop c
  again c d p                schedule_event_relative once more with the callable object c (`ok none`: the program no longer holds it)
  until T | for d | next | peek n | len
A run call that is cut short by an exception of a callable answers `err Raised <kind> now=… steps=… log=…` (the program has
caught the exception: the stored state is `caught`).
-/
open Mesa.Devs

def parseCmd : List String → Option Cmd
  | ["rel", d, p, a] => do pure (.schedRel (← d.toInt?) (← p.toNat?) (← a.toNat?))
  | ["abs", t, p, a] => do pure (.schedAbs (← t.toInt?) (← p.toNat?) (← a.toNat?))
  | ["again", k, d, p] => do pure (.again (← k.toNat?) (← d.toInt?) (← p.toNat?))
  | ["cancel", k] => do pure (.cancel (← k.toNat?))
  | ["drop", k] => do pure (.drop (← k.toNat?))
  | ["halt"] => some .halt
  | ["raise", "Index"] => some (.raise .index)
  | ["raise", "Value"] => some (.raise .value)
  | ["raise", "Key"] => some (.raise .key)
  | _ => none

def words (s : String) : List String := (s.splitOn " ").filter (· ≠ "")

/-- `none` if any command is malformed (never default) -/
def parseProg (rest : List String) : Option (List Cmd) :=
  let parts := ((String.intercalate " " rest).splitOn ";").map words |>.filter (· ≠ [])
  parts.mapM parseCmd

def fmtEntry : LogEntry → String
  | .user _ k t => s!"{k}@{t}"
  | .step _ t => s!"S@{t}"

def fmtExc : Exc → String
  | .index => "Index"
  | .value => "Value"
  | .key => "Key"

def fmtRun (old : Sim) (s : Sim) : String :=
  let new := s.log.drop old.log.length
  let head := match s.raised with
    | none => "ok"
    | some x => "err Raised " ++ fmtExc x
  s!"{head} now={s.now} steps={s.steps} log={" ".intercalate (new.map fmtEntry)}"

def fmtErr : Err → String
  | .past => "err Past"
  | .unit => "err Unit"

def fmtLErr : LErr → String
  | .notSetup => "err NotSetup"
  | .notAtStart => "err NotAtStart"
  | .hasEvents => "err HasEvents"

structure St where
  sim : Sim
  up : Bool := false        -- `simulator.model is not None` (Model/DevsLife.lean)
  progs : List (Nat × List Cmd)
  heap : List Ev := []      -- `scenario heap`: the heapq transcription on its own (hpush / hpop), array layout observed

def St.look (ps : List (Nat × List Cmd)) (a : Nat) : List Cmd := (ps.lookup a).getD []

def fuel : Nat := 100000

def stepLine (st : St) (ws : List String) : St × String :=
  let s := st.sim
  match ws with
  | ["scenario", k] =>
      match (if k = "abm" then some Kind.abm else if k = "devs" then some Kind.devs else none) with
      | none => (st, "bad-op")
      | some kd => ({ sim := init kd (St.look []) [], up := false, progs := [], heap := [] }, "ok")
  | "prog" :: a :: rest =>
      match a.toNat?, parseProg rest with
      | some a, some cmds =>
        let ps := (a, cmds) :: st.progs
        ({ st with sim := { s with prog := St.look ps }, progs := ps, heap := [] }, "ok")
      | _, _ => (st, "bad-op")
  | "stepprog" :: rest =>
      match parseProg rest with
      | some cmds => ({ st with sim := { s with stepProg := cmds } }, "ok")
      | none => (st, "bad-op")
  | ["hpush", t, p] =>
      match t.toInt?, p.toNat? with
      | some t, some p =>
        let e : Ev := { time := t, prio := p, id := st.heap.length + s.nextId, tag := 0, isStep := false,
                        cancelled := false, dead := false, act := 0, fn := 0 }
        let h := Mesa.Heap.heappush Ev.lt st.heap e
        ({ st with heap := h, sim := { s with nextId := s.nextId } }, "ok " ++ " ".intercalate (h.map fun e => s!"{e.time},{e.prio},{e.id}"))
      | _, _ => (st, "bad-op")
  | ["hpop"] =>
      match Mesa.Heap.heappop Ev.lt st.heap with
      | none => (st, "err Index")
      | some (m, h) =>
        -- ids stay unique: remember how many were handed out in `nextId`
        ({ st with heap := h, sim := { s with nextId := s.nextId + 1 } },
         s!"ok {m.time},{m.prio},{m.id} | " ++ " ".intercalate (h.map fun e => s!"{e.time},{e.prio},{e.id}"))
  | ["setup"] =>
      match (Life.mk st.up s).setup with
      | .ok l => ({ st with sim := l.sim, up := l.up }, "ok")
      | .error e => (st, fmtLErr e)
  | ["reset"] =>   -- Simulator.reset + a fresh model
      let l := (Life.mk st.up s).reset
      ({ st with sim := l.sim, up := l.up }, "ok")
  | ["until", t] =>
      match t.toInt? with
      | none => (st, "bad-op")
      | some T =>
        match (Life.mk st.up s).runUntil fuel T with
        | .error e => (st, fmtLErr e)
        | .ok none => (st, "err Fuel")
        | .ok (some l) => ({ st with sim := caught l.sim }, fmtRun s l.sim)
  | ["for", d] =>
      match d.toInt? with
      | none => (st, "bad-op")
      | some d =>
        match (Life.mk st.up s).runFor fuel d with
        | .error e => (st, fmtLErr e)
        | .ok none => (st, "err Fuel")
        | .ok (some l) => ({ st with sim := caught l.sim }, fmtRun s l.sim)
  | ["next"] =>
      match (Life.mk st.up s).runNext with
      | .error e => (st, fmtLErr e)
      | .ok l => ({ st with sim := caught l.sim }, fmtRun s l.sim)
  | ["len"] => (st, s!"ok len={s.pending.length}")   -- len(event_list): cancelled events stay until popped
  | ["peek", n] =>
      match n.toNat? with
      | none => (st, "bad-op")
      | some n =>
        let evs := peek s n
        (st, "ok peek=" ++ " ".intercalate (evs.map fun e => if e.isStep then "S" else toString e.tag))
  | ["abs", t, p, a] =>
      match t.toInt?, p.toNat?, a.toNat? with
      | some t, some p, some a =>
        match schedAbs s t p a with
        | .ok s' => ({ st with sim := s' }, s!"ok tag={s.nextTag} id={s.nextId}")
        | .error e => (st, fmtErr e)
      | _, _, _ => (st, "bad-op")
  | ["rel", d, p, a] =>
      match d.toInt?, p.toNat?, a.toNat? with
      | some d, some p, some a =>
        match schedRel s d p a with
        | .ok s' => ({ st with sim := s' }, s!"ok tag={s.nextTag} id={s.nextId}")
        | .error e => (st, fmtErr e)
      | _, _, _ => (st, "bad-op")
  | ["again", k, d, p] =>
      match k.toNat?, d.toInt?, p.toNat? with
      | some k, some d, some p =>
        match again s k d p with
        | none => (st, "ok none")
        | some (.ok s') => ({ st with sim := s' }, s!"ok tag={s.nextTag} id={s.nextId}")
        | some (.error e) => (st, fmtErr e)
      | _, _, _ => (st, "bad-op")
  | ["cancel", k] =>
      match k.toNat? with
      | some k => ({ st with sim := cancelTag s k }, "ok")
      | none => (st, "bad-op")
  | ["drop", k] =>
      match k.toNat? with
      | some k => ({ st with sim := dropFn s k }, "ok")
      | none => (st, "bad-op")
  | _ => (st, "bad-op")

partial def loop (h : IO.FS.Stream) (out : IO.FS.Stream) (st : St) : IO Unit := do
  let line ← h.getLine
  if line.isEmpty then return ()
  let (st', o) := stepLine st (words line.trimAscii.toString)
  out.putStrLn o
  loop h out st'

def main : IO Unit := do
  let out ← IO.getStdout
  loop (← IO.getStdin) out { sim := init .devs (fun _ => []) [], progs := [] }
  out.flush
