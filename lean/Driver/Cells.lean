import MesaModel.Proto.Cells
/-! line-protocol executable for the cells group (C06, C07, C18-cells); the protocol is implemented in Driver/CellsLib.lean -/
open Mesa.Cells

partial def loop (h : IO.FS.Stream) (out : IO.FS.Stream) (st : DSt) : IO Unit := do
  let line ← h.getLine
  if line.isEmpty then return ()
  let (st', o) := stepLine st (words line.trimAscii.toString)
  out.putStrLn o
  loop h out st'

def main : IO Unit := do
  let out ← IO.getStdout
  loop (← IO.getStdin) out DSt.empty
  out.flush
