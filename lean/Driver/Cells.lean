/-! stub: replaced by the Cells group driver -/
def main : IO Unit := pure ()
