import MesaModel.Model.StepMro
/-!
Line-protocol driver of the step-counter model (C05).  Producer: harness/c05.py.

  scenario steps
  class <lvl> <lvl> …      a Model subclass chain, most derived class first; <lvl> = 3 bits
                           overrides/callsSuper/takesArgs (e.g. 110); `class -` = `mesa.Model` itself
                           → ok class=K
  cdef <bases|-> <lvl>     a class with several bases (multiple inheritance): bases = comma-separated ids of classes
                           defined by earlier `cdef` lines, 0 = `mesa.Model`, `-` = no base (a plain mixin class)
                           → ok class=K mro=K,…   |  err Type (duplicate base, no consistent MRO)
  mnew c stopAt            instantiate `cdef` class c (a Model subclass); bodies are labelled by class id
  new c stopAt             instantiate class c; its bodies clear `running` at the stopAt-th execution
                           → ok inst=K …
  step i a1 a2 …           model_i.step(a1, a2, …)
  run i                    model_i.run_model()
  rearm i k                model_i.running = True; stop k body executions from now
  halt i                   model_i.running = False
Every answer carries the counters of all instances: `… || steps=1,0,3 running=1,1,0`.
-/
open Mesa.Steps

def words (s : String) : List String := (s.splitOn " ").filter (· ≠ "")

def parseLevel (s : String) : Option Level :=
  match s.toList with
  | [a, b, c] =>
    let bit := fun (ch : Char) => if ch = '1' then some true else if ch = '0' then some false else none
    do pure { overrides := ← bit a, callsSuper := ← bit b, takesArgs := ← bit c }
  | _ => none

structure St where
  classes : List Hier
  insts : List Inst
  table : Table := Table.init          -- `cdef` classes: their MROs …
  lvls : List Level := [default]       -- … and how each defines `step` (entry 0 = `mesa.Model`, unused)
  labels : List (List Nat) := []       -- per instance: the label its bodies record, by depth

def fmtEntry (lab : List Nat) (e : Entry) : String :=
  s!"{lab[e.depth]?.getD e.depth}@{e.steps}" ++ (if e.args.isEmpty then "" else "/" ++ ".".intercalate (e.args.map toString))

def parseBases (s : String) : Option (List Nat) :=
  if s = "-" then some [] else (s.splitOn ",").mapM (·.toNat?)

def fmtAll (w : List Inst) : String :=
  s!"steps={",".intercalate (w.map (toString ·.steps))} running={",".intercalate (w.map fun i => if i.running then "1" else "0")}"

def fuel : Nat := 100000

def stepLine (st : St) (ws : List String) : St × String :=
  let bad := (st, "bad-op")
  match ws with
  | ["scenario", "steps"] => ({ classes := [], insts := [] }, "ok")
  | "class" :: lv =>
    match (if lv = ["-"] then some [] else lv.mapM parseLevel) with
    | some h => ({ st with classes := st.classes ++ [h] }, s!"ok class={st.classes.length}")
    | none => bad
  | ["new", c, k] =>
    match c.toNat?, k.toNat? with
    | some c, some k =>
      match st.classes[c]? with
      | some h =>
        let w := st.insts ++ [Inst.new h k]
        ({ st with insts := w, labels := st.labels ++ [List.range h.length] }, s!"ok inst={st.insts.length} || {fmtAll w}")
      | none => bad
    | _, _ => bad
  | ["cdef", bs, lv] =>
    match parseBases bs, parseLevel lv with
    | some bases, some L =>
      if bases.all (· < st.table.length) then
        match st.table.define bases with
        | some T' =>
          ({ st with table := T', lvls := st.lvls ++ [L] },
           s!"ok class={st.table.length} mro={",".intercalate ((T'.mro st.table.length).map toString)}")
        | none => (st, "err Type")
      else bad
    | _, _ => bad
  | ["mnew", c, k] =>
    match c.toNat?, k.toNat? with
    | some c, some k =>
      if c < st.table.length && st.table.isModel c then
        let h := st.table.hier (fun j => st.lvls[j]?.getD default) c
        let w := st.insts ++ [Inst.new h k]
        ({ st with insts := w, labels := st.labels ++ [st.table.labels c] }, s!"ok inst={st.insts.length} || {fmtAll w}")
      else bad
    | _, _ => bad
  | "step" :: i :: args =>
    match i.toNat?, args.mapM (·.toInt?) with
    | some i, some args =>
      match st.insts[i]? with
      | some x =>
        let r := callStep x args
        let w := apply st.insts (.step i args)
        ({ st with insts := w },
         (if r.2.2 then "ok" else "err Type") ++ s!" log={",".intercalate (r.2.1.map (fmtEntry (st.labels[i]?.getD [])))} || {fmtAll w}")
      | none => bad
    | _, _ => bad
  | ["run", i] =>
    match i.toNat? with
    | some i =>
      match st.insts[i]? with
      | some x =>
        match runModel fuel x with
        | some (_, es) =>
          let w := apply st.insts (.run i fuel)
          ({ st with insts := w }, s!"ok log={",".intercalate (es.map (fmtEntry (st.labels[i]?.getD [])))} || {fmtAll w}")
        | none => (st, "err Fuel")
      | none => bad
    | none => bad
  | ["rearm", i, k] =>
    match i.toNat?, k.toNat? with
    | some i, some k =>
      if i < st.insts.length then
        let w := apply st.insts (.rearm i k)
        ({ st with insts := w }, s!"ok || {fmtAll w}")
      else bad
    | _, _ => bad
  | ["halt", i] =>
    match i.toNat? with
    | some i =>
      if i < st.insts.length then
        let w := apply st.insts (.halt i)
        ({ st with insts := w }, s!"ok || {fmtAll w}")
      else bad
    | none => bad
  | _ => bad

partial def loop (h : IO.FS.Stream) (out : IO.FS.Stream) (st : St) : IO Unit := do
  let line ← h.getLine
  if line.isEmpty then return ()
  let (st', o) := stepLine st (words line.trimAscii.toString)
  out.putStrLn o
  loop h out st'

def main : IO Unit := do
  let out ← IO.getStdout
  loop (← IO.getStdin) out { classes := [], insts := [] }
  out.flush
