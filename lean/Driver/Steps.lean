import MesaModel.Model.StepMro
import MesaModel.Model.StepNested
import MesaModel.Model.StepBinding
/-!
Line-protocol driver of the step-counter model (C05).  Producer: harness/c05.py.

  scenario steps
  class <lvl> <lvl> …      a Model subclass chain, most derived class first; <lvl> = 3 bits
                           overrides/callsSuper/takesArgs (e.g. 110); `class -` = `mesa.Model` itself
                           → ok class=K
  cdef <bases|-> <lvl>     a class with several bases (multiple inheritance): bases = comma-separated ids of classes
                           defined by earlier `cdef` lines, 0 = `mesa.Model`, `-` = no base (a plain mixin class)
                           → ok class=K mro=K,…   |  err Type (duplicate base, no consistent MRO)
  mnew c stopAt            instantiate `cdef` class c (a Model subclass); bodies are labelled by class id
  new c stopAt             instantiate class c; its bodies clear `running` at the stopAt-th execution
                           → ok inst=K …
  link i j | link i -      from now on every step body of model_i also calls model_j.step() (j > i: a sub-model); `-` unlinks
  step i a1 a2 …           model_i.step(a1, a2, …); nested calls are reported as ` sub=j>…;k>…` in the order they start
  run i                    model_i.run_model()
  rearm i k                model_i.running = True; stop k body executions from now
  halt i                   model_i.running = False
Every answer carries the counters of all instances: `… || steps=1,0,3 running=1,1,0`.

How `step` is bound on an instance (Model/StepBinding.lean); these objects live in a list of their own:
  bnew c f|- [r]           instantiate chain class c; `f`: its `__init__` assigns `self.step = fn_f` before `super().__init__()`;
                           `r`: the variant of the class whose step body at depth r raises RuntimeError after making its record
                           → ok obj=K || b=<steps of all objects>
  bstep k a1 a2 …          obj_k.step(a1, …) → ok|err Type|err Runtime log=<class bodies> fn=<f@steps/args,…> || b=…
                           (functions numbered 50 and up raise RuntimeError after making their record)
  bassign k f              obj_k.step = fn_f
  bdel k                   del obj_k.step            (err Attr if there is no instance attribute)
  buser k f                obj_k._user_step = fn_f
-/
open Mesa.Steps

def words (s : String) : List String := (s.splitOn " ").filter (· ≠ "")

def parseLevel (s : String) : Option Level :=
  match s.toList with
  | [a, b, c] =>
    let bit := fun (ch : Char) => if ch = '1' then some true else if ch = '0' then some false else none
    do pure { overrides := ← bit a, callsSuper := ← bit b, takesArgs := ← bit c }
  | _ => none

structure St where
  classes : List Hier
  insts : List Inst
  table : Table := Table.init          -- `cdef` classes: their MROs …
  lvls : List Level := [default]       -- … and how each defines `step` (entry 0 = `mesa.Model`, unused)
  labels : List (List Nat) := []       -- per instance: the label its bodies record, by depth
  links : List (Option Nat) := []      -- per instance: the sub-model its step bodies step
  objs : List Obj := []                -- `bnew` objects

def fmtEntry (lab : List Nat) (e : Entry) : String :=
  s!"{lab[e.depth]?.getD e.depth}@{e.steps}" ++ (if e.args.isEmpty then "" else "/" ++ ".".intercalate (e.args.map toString))

def parseBases (s : String) : Option (List Nat) :=
  if s = "-" then some [] else (s.splitOn ",").mapM (·.toNat?)

def fmtAll (w : List Inst) : String :=
  s!"steps={",".intercalate (w.map (toString ·.steps))} running={",".intercalate (w.map fun i => if i.running then "1" else "0")}"

def fuel : Nat := 100000

def fmtCall (st : St) (c : Call) : String :=
  ",".intercalate (c.entries.map (fmtEntry (st.labels[c.inst]?.getD [])))

/-- the nested calls, in the order they start: ` sub=j>entries;k>entries` (nothing if there are none) -/
def fmtSubs (st : St) (subs : List Call) : String :=
  if subs.isEmpty then "" else " sub=" ++ ";".intercalate (subs.map fun c => s!"{c.inst}>{fmtCall st c}")

def fmtObjs (os : List Obj) : String := s!"b={",".intercalate (os.map (toString ·.inst.steps))}"

def fmtFn (c : FnCall) : String :=
  s!"{c.f}@{c.steps}" ++ (if c.args.isEmpty then "" else "/" ++ ".".intercalate (c.args.map toString))

def stepLine (st : St) (ws : List String) : St × String :=
  let bad := (st, "bad-op")
  match ws with
  | "bnew" :: c :: f :: rz =>
    match c.toNat?, (if f = "-" then some none else f.toNat?.map some),
        (match rz with | [] => some none | [r] => r.toNat?.map some | _ => none) with
    | some c, some pre, some rz =>
      match st.classes[c]? with
      | some h =>
        let os := st.objs ++ [Obj.construct h 1000000 pre rz]
        ({ st with objs := os }, s!"ok obj={st.objs.length} || {fmtObjs os}")
      | none => bad
    | _, _, _ => bad
  | "bstep" :: k :: args =>
    match k.toNat?, args.mapM (·.toInt?) with
    | some k, some args =>
      match st.objs[k]? with
      | some o =>
        let r := o.call args
        let os := st.objs.set k r.obj
        ({ st with objs := os },
         (if r.ok then "ok" else if r.fns.any (fun c => raisesFn c.f) || r.bodyRaised then "err Runtime" else "err Type") ++
           s!" log={",".intercalate (r.entries.map (fmtEntry []))} fn={",".intercalate (r.fns.map fmtFn)} || {fmtObjs os}")
      | none => bad
    | _, _ => bad
  | ["bassign", k, f] =>
    match k.toNat?, f.toNat? with
    | some k, some f =>
      match st.objs[k]? with
      | some o => let os := st.objs.set k (o.apply (.assign f)); ({ st with objs := os }, s!"ok || {fmtObjs os}")
      | none => bad
    | _, _ => bad
  | ["buser", k, f] =>
    match k.toNat?, f.toNat? with
    | some k, some f =>
      match st.objs[k]? with
      | some o => let os := st.objs.set k (o.apply (.setUser f)); ({ st with objs := os }, s!"ok || {fmtObjs os}")
      | none => bad
    | _, _ => bad
  | ["bdel", k] =>
    match k.toNat? with
    | some k =>
      match st.objs[k]? with
      | some o =>
        if o.dictStep.isNone then (st, s!"err Attr || {fmtObjs st.objs}")
        else let os := st.objs.set k (o.apply .del); ({ st with objs := os }, s!"ok || {fmtObjs os}")
      | none => bad
    | none => bad
  | ["scenario", "steps"] => ({ classes := [], insts := [] }, "ok")
  | "class" :: lv =>
    match (if lv = ["-"] then some [] else lv.mapM parseLevel) with
    | some h => ({ st with classes := st.classes ++ [h] }, s!"ok class={st.classes.length}")
    | none => bad
  | ["new", c, k] =>
    match c.toNat?, k.toNat? with
    | some c, some k =>
      match st.classes[c]? with
      | some h =>
        let w := st.insts ++ [Inst.new h k]
        ({ st with insts := w, labels := st.labels ++ [List.range h.length], links := st.links ++ [none] },
         s!"ok inst={st.insts.length} || {fmtAll w}")
      | none => bad
    | _, _ => bad
  | ["cdef", bs, lv] =>
    match parseBases bs, parseLevel lv with
    | some bases, some L =>
      if bases.all (· < st.table.length) then
        match st.table.define bases with
        | some T' =>
          ({ st with table := T', lvls := st.lvls ++ [L] },
           s!"ok class={st.table.length} mro={",".intercalate ((T'.mro st.table.length).map toString)}")
        | none => (st, "err Type")
      else bad
    | _, _ => bad
  | ["mnew", c, k] =>
    match c.toNat?, k.toNat? with
    | some c, some k =>
      if c < st.table.length && st.table.isModel c then
        let h := st.table.hier (fun j => st.lvls[j]?.getD default) c
        let w := st.insts ++ [Inst.new h k]
        ({ st with insts := w, labels := st.labels ++ [st.table.labels c], links := st.links ++ [none] },
         s!"ok inst={st.insts.length} || {fmtAll w}")
      else bad
    | _, _ => bad
  | ["link", i, j] =>
    match i.toNat?, (if j = "-" then some none else j.toNat?.map some) with
    | some i, some j =>
      if i < st.insts.length && (match j with | some j => i < j && j < st.insts.length | none => true) then
        ({ st with links := st.links.set i j }, s!"ok || {fmtAll st.insts}")
      else bad
    | _, _ => bad
  | "step" :: i :: args =>
    match i.toNat?, args.mapM (·.toInt?) with
    | some i, some args =>
      match st.insts[i]? with
      | some _ =>
        let r := stepNested st.links (st.insts.length + 1) st.insts i args
        match r.2 with
        | c :: subs =>
          ({ st with insts := r.1 },
           (if c.ok then "ok" else "err Type") ++ s!" log={fmtCall st c}{fmtSubs st subs} || {fmtAll r.1}")
        | [] => bad
      | none => bad
    | _, _ => bad
  | ["run", i] =>
    match i.toNat? with
    | some i =>
      match st.insts[i]? with
      | some _ =>
        match runNested st.links fuel st.insts i with
        | some (w, cs) =>
          let own := cs.filter (·.inst == i)
          ({ st with insts := w },
           s!"ok log={",".intercalate (own.flatMap fun c => c.entries.map (fmtEntry (st.labels[i]?.getD [])))}{fmtSubs st (cs.filter (·.inst != i))} || {fmtAll w}")
        | none => (st, "err Fuel")
      | none => bad
    | none => bad
  | ["rearm", i, k] =>
    match i.toNat?, k.toNat? with
    | some i, some k =>
      if i < st.insts.length then
        let w := apply st.insts (.rearm i k)
        ({ st with insts := w }, s!"ok || {fmtAll w}")
      else bad
    | _, _ => bad
  | ["halt", i] =>
    match i.toNat? with
    | some i =>
      if i < st.insts.length then
        let w := apply st.insts (.halt i)
        ({ st with insts := w }, s!"ok || {fmtAll w}")
      else bad
    | none => bad
  | _ => bad

partial def loop (h : IO.FS.Stream) (out : IO.FS.Stream) (st : St) : IO Unit := do
  let line ← h.getLine
  if line.isEmpty then return ()
  let (st', o) := stepLine st (words line.trimAscii.toString)
  out.putStrLn o
  loop h out st'

def main : IO Unit := do
  let out ← IO.getStdout
  loop (← IO.getStdin) out { classes := [], insts := [] }
  out.flush
