/-! stub: replaced by the Steps group driver -/
def main : IO Unit := pure ()
