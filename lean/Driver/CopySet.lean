import MesaModel.Model.CopySet
/-!
Line-protocol driver for the AgentSet half of C19 (`Model/CopySet.lean`).  Objects are named by their identities;
the harness allocates the same identities in the same order (generator then model for `model`; one identity per
agent / set; `old + next` for every object reconstructed by a copy).

  scenario sets                      reset
  model <draw …>                     Model(seed=0) with a scripted generator            → ok <m>
  create <m> <w>                     Agent(m); agent.w = w                              → ok <a> <unique_id> | err Dead
  remove <a> | setw <a> <v>          agent.remove() | agent.w = v                       → ok | err Dead
  mkset <m> <a …>                    AgentSet([a …], random=m.random)                   → ok <s> | err Dead
  add <s> <a> | discard <s> <a>      s.add(a) | s.discard(a)                            → ok | err Dead | err NoSet
  sortw <s> | shuffle <s>            s.sort("w", ascending=True, inplace=True) | s.shuffle(inplace=True)
  copy <s> deepcopy|pickle           the copy is set <s + next>                         → ok <s'> | err NoSet
  members <s>                        after gc: id:unique_id:w:model …  | remaining draws of s.random
  reg <m>                            after gc: list(m.agents) as identities             → ok <a …> | dead
-/
open Mesa.CopySet

def words (s : String) : List String := (s.splitOn " ").filter (· ≠ "")

def nats (ws : List String) : Option (List Nat) := ws.mapM String.toNat?

def showView (v : List (Nat × Nat × Int × Nat) × List Nat) : String :=
  let last := match v.1.getLast? with | some (a, _, _, _) => toString a | none => "-"
  "ok " ++ " ".intercalate (v.1.map fun (a, u, x, m) => s!"{a}:{u}:{x}:{m}") ++ " | " ++ " ".intercalate (v.2.map toString)
    ++ s!" | len={v.1.length} last={last}"

def opLine (w : World) (ws : List String) : World × String :=
  match ws with
  | ["scenario", "sets"] => (init, "ok")
  | "model" :: rest =>
    match nats rest with
    | none => (w, "bad-op")
    | some sc => let (w', m) := newModel w sc; (w', s!"ok {m}")
  | ["create", m, v] =>
    match m.toNat?, v.toInt? with
    | some m, some v =>
      (match create w m v with
       | some (w', a, uid) => (w', s!"ok {a} {uid}")
       | none => (w, "err Dead"))
    | _, _ => (w, "bad-op")
  | ["remove", a] =>
    match a.toNat? with
    | some a => (match remove w a with | some w' => (w', "ok") | none => (w, "err Dead"))
    | none => (w, "bad-op")
  | ["setw", a, v] =>
    match a.toNat?, v.toInt? with
    | some a, some v => (match setW w a v with | some w' => (w', "ok") | none => (w, "err Dead"))
    | _, _ => (w, "bad-op")
  | "mkset" :: m :: rest =>
    match m.toNat?, nats rest with
    | some m, some as => (match mkSet w m as with | some (w', s) => (w', s!"ok {s}") | none => (w, "err Dead"))
    | _, _ => (w, "bad-op")
  | ["add", s, a] =>
    match s.toNat?, a.toNat? with
    | some s, some a =>
      if (w.sets s).isNone then (w, "err NoSet") else
      (match addTo w s a with | some w' => (w', "ok") | none => (w, "err Dead"))
    | _, _ => (w, "bad-op")
  | ["discard", s, a] =>
    match s.toNat?, a.toNat? with
    | some s, some a =>
      if (w.sets s).isNone then (w, "err NoSet") else
      (match discard w s a with | some w' => (w', "ok") | none => (w, "err Dead"))
    | _, _ => (w, "bad-op")
  | ["sortw", s] =>
    match s.toNat? with
    | some s => (match sortW w s with | some w' => (w', "ok") | none => (w, "err NoSet"))
    | none => (w, "bad-op")
  | ["shuffle", s] =>
    match s.toNat? with
    | some s => (match shuffleSet w s with | some w' => (w', "ok") | none => (w, "err NoSet"))
    | none => (w, "bad-op")
  | ["copy", s, how] =>
    if how = "deepcopy" || how = "pickle" then
      match s.toNat? with
      | some s => (match copySet w s with | some (w', s') => (w', s!"ok {s'} fresh") | none => (w, "err NoSet"))
      | none => (w, "bad-op")
    else (w, "bad-op")
  | ["members", s] =>
    match s.toNat? with
    | some s => (match view w s with | some v => (w, showView v) | none => (w, "err NoSet"))
    | none => (w, "bad-op")
  | ["reg", m] =>
    match m.toNat? with
    | some m => (match regView w m with | some l => (w, "ok " ++ " ".intercalate (l.map toString)) | none => (w, "dead"))
    | none => (w, "bad-op")
  | _ => (w, "bad-op")

partial def loop (h : IO.FS.Stream) (out : IO.FS.Stream) (w : World) : IO Unit := do
  let line ← h.getLine
  if line.isEmpty then return ()
  let (w', o) := opLine w (words line.trimAscii.toString)
  out.putStrLn o
  loop h out w'

def main : IO Unit := do
  let out ← IO.getStdout
  loop (← IO.getStdin) out init
  out.flush
