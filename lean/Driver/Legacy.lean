/-! stub: replaced by the Legacy group driver -/
def main : IO Unit := pure ()
