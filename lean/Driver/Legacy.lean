import MesaModel.Model.Legacy
import MesaModel.Model.LegacyNbhd
import MesaModel.Model.LegacySelect
import MesaModel.Model.LegacyPlaceRaw
import MesaModel.Model.LegacyTruth
/-!
Line-protocol driver for the legacy-grid model (C08, C09, C18-legacy).  One output line per input line.
Producer: harness/legacy_common.py.

  scenario grid single|multi|hexsingle|hexmulti W H TORUS LAYERS CUTOFF NAGENTS     reset
  scenario net N NAGENTS M a1 b1 … aM bM                                            reset (NetworkGrid)

grid ops (agents are 0..NAGENTS-1; `:` introduces the script of raw random draws)
  place a x y (any ints: Python indexing, no wrapping) | remove a | move a x y | swap a b | mte a [R<k>] : r… (R<k>: empties set reordered) |
  mto a random|closest|other none|warning|error K x1 y1 … xK yK : r…
  empties | exists | isempty x y (any ints: Python indexing) | mask | agents | iter | get x y | dump
  truth a b V | truth a l N   (the agent's class gets __bool__ returning V = 0|1 / __len__ returning N: bool(agent) = (value ≠ 0); an agent is truthy at first)
  geti x (grid[x]) | getl K x1 y1 … (grid[(x1,y1),…]) | gets IX IY (grid[ix, iy]; IX/IY = I<int> or S<start>/<stop>/<step>, _ = None)
  tadj x y (torus_adj) | oob x y (out_of_bounds) | coorditer (coord_iter(): x,y=content for every cell, in order)
  lset L x y v   (properties[name_L].set_cell((x, y), v); layers 0, 1 exist iff LAYERS = 1; any ints: numpy indexing)
  sel RL OE NM mask… NC cond… NE ext…   select_cells(masks, only_empty=OE, conditions, extreme_values, return_list=RL)
      mask = N/x/y/MOORE/IC/R (get_neighborhood_mask(…), computed left to right through the cache) | B/<bits> (an explicit array)
      cond = L/ge|le|eq|ne/k (lambda d: d >= k …) | ext = L/highest|lowest|<other>; layer names are distinct within a dict
  foreign a x y   (outside the quantifier: another grid of the same shape places the unplaced agent a, i.e. writes its pos)
  nbhd|inbhd x y MOORE IC R | nbrs|inbrs x y MOORE IC R | nmask x y MOORE IC R | clc|iclc K x1 y1 …
  hnbhd|ihnbhd x y IC R | hnbrs|ihnbrs x y IC R
net ops (node ids are naturals; a node id ≥ N does not exist)
  nplace a v | nremove a | nmove a v | nnbhd v IC R | nnbrs v IC R | nclc|niclc K v1 … | nallc | nagents | nisempty v | ndump
-/
open Mesa.Legacy

def words (s : String) : List String := (s.splitOn " ").filter (· ≠ "")

def fmtErr : Err → String
  | .full => "err Full" | .oob => "err OutOfBounds" | .type => "err Type" | .value => "err Value"
  | .noPos => "err NoPos" | .noEmpty => "err NoEmpty" | .script => "err Script" | .key => "err Key"
  | .index => "err Index" | .noNode => "err NoNode"

def fmtRes : Res → String
  | .ok => "ok"
  | .err e => fmtErr e

def fmtCoord (c : Coord) : String := s!"{c.1},{c.2}"
def fmtCoords (cs : List Coord) : String := " ".intercalate (cs.map fmtCoord)
def fmtIds (l : List Nat) : String := " ".intercalate (l.map toString)
def fmtCell (l : List Nat) : String := if l.isEmpty then "-" else ",".intercalate (l.map toString)
def fmtBits (l : List Bool) : String := String.join (l.map fun b => if b then "1" else "0")
def sp (s : String) : String := if s.isEmpty then "ok" else "ok " ++ s

def bool? (s : String) : Option Bool := if s = "1" then some true else if s = "0" then some false else none
def ints? (ws : List String) : Option (List Int) := ws.mapM String.toInt?
def nats? (ws : List String) : Option (List Nat) := ws.mapM String.toNat?

def pairs : List Int → Option (List Coord)
  | [] => some []
  | x :: y :: rest => (pairs rest).map ((x, y) :: ·)
  | _ => none

def npairs : List Nat → Option (List (Nat × Nat))
  | [] => some []
  | x :: y :: rest => (npairs rest).map ((x, y) :: ·)
  | _ => none

/-- split at the first ":" token -/
def splitScript (ws : List String) : Option (List String × List String) :=
  match ws.span (· ≠ ":") with
  | (a, _ :: b) => some (a, b)
  | _ => none

def optInt? (s : String) : Option (Option Int) := if s = "_" then some none else s.toInt?.map some

/-- `I<int>` or `S<start>/<stop>/<step>` -/
def ix? (s : String) : Option Grid.Ix :=
  if s.startsWith "I" then (s.drop 1).toString.toInt?.map Grid.Ix.int
  else if s.startsWith "S" then
    match ((s.drop 1).toString.splitOn "/").map optInt? with
    | [some a, some b, some c] => some (.slice ⟨a, b, c⟩)
    | _ => none
  else none

inductive St where
  | none
  | grid (g : Grid) (hex : Bool) (nag : Nat) (nc : NCache) (hc : HCache) (ls : Layers) (fz : Falsy)
  | net (t : Net) (nag : Nat)

def dumpGrid (g : Grid) (nag : Nat) : String :=
  let ps := (List.range nag).map fun a => match g.pos a with | some p => fmtCoord p | none => "-"
  let cs := g.allCells.filterMap fun c => if (g.content c).isEmpty then none else some (fmtCoord c ++ "=" ++ fmtCell (g.content c))
  s!"ok P {" ".intercalate ps} C {" ".intercalate cs} M {fmtBits (g.allCells.map g.mask)} E {fmtBits (g.allCells.map g.isCellEmpty)}"

def inGridB (g : Grid) (p : Coord) : Bool := !g.oob p

def sel? (s : String) : Grid.Selection :=
  if s = "random" then .random else if s = "closest" then .closest else .other

def he? (s : String) : Option Grid.HandleEmpty :=
  if s = "none" then some .none else if s = "warning" then some .warning else if s = "error" then some .error else Option.none

/-- one mask argument of `sel` -/
inductive MaskSpec where
  | nbhd (k : NKey)
  | bits (b : List Bool)

def maskSpec? (ncells : Nat) (s : String) : Option MaskSpec :=
  match s.splitOn "/" with
  | ["N", x, y, m, ic, r] =>
    match x.toInt?, y.toInt?, bool? m, bool? ic, r.toNat? with
    | some x, some y, some m, some ic, some r => some (.nbhd { pos := (x, y), moore := m, ic := ic, r := r })
    | _, _, _, _, _ => none
  | ["B", b] =>
    let bs := b.toList
    if bs.length = ncells && bs.all (fun c => c = '0' || c = '1') then some (.bits (bs.map (· = '1'))) else none
  | _ => none

def cond? (s : String) : Option Cond :=
  match s.splitOn "/" with
  | [l, c, k] =>
    let cmp : Option Cmp := if c = "ge" then some .ge else if c = "le" then some .le else if c = "eq" then some .eq
      else if c = "ne" then some .ne else none
    match l.toNat?, cmp, k.toInt? with
    | some l, some cmp, some k => some { layer := l, cmp := cmp, k := k }
    | _, _, _ => none
  | _ => none

def ext? (s : String) : Option Extreme :=
  match s.splitOn "/" with
  | [l, m] =>
    match l.toNat? with
    | some l => some { layer := l, mode := if m = "highest" then .highest else if m = "lowest" then .lowest else .other }
    | none => none
  | _ => none

/-- `k` items, then the rest -/
def takeN (ws : List String) : Option (List String × List String) :=
  match ws with
  | k :: rest =>
    match k.toNat? with
    | some k => if k ≤ rest.length then some (rest.take k, rest.drop k) else none
    | none => none
  | [] => none

/-- an explicit mask given cell by cell in `allCells` order -/
def bitsMask (g : Grid) (b : List Bool) : CMask := fun c =>
  match (g.allCells.zip b).lookup c with
  | some v => v
  | none => false

/-- the masks of a `sel` line, built left to right (each `get_neighborhood_mask` goes through the cache; on a hex class it
    raises TypeError) -/
def buildMasks (g : Grid) (hex : Bool) : NCache → List MaskSpec → NCache × Except Err (List CMask)
  | nc, [] => (nc, .ok [])
  | nc, .bits b :: rest =>
    match buildMasks g hex nc rest with
    | (nc', .ok ms) => (nc', .ok (bitsMask g b :: ms))
    | (nc', .error e) => (nc', .error e)
  | nc, .nbhd k :: rest =>
    if hex then (nc, .error .type) else
    match getNbhd g.dim nc k with
    | (nc1, .error e) => (nc1, .error e)
    | (nc1, .ok cells) =>
      match buildMasks g hex nc1 rest with
      | (nc', .ok ms) => (nc', .ok (nbhdMask cells :: ms))
      | (nc', .error e) => (nc', .error e)

def distinctLayers (l : List Nat) : Bool := l.eraseDups.length = l.length

def gridLine (g : Grid) (hex : Bool) (nag : Nat) (nc : NCache) (hc : HCache) (ls : Layers) (fz : Falsy) (ws : List String) : St × String :=
  let keep := St.grid g hex nag nc hc ls fz
  let bad : St × String := (keep, "bad-op")
  let upd (r : Grid × Res) : St × String := (St.grid r.1 hex nag nc hc ls fz, fmtRes r.2)
  let okA (a : Nat) : Bool := a < nag
  let clc (k : String) (rest : List String) : St × String :=
    match k.toNat?, (ints? rest).bind pairs with
    | some k, some cs =>
      if cs.length = k then
        match g.rawCells cs with
        | .ok cells => (keep, sp (fmtIds (cellsContentsT fz g cells)))
        | .error e => (keep, fmtErr e)
      else bad
    | _, _ => bad
  let showCells (r : Except Err (List Coord)) : St × String :=
    match r with
    | .ok cells => (keep, sp (" ".intercalate (cells.map fun c => fmtCell (g.content c))))
    | .error e => (keep, fmtErr e)
  match ws with
  | ["place", a, x, y] =>
    match a.toNat?, x.toInt?, y.toInt? with
    | some a, some x, some y => if okA a then upd (g.placeRaw a (x, y)) else bad   -- any ints: IndexError beyond, aliasing in -size..-1
    | _, _, _ => bad
  | ["remove", a] =>
    match a.toNat? with
    | some a => if okA a then upd (g.remove a) else bad
    | _ => bad
  | ["foreign", a, x, y] =>
    match a.toNat?, x.toInt?, y.toInt? with
    | some a, some x, some y =>
      if okA a && inGridB g (x, y) && (g.pos a).isNone then (St.grid (g.foreignPos a (x, y)) hex nag nc hc ls fz, "ok") else bad
    | _, _, _ => bad
  | ["move", a, x, y] =>
    match a.toNat?, x.toInt?, y.toInt? with
    | some a, some x, some y => if okA a then upd (g.move a (x, y)) else bad
    | _, _, _ => bad
  | ["swap", a, b] =>
    match a.toNat?, b.toNat? with
    | some a, some b => if okA a && okA b then upd (g.swap a b) else bad
    | _, _ => bad
  | "mte" :: a :: ":" :: rest =>
    match a.toNat?, nats? rest with
    | some a, some s => if okA a then upd (g.moveToEmpty a s) else bad
    | _, _ => bad
  | "mte" :: a :: rot :: ":" :: rest =>
    -- `mte a R<k>`: the implementation's empties set iterates in another order; the pick does not depend on it
    -- (C01_legacy_move_to_empty_pick_order_independent, C01_legacy_move_to_empty_is_the_model)
    match a.toNat?, (if rot.startsWith "R" then (rot.drop 1).toString.toNat? else none), nats? rest with
    | some a, some _, some s => if okA a then upd (g.moveToEmpty a s) else bad
    | _, _, _ => bad
  | "mto" :: a :: sel :: he :: k :: rest =>
    match a.toNat?, he? he, k.toNat?, splitScript rest with
    | some a, some he, some k, some (cs, sc) =>
      match (ints? cs).bind pairs, nats? sc with
      | some ps, some s => if okA a && ps.length = k then upd (g.moveToOneOf a ps (sel? sel) he s) else bad
      | _, _ => bad
    | _, _, _, _ => bad
  | ["empties"] => let r := g.readEmpties; (St.grid r.1 hex nag nc hc ls fz, sp (fmtCoords r.2))
  | ["exists"] => let r := g.existsEmpty; (St.grid r.1 hex nag nc hc ls fz, if r.2 then "ok 1" else "ok 0")
  | ["isempty", x, y] =>
    match x.toInt?, y.toInt? with
    | some x, some y =>
      match g.isCellEmptyRaw (x, y) with
      | .ok b => (keep, if b then "ok 1" else "ok 0")
      | .error e => (keep, fmtErr e)
    | _, _ => bad
  | ["geti", x] =>
    match x.toInt? with
    | some x => showCells (g.getColumn x)
    | _ => bad
  | "getl" :: k :: rest =>
    match k.toNat?, (ints? rest).bind pairs with
    | some k, some ps => if ps.length = k then showCells (g.getMany ps) else bad
    | _, _ => bad
  | ["gets", ix, iy] =>
    match ix? ix, ix? iy with
    | some ix, some iy => showCells (g.getItem2 ix iy)
    | _, _ => bad
  | ["tadj", x, y] =>
    match x.toInt?, y.toInt? with
    | some x, some y =>
      match g.torusAdj (x, y) with
      | .ok c => (keep, "ok " ++ fmtCoord c)
      | .error e => (keep, fmtErr e)
    | _, _ => bad
  | ["oob", x, y] =>
    match x.toInt?, y.toInt? with
    | some x, some y => (keep, if g.oob (x, y) then "ok 1" else "ok 0")
    | _, _ => bad
  | ["mask"] => (keep, sp (fmtBits (g.allCells.map g.mask)))
  | ["agents"] => (keep, sp (fmtIds (g.agentsListT fz)))   -- with the emptiness test of the generated table (`is None` since the fix of L-AGENTS-FALSY)
  | ["truth", a, k, v] =>
    -- the agent's class gets `__bool__` returning v (k = b, v = 0|1) or `__len__` returning v (k = l): bool(agent) = (v ≠ 0)
    match a.toNat?, v.toNat? with
    | some a, some v =>
      if okA a && ((k = "b" && v ≤ 1) || k = "l") then (St.grid g hex nag nc hc ls (setTruth fz a (v != 0)), "ok") else bad
    | _, _ => bad
  | ["iter"] => (keep, sp (" ".intercalate (g.allCells.map fun c => fmtCell (g.content c))))
  | ["get", x, y] =>
    match x.toInt?, y.toInt? with
    | some x, some y =>
      match g.getItem (x, y) with
      | .ok l => (keep, "ok " ++ fmtCell l)
      | .error e => (keep, fmtErr e)
    | _, _ => bad
  | ["dump"] => (keep, dumpGrid g nag)
  | ["coorditer"] => (keep, sp (" ".intercalate (g.coordIter.map fun e => fmtCoord e.2 ++ "=" ++ fmtCell e.1)))
  | ["lset", l, x, y, v] =>
    match l.toNat?, x.toInt?, y.toInt?, v.toInt? with
    | some l, some x, some y, some v =>
      let r := g.layerSet ls l (x, y) v
      (St.grid g hex nag nc hc r.1 fz, fmtRes r.2)
    | _, _, _, _ => bad
  | "sel" :: rl :: oe :: rest =>
    match bool? rl, bool? oe, takeN rest with
    | some rl, some oe, some (mws, rest1) =>
      match takeN rest1 with
      | some (cws, rest2) =>
        match takeN rest2 with
        | some (ews, []) =>
          match mws.mapM (maskSpec? g.allCells.length), cws.mapM cond?, ews.mapM ext? with
          | some mss, some conds, some exts =>
            if !(distinctLayers (conds.map (·.layer)) && distinctLayers (exts.map (·.layer))) then bad else
            let (nc', ms) := buildMasks g hex nc mss
            let st := St.grid g hex nag nc' hc ls fz
            match ms with
            | .error e => (st, fmtErr e)
            | .ok masks =>
              if rl then
                match g.selectCells ls masks oe conds exts with
                | .ok cells => (st, sp (fmtCoords cells))
                | .error e => (st, fmtErr e)
              else
                match g.selectMask ls masks oe conds exts with
                | .ok m => (st, sp (fmtBits (g.allCells.map m)))
                | .error e => (st, fmtErr e)
          | _, _, _ => bad
        | _ => bad
      | none => bad
    | _, _, _ => bad
  | "clc" :: k :: rest => clc k rest
  | "iclc" :: k :: rest => clc k rest
  | [op, x, y, m, ic, r] =>
    -- `get_neighborhood_mask` on a hex grid passes four arguments to the three-argument hex `get_neighborhood`: TypeError
    if hex then (if op = "nmask" && (x.toInt?.isSome && y.toInt?.isSome && (bool? m).isSome && (bool? ic).isSome && r.toNat?.isSome)
                 then (keep, "err Type") else bad) else
    match x.toInt?, y.toInt?, bool? m, bool? ic, r.toNat? with
    | some x, some y, some m, some ic, some r =>
      if op = "nbhd" || op = "inbhd" || op = "nbrs" || op = "inbrs" || op = "nmask" then
        let (nc', res) := getNbhd g.dim nc { pos := (x, y), moore := m, ic := ic, r := r }
        let st := St.grid g hex nag nc' hc ls fz
        match res with
        | .error e => (st, fmtErr e)
        | .ok cells =>
          if op = "nbhd" || op = "inbhd" then (st, sp (fmtCoords cells))
          else if op = "nmask" then (st, sp (fmtBits (g.allCells.map fun c => decide (c ∈ cells))))
          else (st, sp (fmtIds (cellsContentsT fz g cells)))
      else bad
    | _, _, _, _, _ => bad
  | [op, x, y, ic, r] =>
    if !hex then bad else
    match x.toInt?, y.toInt?, bool? ic, r.toNat? with
    | some x, some y, some ic, some r =>
      if op = "hnbhd" || op = "ihnbhd" || op = "hnbrs" || op = "ihnbrs" then
        let (hc', cells) := getHexNbhd g.dim hc { pos := (x, y), ic := ic, r := r }
        let st := St.grid g hex nag nc hc' ls fz
        if op = "hnbhd" || op = "ihnbhd" then (st, sp (fmtCoords cells))
        else match hexNeighborsT fz g cells with
          | .ok l => (st, sp (fmtIds l))
          | .error e => (st, fmtErr e)
      else bad
    | _, _, _, _ => bad
  | _ => bad

def netQuery (t : Net) (nag : Nat) (op : String) (args : List String) : St × String :=
  let keep := St.net t nag
  let bad : St × String := (keep, "bad-op")
  match op, args with
  | "nisempty", [v] =>
    match v.toNat? with
    | some v =>
      match t.isCellEmpty v with
      | .ok b => (keep, if b then "ok 1" else "ok 0")
      | .error e => (keep, fmtErr e)
    | _ => bad
  | op, [v, ic, r] =>
    match v.toNat?, bool? ic, r.toNat? with
    | some v, some ic, some r =>
      if op = "nnbhd" || op = "nnbrs" then
        match t.nbhdChecked v ic r with
        | .error e => (keep, fmtErr e)
        | .ok l => if op = "nnbhd" then (keep, sp (fmtIds l)) else (keep, sp (fmtIds (t.cellsContents l)))
      else bad
    | _, _, _ => bad
  | _, _ => bad

def netLine (t : Net) (nag : Nat) (ws : List String) : St × String :=
  let keep := St.net t nag
  let bad : St × String := (keep, "bad-op")
  let upd (r : Net × Res) : St × String := (St.net r.1 nag, fmtRes r.2)
  match ws with
  | ["nplace", a, v] =>
    match a.toNat?, v.toNat? with
    | some a, some v => if a < nag then upd (t.place a v) else bad
    | _, _ => bad
  | ["nremove", a] =>
    match a.toNat? with
    | some a => if a < nag then upd (t.remove a) else bad
    | _ => bad
  | ["nmove", a, v] =>
    match a.toNat?, v.toNat? with
    | some a, some v => if a < nag then upd (t.move a v) else bad
    | _, _ => bad
  | op :: k :: rest =>
    if op = "nclc" || op = "niclc" then
      match k.toNat?, nats? rest with
      | some k, some vs =>
        if vs.length = k then
          match t.getCellListContents vs with
          | .ok l => (keep, sp (fmtIds l))
          | .error e => (keep, fmtErr e)
        else bad
      | _, _ => bad
    else netQuery t nag op (k :: rest)
  | ["nallc"] => (keep, sp (fmtIds t.getAllCellContents))
  | ["nagents"] => (keep, sp (fmtIds t.agentsList))
  | ["ndump"] =>
    let ps := (List.range nag).map fun a => match t.pos a with | some v => toString v | none => "-"
    let cs := (List.range t.n).filterMap fun v => if (t.content v).isEmpty then none else some (toString v ++ "=" ++ fmtCell (t.content v))
    (keep, s!"ok P {" ".intercalate ps} C {" ".intercalate cs}")
  | _ => bad

def stepLine (st : St) (ws : List String) : St × String :=
  match ws with
  | ["scenario", "grid", kind, w, h, torus, layers, cutoff, nag] =>
    let km : Option (Bool × Bool) :=      -- (multi, hex)
      if kind = "single" then some (false, false) else if kind = "multi" then some (true, false)
      else if kind = "hexsingle" then some (false, true) else if kind = "hexmulti" then some (true, true) else none
    match km, w.toNat?, h.toNat?, bool? torus, bool? layers, cutoff.toNat?, nag.toNat? with
    | some (multi, hex), some w, some h, some torus, some layers, some cutoff, some nag =>
      if w ≥ 1 && h ≥ 1 then (St.grid (init w h torus multi cutoff) hex nag [] [] (Layers.init (if layers then 2 else 0)) [], "ok") else (st, "bad-op")
    | _, _, _, _, _, _, _ => (st, "bad-op")
  | "scenario" :: "net" :: n :: nag :: m :: rest =>
    match n.toNat?, nag.toNat?, m.toNat?, (nats? rest).bind npairs with
    | some n, some nag, some m, some es =>
      if es.length = m && es.all (fun e => e.1 < n && e.2 < n && e.1 ≠ e.2) then (St.net (Net.init n es) nag, "ok") else (st, "bad-op")
    | _, _, _, _ => (st, "bad-op")
  | _ =>
    match st with
    | .none => (st, "bad-op")
    | .grid g hex nag nc hc ls fz => gridLine g hex nag nc hc ls fz ws
    | .net t nag => netLine t nag ws

partial def loop (h : IO.FS.Stream) (out : IO.FS.Stream) (st : St) : IO Unit := do
  let line ← h.getLine
  if line.isEmpty then return ()
  let (st', o) := stepLine st (words line.trimAscii.toString)
  out.putStrLn o
  loop h out st'

def main : IO Unit := do
  let out ← IO.getStdout
  loop (← IO.getStdin) out .none
  out.flush
