import MesaModel.Model.CopyOcc
/-!
Line-protocol driver for the cell-space half of C19 at identity level (`Model/CopyOcc.lean`).  Objects are named by their
identities; the harness allocates the same identities in the same order (the pair space/model, then its `k` cells; one
identity per agent; `old + next` for every object reconstructed by a copy).

  scenario occ                          reset
  space <k> <cap|-> <spec> <i>j …>      a space of k cells; i>j: cell number i is connected to cell number j (in dict order);
                                        <spec> tells the harness which mesa space to build; the model only reads whether it
                                        is a network (`net:…`: plain cells) or a grid (one cell class per grid)        → ok <s>
  agent <s>                             CellAgent(model of s)                      → ok <a> <unique_id> | err NoSpace
  set <a> <c>                           a.cell = c      → ok | err NoAgent | err NoCell | err Foreign | err Full
  unset <a> | remove <a>                a.cell = None | a.remove()                  → ok | err NoAgent
  copy <s> deepcopy|pickle              the copy is space <s + next>                → ok <s'> fresh | err NoSpace
  look <s>                              c:idx:cap:listed agents:connection targets:generator:class … | a:unique_id:cell … | empty cells … | a …
                                        last part: the agents as the space's cell collection lists them (`space.all_cells.agents`)
                                        generator / class: the pair whose generator / cell class the cell uses (class `-`: plain Cell)
-/
open Mesa.CopyOcc

def words (s : String) : List String := (s.splitOn " ").filter (· ≠ "")

def pairOf (t : String) : Option (Nat × Nat) :=
  match t.splitOn ">" with
  | [i, j] =>
    match i.toNat?, j.toNat? with
    | some i, some j => some (i, j)
    | _, _ => none
  | _ => none

def capOf (t : String) : Option (Option Nat) :=
  if t = "-" then some none else t.toNat?.map some

def dots (l : List Nat) : String := ".".intercalate (l.map toString)

def showCap : Option Nat → String
  | some k => toString k
  | none => "-"

def showLook (v : List (Nat × Nat × Option Nat × List Nat × List Nat × Nat × Option Nat) × List (Nat × Nat × Option Nat))
    (e : List Nat) : String :=
  "ok " ++ " ".intercalate (v.1.map fun (c, i, cap, ags, conn, rnd, kl) =>
      s!"{c}:{i}:{showCap cap}:{dots ags}:{dots conn}:{rnd}:{showCap kl}")
    ++ " | " ++ " ".intercalate (v.2.map fun (a, u, c) => s!"{a}:{u}:{showCap c}")
    ++ " | " ++ " ".intercalate (e.map toString)
    ++ " | " ++ " ".intercalate ((v.1.flatMap fun (_, _, _, ags, _, _, _) => ags).map toString)

def showRes : Res → String
  | .ok => "ok"
  | .noAgent => "err NoAgent"
  | .noCell => "err NoCell"
  | .foreign => "err Foreign"
  | .full => "err Full"

def opLine (w : World) (ws : List String) : World × String :=
  match ws with
  | ["scenario", "occ"] => (init, "ok")
  | "space" :: k :: cap :: spec :: rest =>
    match k.toNat?, capOf cap, rest.mapM pairOf with
    | some k, some cap, some pairs =>
      if pairs.all fun p => p.1 < k && p.2 < k then
        let (w', s) := newSpace w k cap (!spec.startsWith "net") pairs
        (w', s!"ok {s}")
      else (w, "bad-op")
    | _, _, _ => (w, "bad-op")
  | ["agent", s] =>
    match s.toNat? with
    | some s => (match newAgent w s with | some (w', a, uid) => (w', s!"ok {a} {uid}") | none => (w, "err NoSpace"))
    | none => (w, "bad-op")
  | ["set", a, c] =>
    match a.toNat?, c.toNat? with
    | some a, some c => let (w', r) := setCell w a c; (w', showRes r)
    | _, _ => (w, "bad-op")
  | ["unset", a] =>
    match a.toNat? with
    | some a => (match unsetCell w a with | some w' => (w', "ok") | none => (w, "err NoAgent"))
    | none => (w, "bad-op")
  | ["remove", a] =>
    match a.toNat? with
    | some a => (match remove w a with | some w' => (w', "ok") | none => (w, "err NoAgent"))
    | none => (w, "bad-op")
  | ["copy", s, how] =>
    if how = "deepcopy" || how = "pickle" then
      match s.toNat? with
      | some s => (match copySpace w s with | some (w', s') => (w', s!"ok {s'} fresh") | none => (w, "err NoSpace"))
      | none => (w, "bad-op")
    else (w, "bad-op")
  | ["look", s] =>
    match s.toNat? with
    | some s =>
      (match view w s, empties w s with
       | some v, some e => (w, showLook v e)
       | _, _ => (w, "err NoSpace"))
    | none => (w, "bad-op")
  | _ => (w, "bad-op")

partial def loop (h : IO.FS.Stream) (out : IO.FS.Stream) (w : World) : IO Unit := do
  let line ← h.getLine
  if line.isEmpty then return ()
  let (w', o) := opLine w (words line.trimAscii.toString)
  out.putStrLn o
  loop h out w'

def main : IO Unit := do
  let out ← IO.getStdout
  loop (← IO.getStdin) out init
  out.flush
