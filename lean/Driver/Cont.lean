/-! stub: replaced by the Cont group driver -/
def main : IO Unit := pure ()
