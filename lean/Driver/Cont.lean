import MesaModel.Model.Cont
/-!
Line-protocol driver for the continuous-space models (C10, C18-cont).
One output line per input line.  Coordinates and radii are ints in units of 1/64,
squared distances ints in units of 1/4096.  See harness/cont_common.py for the producer.

  (S = how the harness passes coordinates to the implementation; no meaning for the model:
   legacy f = float tuples, i = ints where integral, a = numpy arrays; exp a = arrays, l = lists)
  scenario legacy S T xmin xmax ymin ymax        (T = 0|1 torus)
    place a x y | move a x y | remove a | pos a | agents
    setpos a x y   (agent.pos = (x, y) written by the user directly, not through the space)
    nbrs x y r incl | dist x1 y1 x2 y2 | heading x1 y1 x2 y2 | oob x y | adj x y
  scenario exp S T cap lo hi [lo hi …]            (one lo hi pair per axis: any number of dimensions ≥ 1)
    new a | set a x… | get a | remove a | agents            (agent-level: `err Attr` on a removed agent object)
    iadd a dx…   (agent.position += d) | poke a j x   (p = agent.position; p[j] = x)
    raw i x…     (space.agent_positions[i] = x: a user write through the public view)
    compat a x…  (agent.pos = x: the solara-compatibility setter, which ignores the value)
    hold k       (v_k = space.agent_positions: the user keeps a reference; answer `ok len=n`)
    hread k      (the rows v_k shows now) | hraw k i x…  (v_k[i] = x)
    radius x… r | knn x… k | nir a r | nn a k
    dists x… [: a b …] | diffs x… [: a b …] | inb x… | correct x…
  Points may have the wrong number of coordinates (numpy broadcasting / `ValueError`: `bcast`, `queryPoint` in the model);
  not modelled and `bad-op`: empty vectors, wrong lengths on a 1-D space, wrong lengths for `compat` / `hraw`.
-/
open Mesa.Cont

def words (s : String) : List String := (s.splitOn " ").filter (· ≠ "")

def ints (ws : List String) : Option (List Int) := ws.mapM String.toInt?
def nats (ws : List String) : Option (List Nat) := ws.mapM String.toNat?

def commas (xs : List String) : String := ",".intercalate xs

def fmtErr : Err → String
  | .oob => "err OutOfBounds"
  | .notIn => "err NotInSpace"
  | .key => "err Key"
  | .index => "err Index"
  | .value => "err Value"
  | .type => "err Type"
  | .attr => "err Attr"

def sortNat (l : List Nat) : List Nat := l.mergeSort (fun a b => decide (a ≤ b))

def fmtPos (p : List Int) : String := commas (p.map toString)

/-- pairs sorted by agent id -/
def fmtPairs (l : List (Aid × Int)) : String :=
  commas ((l.mergeSort (fun a b => decide (a.1 ≤ b.1))).map fun ad => s!"{ad.1}:{ad.2}")

def fmtVecs (l : List (Aid × Pos)) : String :=
  commas (l.map fun av => s!"{av.1}:" ++ ";".intercalate (av.2.map toString))

/-- canonical form of a k-nearest answer: (d2, agent) sorted; agents at the largest returned
    distance are anonymous (`*`) if an agent at that same distance was left out (`all` = all distances) -/
def knnCanon (all : List Int) (res : List (Aid × Int)) : Bool × List (Int × Option Aid) :=
  match res.map (·.2) |>.max? with
  | none => (false, [])
  | some m =>
    let tie := (res.filter (·.2 = m)).length < (all.filter (· = m)).length
    (tie, res.map fun ad => (ad.2, if tie && ad.2 = m then none else some ad.1))

def fmtKnn (l : List (Int × Option Aid)) : String :=
  let key : Int × Option Aid → Int × Nat := fun x => (x.1, match x.2 with | none => 0 | some a => a + 1)
  let sorted := l.mergeSort (fun a b => decide ((key a).1 < (key b).1 ∨ ((key a).1 = (key b).1 ∧ (key a).2 ≤ (key b).2)))
  commas (sorted.map fun x => s!"{x.1}:" ++ (match x.2 with | none => "*" | some a => toString a))

inductive St where
  | none
  | leg (s : LSpace)
  | exp (h : HSpace) (nd : Nat) (slots : List (Nat × Held))

def splitColon (ws : List String) : List String × Option (List String) :=
  match ws.span (· ≠ ":") with
  | (a, []) => (a, none)
  | (a, _ :: b) => (a, some b)

def stepLeg (s : LSpace) (ws : List String) : LSpace × String :=
  match ws with
  | ["place", a, x, y] =>
    match a.toNat?, x.toInt?, y.toInt? with
    | some a, some x, some y =>
      match place s a (x, y) with
      | .ok s' => (s', "ok")
      | .error e => (s, fmtErr e)
    | _, _, _ => (s, "bad-op")
  | ["move", a, x, y] =>
    match a.toNat?, x.toInt?, y.toInt? with
    | some a, some x, some y =>
      match move s a (x, y) with
      | (s', .ok _) => (s', "ok")
      | (s', .error e) => (s', fmtErr e)
    | _, _, _ => (s, "bad-op")
  | ["remove", a] =>
    match a.toNat? with
    | some a =>
      match remove s a with
      | .ok s' => (s', "ok")
      | .error e => (s, fmtErr e)
    | none => (s, "bad-op")
  | ["pos", a] =>
    match a.toNat? with
    | some a => (s, match s.pos a with | none => "ok pos=None" | some p => s!"ok pos={p.1},{p.2}")
    | none => (s, "bad-op")
  | ["agents"] => (s, "ok agents=" ++ commas ((sortNat s.agents).map toString))
  | ["setpos", a, x, y] =>
    match a.toNat?, x.toInt?, y.toInt? with
    | some a, some x, some y => (lpoke s a (x, y), "ok")
    | _, _, _ => (s, "bad-op")
  | ["nbrs", x, y, r, incl] =>
    match x.toInt?, y.toInt?, r.toInt?, incl.toNat? with
    | some x, some y, some r, some i =>
      if i > 1 then (s, "bad-op") else
      match getNeighbors s (x, y) r (i == 1) with
      | (s', .ok l) => (s', "ok nbrs=" ++ commas ((sortNat l).map toString))
      | (s', .error e) => (s', fmtErr e)
    | _, _, _, _ => (s, "bad-op")
  | ["dist", x1, y1, x2, y2] =>
    match ints [x1, y1, x2, y2] with
    | some [x1, y1, x2, y2] => (s, s!"ok d2={ldist2 s.cfg (x1, y1) (x2, y2)}")
    | _ => (s, "bad-op")
  | ["heading", x1, y1, x2, y2] =>
    match ints [x1, y1, x2, y2] with
    | some [x1, y1, x2, y2] => let h := lheading s.cfg (x1, y1) (x2, y2); (s, s!"ok h={h.1},{h.2}")
    | _ => (s, "bad-op")
  | ["oob", x, y] =>
    match x.toInt?, y.toInt? with
    | some x, some y => (s, if oob s.cfg (x, y) then "ok 1" else "ok 0")
    | _, _ => (s, "bad-op")
  | ["adj", x, y] =>
    match x.toInt?, y.toInt? with
    | some x, some y =>
      match torusAdj s.cfg (x, y) with
      | .ok p => (s, s!"ok pos={p.1},{p.2}")
      | .error e => (s, fmtErr e)
    | _, _ => (s, "bad-op")
  | _ => (s, "bad-op")

def fmtRes (r : Except Err (List (Aid × Int))) : String :=
  match r with
  | .ok l => "ok res=" ++ fmtPairs l
  | .error e => fmtErr e

/-- vectors the model does not speak about: empty ones, and wrong lengths on a 1-D space -/
def badLen (nd : Nat) (p : List Int) : Bool := p.isEmpty || (nd == 1 && p.length != 1)

def stepExp (s : ESpace) (nd : Nat) (ws : List String) : ESpace × String :=
  let bad := (s, "bad-op")
  match ws with
  | ["new", a] =>
    match a.toNat? with
    | some a => if (s.a2i a).isSome || s.gone a then bad else (estep s (.new a), "ok")
    | none => bad
  | "set" :: a :: xs =>
    match a.toNat?, ints xs with
    | some a, some p =>
      if badLen nd p then bad else
      match agentSetVW false s a p with
      | (s', .ok _) => (s', "ok")
      | (s', .error e) => (s', fmtErr e)
    | _, _ => bad
  | "iadd" :: a :: xs =>
    match a.toNat?, ints xs with
    | some a, some v =>
      if badLen nd v then bad else
      -- the state after the call is the model's also when the call raises (nothing is put back here)
      match agentIaddVW false s a v with
      | (s', .ok _) => (s', "ok")
      | (s', .error e) => (s', fmtErr e)
    | _, _ => bad
  | ["poke", a, j, x] =>
    match a.toNat?, j.toNat?, x.toInt? with
    | some a, some j, some _ => (s, match agentPoke s a j with | .ok _ => "ok" | .error e => fmtErr e)
    | _, _, _ => bad
  | "raw" :: i :: xs =>
    match i.toNat?, ints xs with
    | some i, some p =>
      if badLen nd p then bad else
      match rawWriteV s i p with
      | .ok s' => (s', "ok")
      | .error e => (s, fmtErr e)
    | _, _ => bad
  | "compat" :: a :: xs =>
    match a.toNat?, ints xs with
    | some _, some p => if p.length ≠ nd then bad else (s, "ok")
    | _, _ => bad
  | ["get", a] =>
    match a.toNat? with
    | some a => (s, match agentGet s a with | .ok p => "ok pos=" ++ fmtPos p | .error e => fmtErr e)
    | none => bad
  | ["remove", a] =>
    match a.toNat? with
    | some a =>
      match agentRemove s a with
      | .ok s' => (s', "ok")
      | .error e => (s, fmtErr e)
    | none => bad
  | ["agents"] => (s, "ok agents=" ++ commas ((sortNat s.active).map toString))
  | "radius" :: xs =>
    match ints xs with
    | some v =>
      match v.getLast? with
      | some r =>
        if badLen nd v.dropLast then bad else (s, fmtRes (agentsInRadiusV s v.dropLast r))
      | none => bad
    | none => bad
  | "knn" :: xs =>
    match ints xs.dropLast, xs.getLast?.bind String.toNat? with
    | some pt, some k =>
      if badLen nd pt then bad else
      match kNearestV argsortPart s pt k, queryPoint s true pt with
      | .ok l, .ok q => (s, "ok res=" ++ fmtKnn (knnCanon (calcD2 s q) l).2)
      | .error e, _ => (s, fmtErr e)
      | _, .error e => (s, fmtErr e)
    | _, _ => bad
  | ["nir", a, r] =>
    match a.toNat?, r.toInt? with
    | some a, some r => (s, fmtRes (agentNir s a r))
    | _, _ => bad
  | ["nn", a, k] =>
    match a.toNat?, k.toNat? with
    | some a, some k =>
      match agentGet s a with
      | .error e => (s, fmtErr e)
      | .ok p =>
        match kNearest argsortPart s p (k + 1) with
        | .error e => (s, fmtErr e)
        | .ok l =>
          let (tie, can) := knnCanon (calcD2 s p) l
          if tie && (l.map (·.2)).max? = some 0 then (s, "ok res=ambiguous")
          else (s, "ok res=" ++ fmtKnn (can.filter fun x => x.2 ≠ some a))
    | _, _ => bad
  | "dists" :: rest =>
    match splitColon rest with
    | (xs, sub) =>
      match ints xs, (match sub with | none => some none | some l => (nats l).map some) with
      | some pt, some sub =>
        if badLen nd pt then bad else
        match distancesOfV s pt sub with
        | .ok l => (s, "ok res=" ++ (match sub with
                                     | none => fmtPairs l
                                     | some _ => commas (l.map fun ad => s!"{ad.1}:{ad.2}")))
        | .error e => (s, fmtErr e)
      | _, _ => bad
  | "diffs" :: rest =>
    match splitColon rest with
    | (xs, sub) =>
      match ints xs, (match sub with | none => some none | some l => (nats l).map some) with
      | some pt, some sub =>
        if badLen nd pt then bad else
        match diffsOfV s pt sub with
        | .ok l => (s, "ok res=" ++ fmtVecs (match sub with
                                             | none => l.mergeSort (fun a b => decide (a.1 ≤ b.1))
                                             | some _ => l))
        | .error e => (s, fmtErr e)
      | _, _ => bad
  | "inb" :: xs =>
    match ints xs with
    | some p =>
      if badLen nd p then bad else
      (s, match inBoundsV s p with | .ok b => (if b then "ok 1" else "ok 0") | .error e => fmtErr e)
    | none => bad
  | "correct" :: xs =>
    match ints xs with
    | some p =>
      if badLen nd p then bad else
      (s, match torusCorrectV s p with | .ok q => "ok pos=" ++ fmtPos q | .error e => fmtErr e)
    | none => bad
  | _ => bad

def pairs : List Int → Option (List (Int × Int))
  | [] => some []
  | lo :: hi :: rest => if lo < hi then (pairs rest).map ((lo, hi) :: ·) else none
  | _ => none

def stepLine (st : St) (ws : List String) : St × String :=
  match ws with
  | "scenario" :: "legacy" :: style :: rest =>
    match ints rest with
    | some [t, xmin, xmax, ymin, ymax] =>
      if style ∈ ["f", "i", "a"] ∧ (t = 0 ∨ t = 1) ∧ xmin < xmax ∧ ymin < ymax then
        (.leg (linit { xmin, xmax, ymin, ymax, torus := t == 1 }), "ok")
      else (st, "bad-op")
    | _ => (st, "bad-op")
  | "scenario" :: "exp" :: style :: t :: cap :: rest =>
    match t.toNat?, cap.toNat?, (ints rest).bind pairs with
    | some t, some cap, some dims =>
      if style ∈ ["a", "l"] ∧ t ≤ 1 ∧ 1 ≤ dims.length then
        (.exp (hinit { dims, torus := t == 1 } cap) dims.length [], "ok")
      else (st, "bad-op")
    | _, _, _ => (st, "bad-op")
  | _ =>
    match st with
    | .none => (st, "bad-op")
    | .leg s => let (s', o) := stepLeg s ws; (.leg s', o)
    | .exp h nd slots =>
      match ws with
      | ["hold", k] =>
        match k.toNat? with
        | some k => let v := holdView h.sp; (.exp h nd ((k, v) :: slots.filter (·.1 ≠ k)), s!"ok len={v.len}")
        | none => (st, "bad-op")
      | ["hread", k] =>
        match k.toNat?.bind (fun k => slots.lookup k) with
        | some v => (st, "ok rows=" ++ ";".intercalate ((h.read v).map fmtPos))
        | none => (st, "bad-op")
      | "hraw" :: k :: i :: xs =>
        match k.toNat?.bind (fun k => slots.lookup k), i.toNat?, ints xs with
        | some v, some i, some p =>
          if p.length ≠ nd then (st, "bad-op") else
          match h.write v i p with
          | .ok h' => (.exp h' nd slots, "ok")
          | .error e => (st, fmtErr e)
        | _, _, _ => (st, "bad-op")
      | _ => let (s', o) := stepExp h.sp nd ws; (.exp (h.advance s') nd slots, o)

partial def loop (h : IO.FS.Stream) (out : IO.FS.Stream) (st : St) : IO Unit := do
  let line ← h.getLine
  if line.isEmpty then return ()
  let (st', o) := stepLine st (words line.trimAscii.toString)
  out.putStrLn o
  loop h out st'

def main : IO Unit := do
  let out ← IO.getStdout
  loop (← IO.getStdin) out .none
  out.flush
