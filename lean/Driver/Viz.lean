import MesaModel.Model.Viz
import MesaModel.Model.VizLayers
import MesaModel.Model.VizAltair
import MesaModel.Model.VizInputs
import MesaModel.Model.VizKwargs
import MesaModel.Model.VizSize
import MesaModel.Model.VizCtrl
import MesaModel.Model.VizNet
import MesaModel.Model.VizFrame
import MesaModel.Model.VizPlot
/-!
Line-protocol driver for the Viz model (C20).  One output line per input line.
Producer: harness/viz_common.py.

  scenario space FAM W H [ints…]     reset; FAM ∈ single multi hexs hexm moore vn hex netgrid net vor cs xcs;
                                     extra ints: network node labels in graph order / Voronoi centroids x y x y … /
                                     for `cs` optionally the origin X0 Y0 (x_min, y_min; positions are relative to it)
  scenario params                    reset

 space scenarios
  dict R k=v k=v …                   (re)define heap dict R (R ≤ number of dicts)
  portray A R | portray A -          the portrayal returns dict R (or a fresh empty dict) for agent A
  place A X Y | move A X Y | remove A | ghost A
  collect | collectd COLOR SIZE MARKER ZORDER
  draw | altair | heap | drawc | altairc   (…c: through the solara component)
  drawk K=V …                        draw_space(…, **{K: V}), K ∈ alpha edgecolors linewidths (plotting keyword arguments)
  drawnet N:X:Y …                    networks: draw_space(…, layout_alg=<callable returning {N: (X, Y), …}>, layout_kwargs={…}, draw_grid=False);
                                     the markers at their layout positions, `size=` the default size
  frame                              the axis limits draw_space asks for (hex grids in units of √3/2, 1/2; continuous spaces relative to
                                     their origin; `-` for networks)
  sdefault                           the size of the markers of agents whose portrayal names none (`none` without agents)
  drawc0 | altairc0                  the components without a portrayal (their defaults: `{}`, `{"id": unique_id}`)
  layer v…                           property layer `v`: values, x-major (W*H ints);  layern NAME v…: layer NAME
  drawlayers SPEC…                   SPEC = NAME:MODE:ALPHA:VMIN:VMAX:CBAR, MODE ∈ color=C cmap=C none, ALPHA percent,
                                     VMIN / VMAX ints, CBAR ∈ y n; `-` for a key the portrayal leaves out
  drawsp SPEC…                       draw_space(space, portrayal, propertylayer_portrayal={SPEC…}): agents, then layers
  drawlayer cmap|color|cmapauto|colorauto     short for  drawlayers v:cmap=viridis|color=red:-:0|-:9|-:n

 params scenarios
  sig NAME:KIND:d|n …                KIND ∈ po pk vp ko vk
  check KEY…
  checks KEY…                        the check told that the caller passes `simulator=` anyway (extra_keywords=("simulator",))
  split KEY:slider | KEY:val | KEY:dict[+k…] …
  creator (same tokens)
  inputs NAME:SPEC …                 ModelCreator rendered on the full parameter dict; SPEC ∈ slider/i|f/VALUE/LABEL,
                                     spec/TYPE/VALUE/LABEL (a dict with "type"; VALUE, LABEL: `-` if absent), fdict (a dict
                                     without "type"), val/VALUE
  change NAME VALUE                  the input of parameter NAME reports VALUE (after a successful `inputs`)

 plot scenarios (the measure plots)
  scenario plot                      reset
  data M=v,v,… …                     the model variables collected so far: measure M with its values (all of one length)
  plot str M | dict M:COLOR … | list M … | tuple M … | other
                                     PlotMatplotlib(model, measure): `ok ylabel=M|- legend=y|n | LABEL|-,COLOR|-,v+v+… | …` or `err Key M`
  backend NAME                       make_plot_component("m", backend=NAME): ok | err NotImplemented | err Value

 ctrl scenarios (the controls of SolaraViz; the model class is `running` while steps < its `stop` argument — also at
 step 0: created with stop=0 it stops in its constructor)
  scenario ctrl model|sim [P:KIND:d|n …]
                                     reset; ModelController / SimulatorController (ABMSimulator); the parameters of the model
                                     class' __init__ after `self` (absent: `**kw`, for sim `simulator=None, **kw`)
  viz R T STOP0 NAME:SPEC …          SolaraViz(Model(stop=STOP0), model_params={NAME: SPEC …}, render_interval=R, use_threads=T)
                                     SPEC as for `inputs`; STOP0 `-`: Model()
  step | play | reset                a click on Step / on ▶ or ❚❚ / on Reset (`disabled` if the button is)
  render N | threads 0|1             the render-interval slider / the threads checkbox
  change NAME VALUE                  the input of parameter NAME reports VALUE
  loop EV …                          the play loop run to its end; EV = SLEEP[@J]: what the user does during the sleep of
                                     this tick (SLEEP ∈ - pause reset render=N set:NAME:V) and a click on ▶ / ❚❚ during the
                                     J-th model step of the tick; after the last EV the user clicks ❚❚ during the next sleep
-/
open Mesa.Viz

def words (s : String) : List String := (s.splitOn " ").filter (· ≠ "")

def strLe (a b : String) : Bool := !(decide (b < a))

def parseFam : String → Option Family
  | "single" => some .single | "multi" => some .multi | "hexs" => some .hexs | "hexm" => some .hexm
  | "moore" => some .moore | "vn" => some .vn | "hex" => some .hex
  | "netgrid" => some .netgrid | "net" => some .net | "vor" => some .vor
  | "cs" => some .cs | "xcs" => some .xcs
  | _ => none

def parseKV (s : String) : Option (Key × Val) :=
  match s.splitOn "=" with
  | [k, v] =>
    if k = "" || v = "" then none
    else if k = "zorder" && v.toInt?.isNone then none
    else some (k, v)
  | _ => none

def pairUp : List Int → Option (List Loc)
  | [] => some []
  | x :: y :: rest => (pairUp rest).map (⟨x, y⟩ :: ·)
  | _ => none

def parseExtra (fam : Family) (ws : List String) : Option (List Loc) := do
  let ints ← ws.mapM (·.toInt?)
  match fam with
  | .netgrid | .net => pure (ints.map fun n => ⟨n, 0⟩)
  | .vor => pairUp ints
  -- `cs X0 Y0`: the origin (`x_min`, `y_min`) of a `mesa.space.ContinuousSpace`; positions in the protocol are relative to it
  | .cs => if ints.isEmpty || ints.length == 2 then pure [] else none
  | _ => if ints.isEmpty then pure [] else none

structure St where
  space : Option Space := none
  params : Bool := false
  heap : Heap := []
  portray : List (Nat × Ref) := []
  layers : List (String × Layer) := []
  sig : Option (List Param) := none
  mparams : Option (List (String × Option Val)) := none
  widgets : List Widget := []
  ctrlMode : Bool := false
  ctrlSig : List Param := []
  ctrlSim : Bool := false
  ctrlSorted : Bool := false
  plotMode : Bool := false
  table : Table := []
  ctrl : Option Ctrl := none

def St.portrayal (st : St) : Portrayal := fun a => st.portray.lookup a

def orDash (s : String) : String := if s = "" then "-" else s

def fmtOpt : Option Val → String
  | none => "-"
  | some v => v

def fmtCore (e : Entry) : String := s!"{e.loc.x},{e.loc.y},{e.s},{e.c},{e.marker},{e.zorder}"

/-- a slot of an optional array: the value, `None` for an agent whose portrayal does not specify the key -/
def fmtSlot : Option Val → String
  | none => "None"
  | some v => v

def fmtArray (vs : List (Option Val)) : String := orDash ("+".intercalate (vs.map fmtSlot))

def fmtCollect (es : List Entry) : String :=
  let head := s!"ok n={es.length}"
  let body := es.foldl (fun acc e => acc ++ " | " ++ fmtCore e) head
  let ign := (es.filter (fun e => !e.ignored.isEmpty)).map fun e => "+".intercalate e.ignored
  body ++ s!" # alpha={fmtArray (alphas es)} edgecolors={fmtArray (edgecolorss es)}"
       ++ s!" linewidths={fmtArray (linewidthss es)} ign={orDash ("/".intercalate ign)}"

def fmtMarker (e : Entry) : String :=
  s!"{e.loc.x},{e.loc.y},{e.s},{e.c},{fmtOpt e.alpha},{fmtOpt e.edgecolors},{fmtOpt e.linewidths}"

def groupLe (a b : Group) : Bool :=
  if a.marker = b.marker then decide ((a.zorder.toInt?.getD 0) ≤ (b.zorder.toInt?.getD 0)) else strLe a.marker b.marker

/-- the markers of a scatter call as they end up on the Axes (`Group.drawn`: the keyword arrays applied) -/
def fmtGroup (g : Group) : String :=
  g.drawn.foldl (fun acc e => acc ++ " " ++ fmtMarker e) s!"{g.marker} {g.zorder} n={g.drawn.length}"

def fmtDrawKw (d : KwDrawing) : String :=
  ((d.groups.mergeSort groupLe).foldl (fun acc g =>
    acc ++ " | " ++ (g.drawn.map (applyKw d.kw)).foldl (fun a e => a ++ " " ++ fmtMarker e) s!"{g.marker} {g.zorder} n={g.drawn.length}") "ok")

def fmtDraw (gs : List Group) : String :=
  (gs.mergeSort groupLe).foldl (fun acc g => acc ++ " | " ++ fmtGroup g) "ok"

def fmtErr : Err → String
  | .attribute => "err Attribute"
  | .notImplemented => "err NotImplemented"
  | .zeroDivision => "err ZeroDivision"
  | .value => "err Value"

def fmtDict (d : Dict) : String :=
  ",".intercalate ((d.mergeSort fun a b => strLe a.1 b.1).map fun kv => s!"{kv.1}={kv.2}")

/-- a fraction in lowest terms: `0`, `1`, `n/d` -/
def fmtFrac (f : Frac) : String :=
  let g := Nat.gcd f.num.natAbs f.den
  if g = 0 then "?" else
  let n := f.num / (g : Int)
  let d := f.den / g
  if d = 1 then toString n else s!"{n}/{d}"

def fmtAltair (c : AltairChart) : String :=
  let enc := (if c.color then ["color"] else []) ++ (if c.size then ["size"] else [])
  let mark := match c.markSize with
    | none => "-"
    | some f => fmtFrac f
  c.rows.foldl (fun acc r => acc ++ " | " ++ orDash (fmtDict r))
    s!"ok enc={orDash ("+".intercalate enc)} xy={c.xyType} tip={orDash ("+".intercalate c.tooltip)} mark={mark}"

def fmtHeap (h : Heap) : String :=
  (h.zipIdx.foldl (fun acc (d, i) => acc ++ s!" {i}:" ++ "{" ++ fmtDict d ++ "}") "ok")

def fmtOptInt : Option Int → String
  | none => "?"
  | some v => toString v

def fmtOptFrac : Option Frac → String
  | none => "?"
  | some f => fmtFrac f

def fmtCbar : Option (Int × Int) → String
  | none => "-"
  | some (lo, hi) => s!"{lo}..{hi}"

def fmtRows {α} (f : α → String) (rows : List (List α)) : String :=
  rows.zipIdx.foldl (fun acc (row, r) => acc ++ s!" r{r}=" ++ ",".intercalate (row.map f)) ""

def fmtCells {α} (f : α → String) (w : Nat) (cells : List α) : String :=
  cells.zipIdx.foldl (fun acc (v, k) => acc ++ s!" {k % w},{k / w}={f v}") ""

def fmtDrawn (w : Nat) (d : DrawnLayer) : String :=
  match d.pic with
  | .imgRgba c rows => s!"{d.name} img color={c} cbar={fmtCbar d.cbar}" ++ fmtRows fmtOptFrac rows
  | .imgCmap cm a lo hi rows =>
    s!"{d.name} imgmap cmap={cm} alpha={a} vmin={lo} vmax={hi} cbar={fmtCbar d.cbar}" ++ fmtRows fmtOptInt rows
  | .hexRgba c cells => s!"{d.name} hex color={c} cbar={fmtCbar d.cbar}" ++ fmtCells fmtOptFrac w cells
  | .hexCmap cm a cells => s!"{d.name} hexmap cmap={cm} alpha={a} cbar={fmtCbar d.cbar}" ++ fmtCells fmtOptFrac w cells

def fmtLayers (w : Nat) : Except LayerErr (List DrawnLayer) → String
  | .error .attribute => "err Attribute"
  | .error .value => "err Value"
  | .ok ds => ds.foldl (fun acc d => acc ++ " | " ++ fmtDrawn w d) "ok"

def optField {α} (parse : String → Option α) (s : String) : Option (Option α) :=
  if s = "-" then some none else (parse s).map some

def parseMode (s : String) : Option LayerMode :=
  match s.splitOn "=" with
  | ["none"] => some .neither
  | ["color", c] => if c = "" then none else some (.color c)
  | ["cmap", c] => if c = "" then none else some (.colormap c)
  | _ => none

def parseYN : String → Option Bool
  | "y" => some true | "n" => some false | _ => none

def parseSpec (s : String) : Option (String × LayerPortrayal) :=
  match s.splitOn ":" with
  | [name, mode, alpha, vmin, vmax, cbar] => do
    let mode ← parseMode mode
    let alpha ← optField (·.toNat?) alpha
    let vmin ← optField (·.toInt?) vmin
    let vmax ← optField (·.toInt?) vmax
    let cbar ← optField parseYN cbar
    if name = "" then none
    else pure (name, { mode, alpha := alpha.getD 100, vmin, vmax, colorbar := cbar.getD true })
  | _ => none

/-- the short forms of `drawlayer` -/
def legacySpec : String → Option (String × LayerPortrayal)
  | "cmap" => some ("v", { mode := .colormap "viridis", vmin := some 0, vmax := some 9, colorbar := false })
  | "color" => some ("v", { mode := .color "red", vmin := some 0, vmax := some 9, colorbar := false })
  | "cmapauto" => some ("v", { mode := .colormap "viridis", colorbar := false })
  | "colorauto" => some ("v", { mode := .color "red", colorbar := false })
  | _ => none

def setLayer (st : St) (sp : Space) (name : String) (vs : List String) : St × String :=
  match vs.mapM (·.toInt?) with
  | none => (st, "bad-op")
  | some vals =>
    let L : Layer := { w := sp.w, h := sp.h, vals }
    -- only grids can be given a property layer
    if name = "" || !(sp.fam.isOrthogonal || sp.fam.isHex) || !L.wellFormed then (st, "bad-op")
    else if (st.layers.lookup name).isSome then
      ({ st with layers := st.layers.map fun nl => if nl.1 == name then (name, L) else nl }, "ok")
    else ({ st with layers := st.layers ++ [(name, L)] }, "ok")

def parseKind : String → Option Kind
  | "po" => some .posOnly | "pk" => some .posOrKw | "vp" => some .varPos
  | "ko" => some .kwOnly | "vk" => some .varKw
  | _ => none

def parseParam (s : String) : Option Param :=
  match s.splitOn ":" with
  | [n, k, d] => do
    let kind ← parseKind k
    let hd ← (if d = "d" then some true else if d = "n" then some false else none)
    if n = "" then none else pure { name := n, kind, hasDefault := hd }
  | _ => none

def parsePyVal (s : String) : Option (String × PyVal) :=
  match s.splitOn ":" with
  | [k, v] =>
    if k = "" then none
    else if v = "slider" then some (k, .slider)
    else if v = "val" then some (k, .other)
    else match v.splitOn "+" with
      | "dict" :: ks => if ks.all (· ≠ "") then some (k, .dict ks) else none
      | _ => none
  | _ => none

def fmtCheck : Except CheckErr Unit → String
  | .ok () => "ok accept"
  | .error .varPositional => "err args"
  | .error .noInstance => "err noinstance"
  | .error (.positionalOnly n) => s!"err posonly {n}"
  | .error (.missing n) => s!"err missing {n}"
  | .error (.invalid n) => s!"err invalid {n}"

def parseParamVal (s : String) : Option (String × ParamVal) :=
  match s.splitOn ":" with
  | [k, v] =>
    if k = "" then none else
    match v.splitOn "/" with
    | ["slider", f, value, label] =>
      if value = "" || label = "" then none
      else if f = "i" then some (k, .slider false label value)
      else if f = "f" then some (k, .slider true label value) else none
    | ["spec", type, value, label] =>
      if type = "" || value = "" || label = "" then none
      else some (k, .spec type (if value = "-" then none else some value) (if label = "-" then none else some label))
    | ["fdict"] => some (k, .plainDict)
    | ["val", value] => if value = "" then none else some (k, .plain value)
    | _ => none
  | _ => none

def fmtKind : WidgetKind → String
  | .sliderInt => "sliderint" | .sliderFloat => "sliderfloat" | .select => "select"
  | .checkbox => "checkbox" | .inputText => "inputtext"

def fmtNone : Option Val → String
  | none => "None"
  | some v => v

def fmtParams (ps : List (String × Option Val)) : String :=
  orDash (",".intercalate (ps.map fun kv => s!"{kv.1}:{fmtNone kv.2}"))

def fmtWidgets (ws : List Widget) : String :=
  orDash (",".intercalate (ws.map fun w => s!"{fmtKind w.kind}/{w.name}/{w.label}/{fmtNone w.value}"))

def fmtNames (ps : List (String × PyVal)) : String := orDash (",".intercalate (ps.map (·.1)))

def withSpace (st : St) (f : Space → St × String) : St × String :=
  match st.space with
  | none => (st, "bad-op")
  | some sp => f sp

def upd (st : St) (r : Option Space) : St × String :=
  match r with
  | none => (st, "err Invalid")
  | some sp => ({ st with space := some sp }, "ok")

def stepLine0 (st : St) (ws : List String) : St × String :=
  match ws with
  | "scenario" :: "space" :: fam :: w :: h :: extra =>
    match parseFam fam, w.toNat?, h.toNat? with
    | some fam, some w, some h =>
      match parseExtra fam extra with
      | none => (st, "bad-op")
      | some ex =>
        match Space.init? fam w h ex with
        | none => (st, "bad-op")
        | some sp => ({ space := some sp }, "ok")
    | _, _, _ => (st, "bad-op")
  | ["scenario", "params"] => ({ params := true }, "ok")
  | "dict" :: r :: kvs =>
    withSpace st fun _ =>
      match r.toNat?, kvs.mapM parseKV with
      | some r, some kvs =>
        let d := Dict.ofList kvs
        if r < st.heap.length then ({ st with heap := st.heap.set r d }, "ok")
        else if r = st.heap.length then ({ st with heap := st.heap ++ [d] }, "ok")
        else (st, "bad-op")
      | _, _ => (st, "bad-op")
  | ["portray", a, r] =>
    withSpace st fun _ =>
      match a.toNat? with
      | none => (st, "bad-op")
      | some a =>
        let others := st.portray.filter (·.1 != a)
        if r = "-" then ({ st with portray := others }, "ok")
        else match r.toNat? with
          | some r => if r < st.heap.length then ({ st with portray := (a, r) :: others }, "ok") else (st, "bad-op")
          | none => (st, "bad-op")
  | ["place", a, x, y] =>
    withSpace st fun sp =>
      match a.toNat?, x.toInt?, y.toInt? with
      | some a, some x, some y => upd st (sp.place a ⟨x, y⟩)
      | _, _, _ => (st, "bad-op")
  | ["move", a, x, y] =>
    withSpace st fun sp =>
      match a.toNat?, x.toInt?, y.toInt? with
      | some a, some x, some y => upd st (sp.move a ⟨x, y⟩)
      | _, _, _ => (st, "bad-op")
  | ["remove", a] =>
    withSpace st fun sp =>
      match a.toNat? with
      | some a => upd st (sp.remove a)
      | none => (st, "bad-op")
  | ["ghost", a] =>
    withSpace st fun _ => if a.toNat?.isSome then (st, "ok") else (st, "bad-op")
  | ["collect"] =>
    withSpace st fun sp =>
      match collectAgentData libDefaults st.heap st.portrayal (spaceAgents sp) with
      | none => (st, "err Attribute")
      | some es => (st, fmtCollect es)
  | ["collectd", c, s, m, z] =>
    withSpace st fun sp =>
      if z.toInt?.isNone then (st, "bad-op") else
      match collectAgentData { color := c, size := s, marker := m, zorder := z } st.heap st.portrayal (spaceAgents sp) with
      | none => (st, "err Attribute")
      | some es => (st, fmtCollect es)
  | ["drawc"] =>   -- through the solara component SpaceMatplotlib: the same draw_space call
    withSpace st fun sp =>
      match drawSpace sp st.heap st.portrayal with
      | .ok gs => (st, fmtDraw gs)
      | .error e => (st, fmtErr e)
  | "drawk" :: kvs =>
    withSpace st fun sp =>
      match kvs.mapM parseKV with
      | none => (st, "bad-op")
      | some kw =>
        if kw.isEmpty || !(kw.map (·.1)).Nodup || !kw.all (fun kv => ["alpha", "edgecolors", "linewidths"].contains kv.1) then (st, "bad-op")
        else match drawSpaceKw sp st.heap st.portrayal kw with
          | .ok d => (st, fmtDrawKw d)
          | .error .attribute => (st, "err Attribute")
          | .error (.raised e) => (st, fmtErr e)
          | .error (.conflict k) => (st, s!"err Value conflict {k}")
  | "drawnet" :: toks =>
    withSpace st fun sp =>
      let parse (t : String) : Option (Int × Loc) :=
        match t.splitOn ":" with
        | [n, x, y] => do
          let n ← n.toInt?
          let x ← x.toInt?
          let y ← y.toInt?
          pure (n, ⟨x, y⟩)
        | _ => none
      match toks.mapM parse with
      | none => (st, "bad-op")
      | some ly =>
        if !(sp.fam == .net || sp.fam == .netgrid) || !(ly.map (·.1)).Nodup then (st, "bad-op") else
        match drawNetwork sp st.heap st.portrayal ly with
        | .error .value => (st, "err Value")
        | .error .noPosition => (st, "err Attribute")
        | .error (.key n) => (st, s!"err Key {n}")
        | .ok d =>
          let size := match d.size with
            | .exact f => fmtFrac f
            | _ => "?"
          (st, s!"ok size={size}" ++ ((fmtDraw d.groups).drop 2).toString)
  | ["frame"] =>
    withSpace st fun sp =>
      match drawRaises sp with
      | some e => (st, fmtErr e)
      | none =>
        match frameOf sp with
        | none => (st, "ok -")
        | some f =>
          let fr (n : Int) : String := fmtFrac ⟨n, f.den⟩
          (st, s!"ok x={fr f.xlo}..{fr f.xhi} y={fr f.ylo}..{fr f.yhi}")
  | ["sdefault"] =>
    withSpace st fun sp =>
      match drawRaises sp with
      | some e => (st, fmtErr e)     -- the size is observed through `draw_space`
      | none =>
      if sp.placed.isEmpty then (st, "ok none")
      else match defaultSize sp with
        | .exact f => (st, s!"ok {fmtFrac f}")
        | .layout => (st, "ok layout")
        | .undefined => (st, "ok undefined")
  | ["draw"] =>
    withSpace st fun sp =>
      match drawSpace sp st.heap st.portrayal with
      | .ok gs => (st, fmtDraw gs)
      | .error e => (st, fmtErr e)
  | ["altairc"] =>   -- through the solara component SpaceAltair: the same _draw_grid call
    withSpace st fun sp =>
      match altairChart sp st.heap st.portrayal with
      | .ok c => (st, fmtAltair c)
      | .error e => (st, fmtErr e)
  | ["altair"] =>
    withSpace st fun sp =>
      match altairChart sp st.heap st.portrayal with
      | .ok c => (st, fmtAltair c)
      | .error e => (st, fmtErr e)
  | ["altairc0"] =>   -- make_altair_space(agent_portrayal=None): every agent is portrayed by its id
    withSpace st fun sp =>
      let (heap, p) := defaultAltairPortrayal (spaceAgents sp)
      match altairChart sp heap p with
      | .ok c => (st, fmtAltair c)
      | .error e => (st, fmtErr e)
  | ["drawc0"] =>   -- make_mpl_space_component(agent_portrayal=None): every agent is portrayed by `{}`
    withSpace st fun sp =>
      match drawSpace sp [] (fun _ => none) with
      | .ok gs => (st, fmtDraw gs)
      | .error e => (st, fmtErr e)
  | ["heap"] => withSpace st fun _ => (st, fmtHeap st.heap)
  | "layer" :: vs => withSpace st fun sp => setLayer st sp "v" vs
  | "layern" :: name :: vs => withSpace st fun sp => setLayer st sp name vs
  | ["drawlayer", mode] =>
    withSpace st fun sp =>
      match legacySpec mode with
      | none => (st, "bad-op")
      | some spec => (st, fmtLayers sp.w (drawLayers sp.fam st.layers [spec]))
  | "drawsp" :: specs =>
    withSpace st fun sp =>
      match specs.mapM parseSpec with
      | none => (st, "bad-op")
      | some ps =>
        if !(ps.map (·.1)).Nodup then (st, "bad-op") else
        match drawSpaceFull sp st.heap st.portrayal st.layers ps with
        | .error (.agents e) => (st, fmtErr e)
        | .error (.layers e) => (st, fmtLayers sp.w (.error e))
        | .ok (gs, ds) => (st, fmtDraw gs ++ " ## " ++ fmtLayers sp.w (.ok ds))
  | "drawlayers" :: specs =>
    withSpace st fun sp =>
      match specs.mapM parseSpec with
      | none => (st, "bad-op")
      | some ps =>
        -- the request is a dict: one entry per name
        if (ps.map (·.1)).Nodup then (st, fmtLayers sp.w (drawLayers sp.fam st.layers ps)) else (st, "bad-op")
  | "sig" :: ps =>
    if !st.params then (st, "bad-op") else
    match ps.mapM parseParam with
    | some sig => ({ st with sig := some sig }, "ok")
    | none => (st, "bad-op")
  | "check" :: keys =>
    match st.params, st.sig with
    | true, some sig => (st, fmtCheck (checkModelParams sig keys))
    | _, _ => (st, "bad-op")
  | "checks" :: keys =>
    match st.params, st.sig with
    | true, some sig => (st, fmtCheck (checkModelParamsExtra sig ["simulator"] keys))
    | _, _ => (st, "bad-op")
  | "split" :: ps =>
    if !st.params then (st, "bad-op") else
    match ps.mapM parsePyVal with
    | some ps => let (u, f) := splitModelParams ps; (st, s!"ok input={fmtNames u} fixed={fmtNames f}")
    | none => (st, "bad-op")
  | "creator" :: ps =>
    match st.params, st.sig, ps.mapM parsePyVal with
    | true, some sig, some ps => (st, fmtCheck (creatorCheck sig ps))
    | _, _, _ => (st, "bad-op")
  | "inputs" :: ps =>
    match st.params, st.sig, ps.mapM parseParamVal with
    | true, some sig, some ps =>
      -- the parameters are a dict: one entry per name
      if !(ps.map (·.1)).Nodup then (st, "bad-op") else
      match modelCreator sig ps with
      | .error (.unsupported t) => ({ st with mparams := none, widgets := [] }, s!"err unsupported {t}")
      | .error (.check e) => ({ st with mparams := none, widgets := [] }, fmtCheck (.error e))
      | .ok (mp, ws) => ({ st with mparams := some mp, widgets := ws }, s!"ok params={fmtParams mp} widgets={fmtWidgets ws}")
    | _, _, _ => (st, "bad-op")
  | ["change", name, value] =>
    match st.mparams with
    | some mp =>
      if st.widgets.any (·.name == name) then
        let mp' := onChange mp name value
        ({ st with mparams := some mp' }, s!"ok params={fmtParams mp'}")
      else (st, "err noinput")
    | none => (st, "err noinput")     -- the last `inputs` was refused (or there was none): no input to change
  | _ => (st, "bad-op")

/-! ### ctrl scenarios -/

/-- the harness' model class: `running` turns False in the step that reaches `kw["stop"]` -/
def stopBeh : Behaviour := fun kw k =>
  match kw.lookup "stop" with
  | some (some v) => match v.toNat? with
    | some s => decide (k < s)
    | none => true
  | _ => true

/-- `def __init__(self, **kw)` / `def __init__(self, simulator=None, **kw)`: the classes of a scenario that names no signature -/
def defaultCtrlSig (sim : Bool) : List Param :=
  (if sim then [⟨"simulator", .posOrKw, true⟩] else []) ++ [⟨"kw", .varKw, false⟩]

def fmtBool (b : Bool) : String := if b then "1" else "0"

/-- `sorted`: the scenario names a signature — parameters bound by name do not show the order of the call, the keyword
    arguments are reported by name -/
def fmtCtrl (c : Ctrl) (sorted : Bool := false) : String :=
  s!"ok gen={c.gen} steps={c.steps} mrunning={fmtBool c.mrunning} running={fmtBool c.running} playing={fmtBool c.playing}" ++
  s!" play={if c.running then "en" else "dis"} stepb={if c.playing || !c.running then "dis" else "en"}" ++
  s!" render={c.render} updates={c.updates} kwargs={fmtParams (if sorted then c.kwargs.mergeSort (fun a b => strLe a.1 b.1) else c.kwargs)} sim={fmtBool c.sim}"

def parseSleep (s : String) : Option Ev :=
  if s = "-" then some .idle
  else if s = "pause" then some .pause
  else if s = "reset" then some .reset
  else match s.splitOn "=" with
    | ["render", n] => n.toNat?.map .render
    | _ => match s.splitOn ":" with
      | ["set", name, v] => if name = "" || v = "" then none else some (.set name v)
      | _ => none

def parseEv (s : String) : Option (Ev × Option Nat) :=
  match s.splitOn "@" with
  | [sl] => (parseSleep sl).map (·, none)
  | [sl, j] => do
    let ev ← parseSleep sl
    let j ← j.toNat?
    if j = 0 then none else pure (ev, some j)
  | _ => none

def ctrlOp (st : St) (op? : Option CtrlOp) (refused : String) : St × String :=
  match st.ctrl, op? with
  | some c, some op =>
    match c.apply stopBeh op with
    | some c' => ({ st with ctrl := some c' }, fmtCtrl c' st.ctrlSorted)
    | none => (st, refused)
  | none, some _ => (st, "err notrendered")     -- `SolaraViz` raised (or was not called): there are no controls
  | _, _ => (st, "bad-op")

def ctrlLine (st : St) (ws : List String) : St × String :=
  match ws with
  | "viz" :: r :: t :: stop0 :: ps =>
    match r.toNat?, (if t = "0" then some false else if t = "1" then some true else none),
          (if stop0 = "-" then some [] else stop0.toNat?.map fun _ => [("stop", some stop0)]), ps.mapM parseParamVal with
    | some r, some t, some kw0, some ps =>
      if !(ps.map (·.1)).Nodup || st.ctrl.isSome then (st, "bad-op") else
      match Ctrl.init stopBeh (⟨"self", .posOrKw, false⟩ :: st.ctrlSig) ps kw0 r t st.ctrlSim with
      | .error (.unsupported ty) => (st, s!"err unsupported {ty}")
      | .error (.check e) => (st, fmtCheck (.error e))
      | .ok c => ({ st with ctrl := some c }, fmtCtrl c st.ctrlSorted)
    | _, _, _, _ => (st, "bad-op")
  | ["step"] => ctrlOp st (some .step) "disabled"
  | ["play"] => ctrlOp st (some .play) "disabled"
  | ["reset"] => ctrlOp st (some .reset) "disabled"
  | ["render", n] => ctrlOp st (n.toNat?.map .render) "bad-op"
  | ["threads", b] => ctrlOp st (if b = "0" then some (.threads false) else if b = "1" then some (.threads true) else none) "bad-op"
  | ["change", name, v] => ctrlOp st (if name = "" || v = "" then none else some (.change name v)) "err noinput"
  | "loop" :: evs => ctrlOp st ((evs.mapM parseEv).map .loop) "bad-op"
  | _ => (st, "bad-op")

/-! ### plot scenarios -/

def parseSeries (s : String) : Option (String × List Int) :=
  match s.splitOn "=" with
  | [m, vs] => if m = "" then none else
    if vs = "-" then some (m, []) else ((vs.splitOn ",").mapM String.toInt?).map fun (ys : List Int) => (m, ys)
  | _ => none

def fmtLine (l : PlotLine) : String :=
  s!"{l.label.getD "-"},{l.color.getD "-"},{orDash ("+".intercalate (l.ys.map toString))}"

def fmtPlot (p : Plot) : String :=
  p.lines.foldl (fun acc l => acc ++ " | " ++ fmtLine l) s!"ok ylabel={p.ylabel.getD "-"} legend={if p.legend then "y" else "n"}"

def parseMeasure (ws : List String) : Option MeasureSpec :=
  match ws with
  | ["str", m] => some (.str m)
  | "dict" :: ms =>
    let parse (t : String) : Option (String × String) :=
      match t.splitOn ":" with
      | [m, c] => if m = "" || c = "" then none else some (m, c)
      | _ => none
    match ms.mapM parse with
    | some kv => if (kv.map (·.1)).Nodup then some (.dict kv) else none
    | none => none
  | "list" :: ms => some (.list ms)
  | "tuple" :: ms => some (.tuple ms)
  | ["other"] => some .other
  | _ => none

def plotLine (st : St) (ws : List String) : St × String :=
  match ws with
  | "data" :: ss =>
    match ss.mapM parseSeries with
    | some t =>
      if !(t.map (·.1)).Nodup || !(t.all fun kv => kv.2.length == (t.head?.map (·.2.length)).getD 0) then (st, "bad-op")
      else ({ st with table := t }, "ok")
    | none => (st, "bad-op")
  | "plot" :: spec =>
    match parseMeasure spec with
    | none => (st, "bad-op")
    | some sp =>
      match plotMeasure st.table sp with
      | .error m => (st, s!"err Key {m}")
      | .ok p => (st, fmtPlot p)
  | ["backend", name] =>
    match plotBackend name with
    | .ok () => (st, "ok")
    | .error .notImplemented => (st, "err NotImplemented")
    | .error .value => (st, "err Value")
  | _ => (st, "bad-op")

def stepLine (st : St) (ws : List String) : St × String :=
  match ws with
  | ["scenario", "plot"] => ({ plotMode := true }, "ok")
  | "scenario" :: "ctrl" :: kind :: ps =>
    if kind = "model" || kind = "sim" then
      match ps.mapM parseParam with
      | some sig => ({ ctrlMode := true, ctrlSim := kind = "sim", ctrlSorted := !ps.isEmpty, ctrlSig := if ps.isEmpty then defaultCtrlSig (kind = "sim") else sig }, "ok")
      | none => (st, "bad-op")
    else (st, "bad-op")
  | "scenario" :: _ => stepLine0 st ws
  | _ => if st.ctrlMode then ctrlLine st ws else if st.plotMode then plotLine st ws else stepLine0 st ws

partial def loop (h : IO.FS.Stream) (out : IO.FS.Stream) (st : St) : IO Unit := do
  let line ← h.getLine
  if line.isEmpty then return ()
  let (st', o) := stepLine st (words line.trimAscii.toString)
  out.putStrLn o
  loop h out st'

def main : IO Unit := do
  let out ← IO.getStdout
  loop (← IO.getStdin) out {}
  out.flush
