/-! stub: replaced by the Viz group driver -/
def main : IO Unit := pure ()
