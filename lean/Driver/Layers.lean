import MesaModel.Model.Layers
/-!
Line-protocol driver for the Layers model (C11, C18-layers).  One output line per input line.
Producer: harness/layers_common.py.

  scenario new|single|multi DIMS CAP GRIDCLASS TORUS    reset   (DIMS = 2x3, CAP = 0 for unbounded, `zero` for a capacity of 0,
                                              GRIDCLASS = moore|vonneumann|hex|-, TORUS = 0|1: harness only)
  create NAME DTYPE DEFAULT                   create_property_layer / PropertyLayer + add_property_layer
  new NAME DIMS DTYPE DEFAULT                 a free-standing PropertyLayer
  attach LID | detach NAME                    add_property_layer(layer) / remove_property_layer(name)
  lset LID C V | lget LID C                   layer.data[c] (= v)            (C = 1.2)
  cset NAME C V | cget NAME C                 cell attribute (new) / grid.properties[name] (legacy)
  cset2 LID C V | cget2 LID C                 the cell attribute on a *second* grid the layer is added to as well (new)
  setcells LID V COND                         COND = - | gt:3 | lt:3 | ge:3 | le:3 | eq:3 | ne:3 | ufz
  setfrom LID H COND                          set_cells(<array held as H>, COND): an array value, one entry per cell
  modify LID ufunc|fn OP V COND               OP = add sub mul max min and or xor (V int | none), neg not (V none); a COND
                                              and the fn form go through np.vectorize: `err Value size0` on a layer
                                              without entries (so does a COND of setcells / setfrom)
  modcell LID C ufunc|fn OP V                 legacy modify_cell (V typed: the result is cast back into the array)
  fromdata NAME H                             PropertyLayer.from_data(NAME, <array held as H>): a free-standing layer (copy)
  grab H LID | hget H C | hset H C V | hdump H
  grabmask H                                  legacy: H = grid.empty_mask (the live array)
  rebind LID H                                legacy: layer.data = <array held as H> (a plain attribute: the layer now
                                              *shares* that array); not an op of the model's histories
  dump LID | dumpn NAME | lsel LID COND | agg LID sum|max|min
  gset NAME                                   grid.NAME = <a plain object>  (new: HasPropertyLayers.__setattr__)
  place A C | move A C | remove A | empties
  select oe=0|1 conds=a:gt:3,b:le:2|- ext=a:hi,b:lo|- masks=s1,l0101|- save=K|-
  dtype LID                                   layer.data.dtype (bool|int|float)
  nbmask K C IC R [moore|vn]                  get_neighborhood_mask(C, include_center=IC, radius=R), kept as saved mask K; the
                                              geometry is the grid class and torus flag of the scenario line (new) resp. the
                                              trailing moore|vn argument (legacy)

DTYPE (bool|int|float) is the element type of the new array.  A written value V is either a plain integer —
a value of the layer's own dtype in that dtype's encoding (bool 0/1, int, float in quarters) — or a typed
Python scalar `b:1`, `i:-3`, `f:10` (= 2.5) that numpy casts on the way in (lset, cset, hset, setcells, and the
DEFAULT of create / new: `np.full`).
`modify … OP T:V COND` with a typed operand is numpy's ufunc (or the same Python operator) with that scalar:
the result type decides the dtype of the re-pointed layer.
-/
open Mesa.Layers

def words (s : String) : List String := (s.splitOn " ").filter (· ≠ "")

def parseCoord (s : String) : Option Coord := (s.splitOn ".").mapM (·.toNat?)

def parseDims (s : String) : Option (List Nat) := (s.splitOn "x").mapM (·.toNat?)

def parseDType : String → Option DType
  | "bool" => some .bool
  | "int" => some .int
  | "float" => some .float
  | _ => none

def fmtDType : DType → String
  | .bool => "bool"
  | .int => "int"
  | .float => "float"

/-- a typed Python scalar `b:0|1`, `i:N`, `f:N` (N quarters) -/
def parseVal (s : String) : Option Val :=
  match s.splitOn ":" with
  | ["b", v] => if v = "0" then some ⟨.bool, 0⟩ else if v = "1" then some ⟨.bool, 1⟩ else none
  | ["i", v] => v.toInt?.map (⟨.int, ·⟩)
  | ["f", v] => v.toInt?.map (⟨.float, ·⟩)
  | _ => none

def parseWVal (s : String) : Option WVal :=
  match s.toInt? with
  | some v => some (.raw v)
  | none => (parseVal s).map .py

def parseUOp : String → Option UOp
  | "add" => some .add
  | "sub" => some .sub
  | "mul" => some .mul
  | "max" => some .max
  | "min" => some .min
  | "and" => some .land
  | "or" => some .lor
  | "xor" => some .lxor
  | _ => none

def parseCmp (k : String) (t : Int) : Option (Int → Bool) :=
  match k with
  | "gt" => some fun x => decide (x > t)
  | "lt" => some fun x => decide (x < t)
  | "ge" => some fun x => decide (x ≥ t)
  | "le" => some fun x => decide (x ≤ t)
  | "eq" => some fun x => x == t
  | "ne" => some fun x => x != t
  | _ => none

/-- a condition that is present -/
def parsePred (s : String) : Option (Int → Bool) :=
  match s.splitOn ":" with
  | ["ufz"] => some fun x => x == 0          -- np.logical_not used as the condition
  | [k, t] => do parseCmp k (← t.toInt?)
  | _ => none

/-- `-` = no condition -/
def parseCond (s : String) : Option (Option (Int → Bool)) :=
  if s = "-" then some none else (parsePred s).map some

def truthy (x : Int) : Bool := x != 0

def binOp (op : String) (v : Int) : Option (Int → Int) :=
  match op with
  | "add" => some fun x => x + v
  | "sub" => some fun x => x - v
  | "mul" => some fun x => x * v
  | "max" => some fun x => if x < v then v else x
  | "min" => some fun x => if v < x then v else x
  | "and" => some fun x => boolInt (truthy x && truthy v)
  | "or" => some fun x => boolInt (truthy x || truthy v)
  | "xor" => some fun x => boolInt (truthy x != truthy v)
  | _ => none

def unOp (op : String) : Option (Int → Int) :=
  match op with
  | "neg" => some fun x => -x
  | "not" => some fun x => boolInt (!truthy x)
  | _ => none

/-- outer `none` = malformed; inner `none` = a ufunc called without its second operand -/
def parseOper (kind op v : String) : Option (Option (Int → Int)) :=
  let binary := (binOp op 0).isSome
  let unary := (unOp op).isSome
  match kind, v with
  | "ufunc", "none" => if binary || unary then some none else none
  | "ufunc", v => if binary then (do let f ← binOp op (← v.toInt?); pure (some f)) else none
  | "fn", "none" => (unOp op).map some
  | "fn", v => if binary then (do let f ← binOp op (← v.toInt?); pure (some f)) else none
  | _, _ => none

def parseList {α : Type} (s : String) (f : String → Option α) : Option (List α) :=
  if s = "-" then some [] else (s.splitOn ",").mapM f

def parseCondEntry (s : String) : Option (String × (Int → Bool)) :=
  match s.splitOn ":" with
  | [n, k, t] => do let p ← parseCmp k (← t.toInt?); pure (n, p)
  | _ => none

def parseExtEntry (s : String) : Option (String × Option Bool) :=
  match s.splitOn ":" with
  | [n, "hi"] => some (n, some true)
  | [n, "lo"] => some (n, some false)
  | [n, "bad"] => some (n, none)
  | _ => none

def parseMaskRef (dims : List Nat) (s : String) : Option MaskRef :=
  let cs := s.toList
  match cs with
  | 's' :: rest => (String.ofList rest).toNat?.map .saved
  | 'l' :: bits =>
    if bits.length = (cells dims).length ∧ bits.all (fun b => b == '0' || b == '1') then
      let bs : List Bool := bits.map (· == '1')
      some (.lit fun c => bs.getD ((cells dims).idxOf c) false)
    else none
  | _ => none

def kv (key s : String) : Option String :=
  if s.startsWith (key ++ "=") then some (s.drop (key.length + 1)).toString else none

/-- what the scenario line says about the grid's geometry: grid class (new) and torus flag -/
structure Geo where
  gridclass : String
  torus : Bool

def parseFlag (s : String) : Option Bool := if s = "1" then some true else if s = "0" then some false else none

def parseOp (dims : List Nat) (impl : Impl) (geo : Geo) : List String → Option Op
  | ["create", n, dt, d] => do pure (.create n (← parseDType dt) (← parseWVal d))
  | ["new", n, dm, dt, d] => do pure (.newLayer n (← parseDims dm) (← parseDType dt) (← parseWVal d))
  | ["attach", l] => do pure (.attach (← l.toNat?))
  | ["detach", n] => some (.detach n)
  | ["lset", l, c, v] => do pure (.layerSet (← l.toNat?) (← parseCoord c) (← parseWVal v))
  | ["lget", l, c] => do pure (.layerGet (← l.toNat?) (← parseCoord c))
  | ["cset", n, c, v] => do pure (.cellSet n (← parseCoord c) (← parseWVal v))
  | ["cget", n, c] => do pure (.cellGet n (← parseCoord c))
  | ["cset2", l, c, v] => do pure (.cellSet2 (← l.toNat?) (← parseCoord c) (← parseWVal v))
  | ["cget2", l, c] => do pure (.cellGet2 (← l.toNat?) (← parseCoord c))
  | ["setcells", l, v, cond] => do pure (.setCells (← l.toNat?) (← parseWVal v) (← parseCond cond))
  | ["setfrom", l, h, cond] => do pure (.setFrom (← l.toNat?) (← h.toNat?) (← parseCond cond))
  | ["modify", l, kind, op, v, cond] =>
      match parseVal v with
      | some x => do
          -- a typed operand: numpy's ufunc, or the same operator inside a Python function (whose result type is
          -- uniform only for + - * and the logical operators)
          let uop ← parseUOp op
          if kind = "ufunc" || (kind = "fn" && uop != .max && uop != .min) then
            pure (.modifyU (← l.toNat?) (kind == "fn") uop x (← parseCond cond))
          else none
      | none => do pure (.modifyCells (← l.toNat?) (kind == "fn") (← parseOper kind op v) (← parseCond cond))
  | ["modcell", l, c, kind, op, v] =>
      match parseVal v with
      | some x => do
          if kind = "ufunc" || kind = "fn" then
            pure (.modifyCellU (← l.toNat?) (← parseCoord c) (← parseUOp op) x)
          else none
      | none => do pure (.modifyCell (← l.toNat?) (← parseCoord c) (← parseOper kind op v))
  | ["fromdata", n, h] => do pure (.fromData n (← h.toNat?))
  | ["grab", h, l] => do pure (.grab (← h.toNat?) (← l.toNat?))
  | ["grabmask", h] => do pure (.grabMask (← h.toNat?))
  | ["hget", h, c] => do pure (.hget (← h.toNat?) (← parseCoord c))
  | ["hset", h, c, v] => do pure (.hset (← h.toNat?) (← parseCoord c) (← parseWVal v))
  | ["hdump", h] => do pure (.hdump (← h.toNat?))
  | ["dump", l] => do pure (.dump (← l.toNat?))
  | ["dumpn", n] => some (.dumpName n)
  | ["gset", n] => some (.gridSet n)
  | ["dtype", l] => do pure (.dtype (← l.toNat?))
  | ["lsel", l, cond] => do pure (.layerSelect (← l.toNat?) (← parsePred cond))
  | ["agg", l, k] => do
      let k ← (match k with | "sum" => some Agg.sum | "max" => some Agg.max | "min" => some Agg.min | _ => none)
      pure (.aggregate (← l.toNat?) k)
  | ["place", a, c] => do pure (.place (← a.toNat?) (← parseCoord c))
  | ["move", a, c] => do pure (.move (← a.toNat?) (← parseCoord c))
  | ["remove", a] => do pure (.remove (← a.toNat?))
  | ["empties"] => some .empties
  | ["nbmask", k, c, ic, r] =>
      -- new grids: Moore / von Neumann by the grid class; a hex grid has no geometry in the model
      if impl != .new then none else
      let geom : Option Bool := if geo.gridclass = "moore" then some true else if geo.gridclass = "vonneumann" then some false else none
      do pure (.nbhdMask (← k.toNat?) geom geo.torus (← parseCoord c) (← parseFlag ic) (← r.toNat?))
  | ["nbmask", k, c, ic, r, m] =>
      if impl = .new then none else
      do
        let moore ← (if m = "moore" then some true else if m = "vn" then some false else none)
        pure (.nbhdMask (← k.toNat?) (some moore) geo.torus (← parseCoord c) (← parseFlag ic) (← r.toNat?))
  | ["select", oe, conds, ext, masks, save] => do
      let oe ← kv "oe" oe
      let oe ← (if oe = "1" then some true else if oe = "0" then some false else none)
      let conds ← parseList (← kv "conds" conds) parseCondEntry
      let ext ← parseList (← kv "ext" ext) parseExtEntry
      let masks ← parseList (← kv "masks" masks) (parseMaskRef dims)
      let save ← kv "save" save
      let save ← (if save = "-" then some none else save.toNat?.map some)
      pure (.select masks oe conds ext save)
  | _ => none

def fmtCoord (c : Coord) : String := ".".intercalate (c.map toString)

def fmtBits (bs : List Bool) : String := String.ofList (bs.map fun b => if b then '1' else '0')

def fmtInts (vs : List Int) : String := ",".intercalate (vs.map toString)

def fmtWhy : Why → String
  | .dims => "dims" | .exists => "exists" | .clash => "clash" | .ufunc => "ufunc" | .mode => "mode" | .empty => "empty"
  | .radius => "radius" | .size0 => "size0"

def fmtErr : Err → String
  | .value w => "err Value " ++ fmtWhy w
  | .key => "err Key"
  | .attr => "err Attr"
  | .index => "err Index"
  | .type => "err Type"
  | .full => "err Full"
  | .placed => "err Placed"
  | .notPlaced => "err NotPlaced"
  | .noLayer => "err NoLayer"
  | .noHandle => "err NoHandle"
  | .noMask => "err NoMask"
  | .impl => "err Impl"
  | .shadowed => "err Shadowed"

def fmtOut : Out → String
  | .ok => "ok"
  | .id n => s!"ok id={n}"
  | .val v => s!"ok v={v}"
  | .arr vs => "ok arr=" ++ fmtInts vs
  | .sel l m => "ok list=" ++ ";".intercalate (l.map fmtCoord) ++ " mask=" ++ fmtBits m
  | .emp view actual =>
      "ok view=" ++ (match view with | none => "none" | some vs => fmtInts vs) ++ " actual=" ++ fmtBits actual
  | .dt d => "ok dt=" ++ fmtDType d
  | .err e => fmtErr e

/-- CAP of the scenario line: `0` = no capacity (`None`), `zero` = a capacity of 0, `N` = capacity N -/
def parseCap (s : String) : Option (Option Nat) :=
  if s = "0" then some none else if s = "zero" then some (some 0) else s.toNat?.map some

def parseImpl : String → Option Impl
  | "new" => some .new
  | "single" => some .single
  | "multi" => some .multi
  | _ => none

def stepLine (st : State × Geo) (ws : List String) : (State × Geo) × String :=
  match ws with
  | ["scenario", k, dims, cap, gridclass, torus] =>
      -- grid class and torus flag select which mesa class the harness instantiates; the model needs them only
      -- for neighbourhood masks (they are arguments of that op)
      if !(["moore", "vonneumann", "hex", "-"].contains gridclass) then (st, "bad-op") else
      match parseImpl k, parseDims dims, parseCap cap, parseFlag torus with
      | some k, some dims, some cap, some torus => ((init k dims cap, ⟨gridclass, torus⟩), "ok")
      | _, _, _, _ => (st, "bad-op")
  | ["rebind", l, h] =>
      -- legacy `layer.data = <held array>`: a transition of the model that is not an `Op` (see Model/Layers.lean)
      match l.toNat?, h.toNat? with
      | some l, some h => let (st', o) := rebind st.1 l h; ((st', st.2), fmtOut o)
      | _, _ => (st, "bad-op")
  | ws =>
      match parseOp st.1.dims st.1.impl st.2 ws with
      | none => (st, "bad-op")
      | some op => let (st', o) := step st.1 op; ((st', st.2), fmtOut o)

partial def loop (h : IO.FS.Stream) (out : IO.FS.Stream) (st : State × Geo) : IO Unit := do
  let line ← h.getLine
  if line.isEmpty then return ()
  let (st', o) := stepLine st (words line.trimAscii.toString)
  out.putStrLn o
  loop h out st'

def main : IO Unit := do
  let out ← IO.getStdout
  loop (← IO.getStdin) out (init .new [1, 1] none, ⟨"moore", false⟩)
  out.flush
