/-! stub: replaced by the Layers group driver -/
def main : IO Unit := pure ()
