import MesaModel.Model.Layers
/-!
Line-protocol driver for the Layers model (C11, C18-layers).  One output line per input line.
Producer: harness/layers_common.py.

  scenario new|single|multi DIMS CAP GRIDCLASS TORUS    reset   (DIMS = 2x3, CAP = 0 for unbounded,
                                              GRIDCLASS = moore|vonneumann|hex|-, TORUS = 0|1: harness only)
  create NAME DTYPE DEFAULT                   create_property_layer / PropertyLayer + add_property_layer
  new NAME DIMS DTYPE DEFAULT                 a free-standing PropertyLayer
  attach LID | detach NAME                    add_property_layer(layer) / remove_property_layer(name)
  lset LID C V | lget LID C                   layer.data[c] (= v)            (C = 1.2)
  cset NAME C V | cget NAME C                 cell attribute (new) / grid.properties[name] (legacy)
  setcells LID V COND                         COND = - | gt:3 | lt:3 | ge:3 | le:3 | eq:3 | ne:3 | ufz
  modify LID ufunc|fn OP V COND               OP = add sub mul max min and or xor (V int | none), neg not (V none)
  modcell LID C ufunc|fn OP V                 legacy modify_cell
  grab H LID | hget H C | hset H C V | hdump H
  dump LID | dumpn NAME | lsel LID COND | agg LID sum|max|min
  place A C | move A C | remove A | empties
  select oe=0|1 conds=a:gt:3,b:le:2|- ext=a:hi,b:lo|- masks=s1,l0101|- save=K|-

DTYPE (bool|int|float) only matters to the harness (how values are encoded); the model is untyped.
-/
open Mesa.Layers

def words (s : String) : List String := (s.splitOn " ").filter (· ≠ "")

def parseCoord (s : String) : Option Coord := (s.splitOn ".").mapM (·.toNat?)

def parseDims (s : String) : Option (List Nat) := (s.splitOn "x").mapM (·.toNat?)

def isDtype (s : String) : Bool := s = "bool" || s = "int" || s = "float"

def parseCmp (k : String) (t : Int) : Option (Int → Bool) :=
  match k with
  | "gt" => some fun x => decide (x > t)
  | "lt" => some fun x => decide (x < t)
  | "ge" => some fun x => decide (x ≥ t)
  | "le" => some fun x => decide (x ≤ t)
  | "eq" => some fun x => x == t
  | "ne" => some fun x => x != t
  | _ => none

/-- a condition that is present -/
def parsePred (s : String) : Option (Int → Bool) :=
  match s.splitOn ":" with
  | ["ufz"] => some fun x => x == 0          -- np.logical_not used as the condition
  | [k, t] => do parseCmp k (← t.toInt?)
  | _ => none

/-- `-` = no condition -/
def parseCond (s : String) : Option (Option (Int → Bool)) :=
  if s = "-" then some none else (parsePred s).map some

def truthy (x : Int) : Bool := x != 0

def binOp (op : String) (v : Int) : Option (Int → Int) :=
  match op with
  | "add" => some fun x => x + v
  | "sub" => some fun x => x - v
  | "mul" => some fun x => x * v
  | "max" => some fun x => if x < v then v else x
  | "min" => some fun x => if v < x then v else x
  | "and" => some fun x => boolInt (truthy x && truthy v)
  | "or" => some fun x => boolInt (truthy x || truthy v)
  | "xor" => some fun x => boolInt (truthy x != truthy v)
  | _ => none

def unOp (op : String) : Option (Int → Int) :=
  match op with
  | "neg" => some fun x => -x
  | "not" => some fun x => boolInt (!truthy x)
  | _ => none

/-- outer `none` = malformed; inner `none` = a ufunc called without its second operand -/
def parseOper (kind op v : String) : Option (Option (Int → Int)) :=
  let binary := (binOp op 0).isSome
  let unary := (unOp op).isSome
  match kind, v with
  | "ufunc", "none" => if binary || unary then some none else none
  | "ufunc", v => if binary then (do let f ← binOp op (← v.toInt?); pure (some f)) else none
  | "fn", "none" => (unOp op).map some
  | "fn", v => if binary then (do let f ← binOp op (← v.toInt?); pure (some f)) else none
  | _, _ => none

def parseList {α : Type} (s : String) (f : String → Option α) : Option (List α) :=
  if s = "-" then some [] else (s.splitOn ",").mapM f

def parseCondEntry (s : String) : Option (String × (Int → Bool)) :=
  match s.splitOn ":" with
  | [n, k, t] => do let p ← parseCmp k (← t.toInt?); pure (n, p)
  | _ => none

def parseExtEntry (s : String) : Option (String × Option Bool) :=
  match s.splitOn ":" with
  | [n, "hi"] => some (n, some true)
  | [n, "lo"] => some (n, some false)
  | [n, "bad"] => some (n, none)
  | _ => none

def parseMaskRef (dims : List Nat) (s : String) : Option MaskRef :=
  let cs := s.toList
  match cs with
  | 's' :: rest => (String.ofList rest).toNat?.map .saved
  | 'l' :: bits =>
    if bits.length = (cells dims).length ∧ bits.all (fun b => b == '0' || b == '1') then
      let bs : List Bool := bits.map (· == '1')
      some (.lit fun c => bs.getD ((cells dims).idxOf c) false)
    else none
  | _ => none

def kv (key s : String) : Option String :=
  if s.startsWith (key ++ "=") then some (s.drop (key.length + 1)).toString else none

def parseOp (dims : List Nat) : List String → Option Op
  | ["create", n, dt, d] => if isDtype dt then do pure (.create n (← d.toInt?)) else none
  | ["new", n, dm, dt, d] => if isDtype dt then do pure (.newLayer n (← parseDims dm) (← d.toInt?)) else none
  | ["attach", l] => do pure (.attach (← l.toNat?))
  | ["detach", n] => some (.detach n)
  | ["lset", l, c, v] => do pure (.layerSet (← l.toNat?) (← parseCoord c) (← v.toInt?))
  | ["lget", l, c] => do pure (.layerGet (← l.toNat?) (← parseCoord c))
  | ["cset", n, c, v] => do pure (.cellSet n (← parseCoord c) (← v.toInt?))
  | ["cget", n, c] => do pure (.cellGet n (← parseCoord c))
  | ["setcells", l, v, cond] => do pure (.setCells (← l.toNat?) (← v.toInt?) (← parseCond cond))
  | ["modify", l, kind, op, v, cond] => do
      pure (.modifyCells (← l.toNat?) (← parseOper kind op v) (← parseCond cond))
  | ["modcell", l, c, kind, op, v] => do
      pure (.modifyCell (← l.toNat?) (← parseCoord c) (← parseOper kind op v))
  | ["grab", h, l] => do pure (.grab (← h.toNat?) (← l.toNat?))
  | ["hget", h, c] => do pure (.hget (← h.toNat?) (← parseCoord c))
  | ["hset", h, c, v] => do pure (.hset (← h.toNat?) (← parseCoord c) (← v.toInt?))
  | ["hdump", h] => do pure (.hdump (← h.toNat?))
  | ["dump", l] => do pure (.dump (← l.toNat?))
  | ["dumpn", n] => some (.dumpName n)
  | ["lsel", l, cond] => do pure (.layerSelect (← l.toNat?) (← parsePred cond))
  | ["agg", l, k] => do
      let k ← (match k with | "sum" => some Agg.sum | "max" => some Agg.max | "min" => some Agg.min | _ => none)
      pure (.aggregate (← l.toNat?) k)
  | ["place", a, c] => do pure (.place (← a.toNat?) (← parseCoord c))
  | ["move", a, c] => do pure (.move (← a.toNat?) (← parseCoord c))
  | ["remove", a] => do pure (.remove (← a.toNat?))
  | ["empties"] => some .empties
  | ["select", oe, conds, ext, masks, save] => do
      let oe ← kv "oe" oe
      let oe ← (if oe = "1" then some true else if oe = "0" then some false else none)
      let conds ← parseList (← kv "conds" conds) parseCondEntry
      let ext ← parseList (← kv "ext" ext) parseExtEntry
      let masks ← parseList (← kv "masks" masks) (parseMaskRef dims)
      let save ← kv "save" save
      let save ← (if save = "-" then some none else save.toNat?.map some)
      pure (.select masks oe conds ext save)
  | _ => none

def fmtCoord (c : Coord) : String := ".".intercalate (c.map toString)

def fmtBits (bs : List Bool) : String := String.ofList (bs.map fun b => if b then '1' else '0')

def fmtInts (vs : List Int) : String := ",".intercalate (vs.map toString)

def fmtWhy : Why → String
  | .dims => "dims" | .exists => "exists" | .clash => "clash" | .ufunc => "ufunc" | .mode => "mode" | .empty => "empty"

def fmtErr : Err → String
  | .value w => "err Value " ++ fmtWhy w
  | .key => "err Key"
  | .attr => "err Attr"
  | .index => "err Index"
  | .full => "err Full"
  | .placed => "err Placed"
  | .notPlaced => "err NotPlaced"
  | .noLayer => "err NoLayer"
  | .noHandle => "err NoHandle"
  | .noMask => "err NoMask"
  | .impl => "err Impl"

def fmtOut : Out → String
  | .ok => "ok"
  | .id n => s!"ok id={n}"
  | .val v => s!"ok v={v}"
  | .arr vs => "ok arr=" ++ fmtInts vs
  | .sel l m => "ok list=" ++ ";".intercalate (l.map fmtCoord) ++ " mask=" ++ fmtBits m
  | .emp view actual =>
      "ok view=" ++ (match view with | none => "none" | some vs => fmtInts vs) ++ " actual=" ++ fmtBits actual
  | .err e => fmtErr e

def parseImpl : String → Option Impl
  | "new" => some .new
  | "single" => some .single
  | "multi" => some .multi
  | _ => none

def stepLine (st : State) (ws : List String) : State × String :=
  match ws with
  | ["scenario", k, dims, cap, gridclass, torus] =>
      -- grid class and torus flag only select which mesa class the harness instantiates
      if !(["moore", "vonneumann", "hex", "-"].contains gridclass && ["0", "1"].contains torus) then (st, "bad-op") else
      match parseImpl k, parseDims dims, cap.toNat? with
      | some k, some dims, some cap => (init k dims cap, "ok")
      | _, _, _ => (st, "bad-op")
  | ws =>
      match parseOp st.dims ws with
      | none => (st, "bad-op")
      | some op => let (st', o) := step st op; (st', fmtOut o)

partial def loop (h : IO.FS.Stream) (out : IO.FS.Stream) (st : State) : IO Unit := do
  let line ← h.getLine
  if line.isEmpty then return ()
  let (st', o) := stepLine st (words line.trimAscii.toString)
  out.putStrLn o
  loop h out st'

def main : IO Unit := do
  let out ← IO.getStdout
  loop (← IO.getStdin) out (init .new [1, 1] 0)
  out.flush
