import MesaModel.Model.Collect
import MesaModel.Model.Batch
/-!
Line-protocol driver for the DataCollector / batch_run models (C12, C13, C18-collect).
One output line per input line.  Producer: harness/collect_common.py.

  scenario collect|batch        reset
  classes p0 p1 …               class i derives from class p_i (< i), from several with `p+q+…` (multiple inheritance,
                                bases in that order) or, with `-`, directly from Agent;
                                ids ≥ the number of classes are types that are not Agent subclasses
  mrep attr a | mrep fn F | mrep part F | mrep meth F | mrep args k d G   model reporter (named m0, m1, … in order;
                                                                   fn = lambda / def, part = functools.partial)
  arep attr a | arep fn A | arep meth A | arep args k d AG         agent reporter (a0, a1, …)
  trep T rep ; rep ; …                                             agent-type reporters of class T
  table t c0 c1 …
    F: count | steps | sum a | get a | req a     G: lin a | cnt | lreq a
    A: get a | id | twice a | steps | req a      AG: lin a | lreq a
    (`req a` / `lreq a` read the attribute directly: AttributeError when it is missing)
  -- scenario collect
  start                          construct the DataCollector
  create ty a=v … | remove id | step | mset a v | mapp a x | mdel a | aset id a v | adel id a
  collect | row t ign|strict c=v … | stop k
  reorder rev|rot                model.agents.shuffle(inplace=True) drawing the reversal / the rotation by one
  reorder ida|idd | reorder ata|atd a     model.agents.sort(key, ascending, inplace=True) by unique_id / int attribute a
  reorder perm [p0,p1,..]        model.agents.shuffle(inplace=True) drawing the permutation p of the positions (position p[j] goes to j)
  mvars | mframe | aframe | tframe T | tab t            (observations)
  -- scenario batch
  init op ; op ; …   body op ; op ; …     op templates: `$p` in an int position = the int carried by
                                          kwarg p (token `i<k>` ↦ k, other tokens ↦ sum of char codes,
                                          absent ↦ 0); `rep n op` = n copies
  param p str|sized|iter|scalar|once tok …             (once = a one-shot iterator: generator / iter(...))
  kwargs                         → the list of kwargs dicts
  run iterations max_steps period [prog]                (prog: display_progress=True; no effect on the result)
  runp iterations max_steps period number_processes [late=j] [prog]   (rows compared after ordering the runs by RunId;
                                 late=j: the runs of the design point of run j of the work list complete after the others)
  Values: N | int | L | Lx,y,…
-/
open Mesa.Collect Mesa.Batch

def words (s : String) : List String := (s.splitOn " ").filter (· ≠ "")

def parseVal (s : String) : Option Val :=
  match s.toList with
  | ['N'] => some .none
  | 'L' :: rest =>
    if rest.isEmpty then some (.list [])
    else ((String.ofList rest).splitOn ",").mapM String.toInt? |>.map .list
  | _ => s.toInt? |>.map .int

def fmtVal : Val → String
  | .none => "N"
  | .int i => toString i
  | .list xs => "L" ++ ",".intercalate (xs.map toString)

def fmtVals (vs : List Val) : String := "|".intercalate (vs.map fmtVal)

def parsePair (w : String) : Option (Nat × Val) :=
  match w.splitOn "=" with
  | [a, v] => do pure (← a.toNat?, ← parseVal v)
  | _ => none

def sumAttr (sn : Snap) (a : Nat) : Int :=
  sn.agents.foldl (fun acc ag => match getAttr ag.attrs a with | .int v => acc + v | _ => acc) 0

def needAttr (attrs : List (Nat × Val)) (a : Nat) : Except Err Val :=
  match attrs.lookup a with
  | some v => .ok v
  | none => .error .attr

def parseF : List String → Option (Snap → Except Err Val)
  | ["count"] => some fun sn => .ok (.int sn.agents.length)
  | ["steps"] => some fun sn => .ok (.int sn.steps)
  | ["sum", a] => do let a ← a.toNat?; pure fun sn => .ok (.int (sumAttr sn a))
  | ["get", a] => do let a ← a.toNat?; pure fun sn => .ok (getAttr sn.attrs a)
  | ["req", a] => do let a ← a.toNat?; pure fun sn => needAttr sn.attrs a
  | _ => none

def linVal (args : List Int) : Val → Val
  | .int v => match args with
    | [k, d] => .int (k * v + d)
    | _ => .none
  | _ => .none

def parseG : List String → Option (List Int → Snap → Except Err Val)
  | ["lin", a] => do
      let a ← a.toNat?
      pure fun args sn => .ok (linVal args (getAttr sn.attrs a))
  | ["lreq", a] => do
      let a ← a.toNat?
      pure fun args sn => (needAttr sn.attrs a).map (linVal args)
  | ["cnt"] => some fun args sn => match args with
      | [k, d] => .ok (.int (k * sn.agents.length + d))
      | _ => .ok .none
  | _ => none

def parseA : List String → Option (Snap → AgentS → Except Err Val)
  | ["get", a] => do let a ← a.toNat?; pure fun _ ag => .ok (getAttr ag.attrs a)
  | ["req", a] => do let a ← a.toNat?; pure fun _ ag => needAttr ag.attrs a
  | ["id"] => some fun _ ag => .ok (.int ag.id)
  | ["twice", a] => do
      let a ← a.toNat?
      pure fun _ ag => match getAttr ag.attrs a with | .int v => .ok (.int (2 * v)) | _ => .ok .none
  | ["steps"] => some fun sn _ => .ok (.int sn.steps)
  | _ => none

def parseAG : List String → Option (List Int → Snap → AgentS → Except Err Val)
  | ["lin", a] => do
      let a ← a.toNat?
      pure fun args _ ag => .ok (linVal args (getAttr ag.attrs a))
  | ["lreq", a] => do
      let a ← a.toNat?
      pure fun args _ ag => (needAttr ag.attrs a).map (linVal args)
  | _ => none

def parseMRep : List String → Option MRep
  | ["attr", a] => do pure (.attr (← a.toNat?))
  | "fn" :: f => do pure (.fn (← parseF f))
  | "part" :: f => do pure (.part (← parseF f))
  | "meth" :: f => do pure (.meth (← parseF f))
  | "args" :: k :: d :: g => do pure (.fnArgs (← parseG g) [← k.toInt?, ← d.toInt?])
  | _ => none

def parseARep : List String → Option ARep
  | ["attr", a] => do pure (.attr (← a.toNat?))
  | "fn" :: f => do pure (.fn (← parseA f))
  | "meth" :: f => do pure (.meth (← parseA f))
  | "args" :: k :: d :: g => do pure (.fnArgs (← parseAG g) [← k.toInt?, ← d.toInt?])
  | _ => none

/-- split a word list at ";" -/
def splitSemi (ws : List String) : List (List String) :=
  ((" ".intercalate ws).splitOn ";").map words |>.filter (· ≠ [])

def parseOp : List String → Option Op
  | "create" :: ty :: ps => do pure (.create (← ty.toNat?) (← ps.mapM parsePair))
  | ["remove", i] => do pure (.remove (← i.toNat?))
  | ["step"] => some .step
  | ["mset", a, v] => do pure (.mset (← a.toNat?) (← parseVal v))
  | ["mapp", a, x] => do pure (.mapp (← a.toNat?) (← x.toInt?))
  | ["mdel", a] => do pure (.mdel (← a.toNat?))
  | ["aset", i, a, v] => do pure (.aset (← i.toNat?) (← a.toNat?) (← parseVal v))
  | ["adel", i, a] => do pure (.adel (← i.toNat?) (← a.toNat?))
  | ["collect"] => some .collect
  | "row" :: t :: m :: ps => do
      let ign ← (if m = "ign" then some true else if m = "strict" then some false else none)
      pure (.row (← t.toNat?) (← ps.mapM parsePair) ign)
  | ["stop", k] => do pure (.stopAt (← k.toNat?))
  | ["reorder", "rev"] => some (.reorder .rev)
  | ["reorder", "rot"] => some (.reorder .rot)
  | ["reorder", "ida"] => some (.reorder (.byId true))
  | ["reorder", "idd"] => some (.reorder (.byId false))
  | ["reorder", "ata", a] => do pure (.reorder (.byAttr (← a.toNat?) true))
  | ["reorder", "atd", a] => do pure (.reorder (.byAttr (← a.toNat?) false))
  | ["reorder", "perm"] => some (.reorder (.perm []))
  | ["reorder", "perm", p] => do pure (.reorder (.perm (← (p.splitOn ",").mapM (·.toNat?))))
  | _ => none

def fmtErr : Err → String
  | .attr => "err Attr" | .value => "err Value" | .key => "err Key" | .unknown => "err Unknown"
  | .missing => "err Missing" | .warn => "err Warn" | .index => "err Index" | .runtime => "err Runtime"

def fmtRow (r : Row) : String := s!"{r.step}/{r.id}:{fmtVals r.vals}"

def fmtRows (ncols : Nat) (rows : List Row) : String :=
  " ".intercalate (s!"ok cols={ncols}" :: rows.map fmtRow)

def fmtCols (pre : String) (cols : List (Nat × List Val)) : List String :=
  cols.map fun (c, vs) => s!"{pre}{c}={fmtVals vs}"

/-! class hierarchy -/

/-- `issubclass(c, T)`: `T` is `c` or reachable from `c` through the bases (a class may have several) -/
def isSubF (parents : List (List Nat)) : Nat → Nat → Nat → Bool
  | 0, c, T => c == T
  | f + 1, c, T => c == T || (parents[c]?.getD []).any fun p => isSubF parents f p T

/-- `-` = derives directly from Agent; `p` or `p+q+…` = the bases, each an earlier class -/
def parseParents (ws : List String) : Option (List (List Nat)) :=
  let rec go (i : Nat) : List String → Option (List (List Nat))
    | [] => some []
    | w :: rest =>
      if w = "-" then (go (i + 1) rest).map ([] :: ·)
      else match (w.splitOn "+").mapM String.toNat? with
        | some ps => if ps ≠ [] && ps.all (· < i) && ps.eraseDups.length = ps.length
            then (go (i + 1) rest).map (ps :: ·) else none
        | none => none
  go 0 ws

/-! batch templates -/

def tokCode (t : String) : Int :=
  match t.toList with
  | 'i' :: rest => match (String.ofList rest).toInt? with
    | some k => k
    | none => (t.toList.foldl (fun acc c => acc + c.toNat) 0 : Nat)
  | cs => (cs.foldl (fun acc c => acc + c.toNat) 0 : Nat)

def resolve (kw : Kwargs String) (part : String) : String :=
  match part.toList with
  | '$' :: rest => match (String.ofList rest).toNat? with
    | some p => match kw.lookup p with
      | some t => toString (tokCode t)
      | none => "0"
    | none => part
  | _ => part

def substWord (kw : Kwargs String) (w : String) : String :=
  "=".intercalate ((w.splitOn "=").map (resolve kw))

/-- instantiate one template op; `rep n op` expands to n copies -/
def instOp (kw : Kwargs String) (ws : List String) : Option (List Op) :=
  match ws.map (substWord kw) with
  | "rep" :: n :: rest => do
      let n ← n.toNat?
      let op ← parseOp rest
      pure (List.replicate n op)
  | ws' => (parseOp ws').map ([·])

def instOps (kw : Kwargs String) (tmpl : List (List String)) : List Op :=
  (tmpl.filterMap (instOp kw)).flatten

/-- parameters mentioned in a template -/
def templateOk (tmpl : List (List String)) : Bool :=
  tmpl.all fun ws => (instOp [] ws).isSome

structure DSt where
  mode : Nat                       -- 0 none, 1 collect, 2 batch
  started : Bool
  parents : List (List Nat)
  mreps : List MRep
  areps : List ARep
  treps : List (Nat × List ARep)
  tables : List (Nat × List Nat)
  st : State
  initT : List (List String)
  bodyT : List (List String)
  params : List (Nat × PVal String)

def DSt.cfg (d : DSt) : Cfg :=
  { mreps := d.mreps, areps := d.areps, treps := d.treps,
    isAgentClass := fun T => T < d.parents.length,
    isSub := fun c T => isSubF d.parents d.parents.length c T }

def emptyCfg : Cfg := { mreps := [], areps := [], treps := [], isAgentClass := fun _ => false, isSub := fun _ _ => false }

def DSt.fresh (mode : Nat) : DSt :=
  { mode := mode, started := false, parents := [], mreps := [], areps := [], treps := [], tables := [],
    st := Mesa.Collect.init emptyCfg [], initT := [], bodyT := [], params := [] }

def fmtKw (kw : Kwargs String) : String :=
  "{" ++ ",".intercalate (kw.map fun (p, t) => s!"{p}={t}") ++ "}"

def fmtBRow (r : BRow String) : String :=
  let ag := match r.agent with
    | none => ""
    | some (i, vs) => s!"<{i}:{fmtVals vs}>"
  s!"R{r.runId}/{r.iteration}/{r.step}{fmtKw r.kwargs}[{fmtVals r.model}]{ag}"

/-- an op the scripted model class can execute (its class must exist) -/
def DSt.opOk (d : DSt) : Op → Bool
  | .create ty _ => ty < d.parents.length
  | _ => true

def DSt.cls (d : DSt) (kw : Kwargs String) : Prog :=
  { cfg := d.cfg, tables := d.tables, init := (instOps kw d.initT).filter d.opOk,
    body := (instOps kw d.bodyT).filter d.opOk }

def runOut (d : DSt) (it ms : Nat) (per : Int) : String :=
  match batchRun d.cls d.params it ms per with
  | .ok rows => " ".intercalate ("ok" :: rows.map fmtBRow)
  | .error e => fmtErr e

def runLateOut (d : DSt) (it ms : Nat) (per : Int) (j : Nat) : String :=
  match batchRunLate d.cls d.params it ms per j with
  | .ok rows => " ".intercalate ("ok" :: rows.map fmtBRow)
  | .error e => fmtErr e

def parseLate (w : String) : Option Nat :=
  match w.splitOn "=" with
  | ["late", j] => j.toNat?
  | _ => none

def parsePVal (kind : String) (toks : List String) : Option (PVal String) :=
  match kind, toks with
  | "str", [t] => some (.str t)
  | "scalar", [t] => some (.scalar t)
  | "sized", ts => some (.sized ts)
  | "iter", ts => some (.iter ts)
  | "once", ts => some (.once ts)
  | _, _ => none

def defLine (d : DSt) (ws : List String) : Option DSt :=
  if d.started then none else
  match ws with
  | "classes" :: ps => do pure { d with parents := (← parseParents ps) }
  | "mrep" :: r => do pure { d with mreps := d.mreps ++ [← parseMRep r] }
  | "arep" :: r => do pure { d with areps := d.areps ++ [← parseARep r] }
  | "trep" :: T :: rs => do
      let T ← T.toNat?
      let reps ← (splitSemi rs).mapM parseARep
      if (d.treps.lookup T).isSome then none else pure { d with treps := d.treps ++ [(T, reps)] }
  | "table" :: t :: cs => do pure { d with tables := d.tables ++ [(← t.toNat?, ← cs.mapM (·.toNat?))] }
  | _ => none

def obsLine (d : DSt) (ws : List String) : Option String :=
  let s := d.st
  match ws with
  | ["mvars"] => some (" ".intercalate ("ok" :: fmtCols "m" (s.modelVars.zipIdx.map fun (vs, i) => (i, vs))))
  | ["mframe"] => some <| match modelFrame d.cfg s with
      | .ok (n, cols) => " ".intercalate (s!"ok n={n}" :: fmtCols "m" (cols.zipIdx.map fun (vs, i) => (i, vs)))
      | .error e => fmtErr e
  | ["aframe"] => some <| match agentFrame d.cfg s with
      | .ok rows => fmtRows d.areps.length rows
      | .error e => fmtErr e
  | ["tframe", T] => do
      let T ← T.toNat?
      pure <| match typeFrame d.cfg s T with
        | none => "ok none"
        | some rows => fmtRows ((d.treps.lookup T).getD []).length rows
  | ["tab", t] => do
      let t ← t.toNat?
      pure <| match tableFrame s t with
        | .ok (n, tab) => " ".intercalate (s!"ok n={n}" :: fmtCols "c" tab)
        | .error e => fmtErr e
  | _ => none

def stepLine (d : DSt) (ws : List String) : DSt × String :=
  match ws with
  | ["scenario", "collect"] => (DSt.fresh 1, "ok")
  | ["scenario", "batch"] => (DSt.fresh 2, "ok")
  | _ =>
  if d.mode = 0 then (d, "bad-op") else
  match ws with
  | [] => (d, "bad-op")
  | w :: rest =>
    if w ∈ ["classes", "mrep", "arep", "trep", "table"] then
      match defLine d ws with
      | some d' => (d', "ok")
      | none => (d, "bad-op")
    else if d.mode = 1 then
      if ws = ["start"] then
        if d.started then (d, "bad-op") else ({ d with started := true, st := Mesa.Collect.init d.cfg d.tables }, "ok")
      else if !d.started then (d, "bad-op")
      else match obsLine d ws with
        | some o => (d, o)
        | none => match parseOp ws with
          | none => (d, "bad-op")
          | some op =>
            if !d.opOk op then (d, "bad-op") else
            let (s', e) := apply d.cfg d.st op
            ({ d with st := s' }, match e with | none => "ok" | some e => fmtErr e)
    else
      match w with
      | "init" => let t := splitSemi rest; if templateOk t then ({ d with initT := t }, "ok") else (d, "bad-op")
      | "body" => let t := splitSemi rest; if templateOk t then ({ d with bodyT := t }, "ok") else (d, "bad-op")
      | "param" =>
        match rest with
        | p :: kind :: toks =>
          match p.toNat?, parsePVal kind toks with
          | some p, some pv =>
            if (d.params.lookup p).isSome then (d, "bad-op") else ({ d with params := d.params ++ [(p, pv)] }, "ok")
          | _, _ => (d, "bad-op")
        | _ => (d, "bad-op")
      | "kwargs" =>
        if rest ≠ [] then (d, "bad-op") else
        match makeKwargs d.params with
        | .ok kws => (d, " ".intercalate ("ok" :: kws.map fmtKw))
        | .error e => (d, fmtErr e)
      | "run" =>
        match (if rest.getLast? = some "prog" then rest.dropLast else rest) with
        | [it, ms, per] =>
          match it.toNat?, ms.toNat?, per.toInt? with
          | some it, some ms, some per => (d, runOut d it ms per)
          | _, _, _ => (d, "bad-op")
        | _ => (d, "bad-op")
      | "runp" =>
        -- number_processes = np > 1: the runs come back in any order; the harness orders the
        -- runs' row chunks by RunId, which is the serial result (C13_parallel_perm_serial)
        match (if rest.getLast? = some "prog" then rest.dropLast else rest) with
        | [it, ms, per, np] =>
          match it.toNat?, ms.toNat?, per.toInt?, np.toNat? with
          | some it, some ms, some per, some np => if np = 0 then (d, "bad-op") else (d, runOut d it ms per)
          | _, _, _, _ => (d, "bad-op")
        | [it, ms, per, np, late] =>
          -- a completion order other than the submission order: the runs of the design point of run j come back last
          match it.toNat?, ms.toNat?, per.toInt?, np.toNat?, parseLate late with
          | some it, some ms, some per, some np, some j =>
            if np = 0 then (d, "bad-op") else (d, if np = 1 then runOut d it ms per else runLateOut d it ms per j)
          | _, _, _, _, _ => (d, "bad-op")
        | _ => (d, "bad-op")
      | _ => (d, "bad-op")

partial def loop (h : IO.FS.Stream) (out : IO.FS.Stream) (d : DSt) : IO Unit := do
  let line ← h.getLine
  if line.isEmpty then return ()
  let (d', o) := stepLine d (words line.trimAscii.toString)
  out.putStrLn o
  loop h out d'

def main : IO Unit := do
  let out ← IO.getStdout
  loop (← IO.getStdin) out (DSt.fresh 0)
  out.flush
