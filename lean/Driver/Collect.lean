/-! stub: replaced by the Collect group driver -/
def main : IO Unit := pure ()
