import MesaModel.Proto.Cells
/-!
Line-protocol driver for C19 (copies and pickles of cell spaces): two independent instances of the cell-space
model (the original `o` and, after `copy`, the copy `c`), each with its own store of extra property layers.
The copy is a *value* copy of the model state: what the theorems of C06/C07 say about any state they say about
the copy, and operations on one side cannot influence the other.  The implementation has to realise exactly
this with deepcopy / pickle — that is what the correspondence checks.

  scenario …                               as in Driver/CellsLib.lean (side o)
  <cell op | query>                        side o (before or after the copy)
  layer add <name> <default> | layer del <name> | layer fill <name> <v>
  layer set <name> <coord> <v>             write through the cell attribute
  layer get <name> <coord>                 read through the cell attribute (= the layer's array entry)
  copy deepcopy|pickle                     side c := side o
  copy2 deepcopy|pickle o|c                side d := a second copy, of the original or of the first copy
  o <line…> | c <line…> | d <line…>        the same commands addressed to one side
-/
open Mesa.Cells

structure Side where
  d : DSt
  layers : List (String × List (Coord × Int))    -- extra layers: name ↦ values per coordinate

def Side.empty : Side := ⟨DSt.empty, []⟩

structure CSt where
  o : Side
  c : Option Side
  d : Option Side      -- a second copy (of the original or of the first copy), alive at the same time

def setAt (vals : List (Coord × Int)) (c : Coord) (v : Int) : List (Coord × Int) :=
  vals.map fun (k, x) => if k == c then (k, v) else (k, x)

/-- names `add_property_layer` rejects: the built-in layer, and the slots / class attributes of the cell class -/
def reserved : List String := ["empty", "coordinate", "connections", "capacity", "properties", "random", "_agents",
  "_mesa_properties", "__dict__"]

def sideLine (s : Side) (ws : List String) : Side × String :=
  match ws with
  | "scenario" :: _ =>
    let (d, o) := stepLine s.d ws
    ({ d := d, layers := [] }, o)
  | "layer" :: rest =>
    match s.d.sp with
    | none => (s, "err NoSpace")
    | some sp =>
      if !sp.isGrid then (s, "err Attr") else
      match rest with
      | ["add", name, dflt] =>
        match dflt.toInt? with
        | none => (s, "bad-op")
        | some v =>
          if (s.layers.lookup name).isSome || name ∈ reserved then (s, "err Value")
          else ({ s with layers := s.layers ++ [(name, sp.cells.map fun c => (c, v))] }, "ok")
      | ["del", name] =>
        if (s.layers.lookup name).isNone then (s, "err Key")
        else ({ s with layers := s.layers.filter (·.1 ≠ name) }, "ok")
      | ["fill", name, v] =>
        match v.toInt?, s.layers.lookup name with
        | some v, some vals =>
          ({ s with layers := s.layers.map fun (n, x) => if n == name then (n, vals.map fun (k, _) => (k, v)) else (n, x) }, "ok")
        | some _, none => (s, "err Key")
        | none, _ => (s, "bad-op")
      | ["set", name, c, v] =>
        match parseCoord c, v.toInt? with
        | some c, some v =>
          if c ∉ sp.cells then (s, "err Key") else
          if name = "empty" then
            -- the program writes the built-in emptiness layer by hand (e.g. to reserve a cell): the value stays until
            -- an agent enters or leaves that cell
            let st := s.d.st
            ({ s with d := { s.d with st := { st with flag := fun k => if k == c then some (v != 0) else st.flag k } } }, "ok")
          else
          match s.layers.lookup name with
          | none => (s, "err Attr")
          | some vals =>
            ({ s with layers := s.layers.map fun (n, x) => if n == name then (n, setAt vals c v) else (n, x) }, "ok")
        | _, _ => (s, "bad-op")
      | ["get", name, c] =>
        match parseCoord c with
        | none => (s, "bad-op")
        | some c =>
          if c ∉ sp.cells then (s, "err Key") else
          if name = "empty" then
            -- the built-in emptiness layer, read through the cell attribute
            (s, s!"ok {if s.d.st.flag c == some true then 1 else 0}")
          else
          match s.layers.lookup name with
          | none => (s, "err Attr")
          | some vals => match vals.lookup c with
            | some v => (s, s!"ok {v}")
            | none => (s, "err Key")
      | _ => (s, "bad-op")
  | _ =>
    let (d, o) := stepLine s.d ws
    ({ s with d := d }, o)

def copyLine (st : CSt) (ws : List String) : CSt × String :=
  match ws with
  | "scenario" :: _ =>
    let (o, out) := sideLine Side.empty ws
    ({ o := o, c := none, d := none }, out)
  | ["copy", how] =>
    if how = "deepcopy" || how = "pickle" then
      match st.o.d.sp with
      | none => (st, "err NoSpace")
      | some _ => ({ st with c := some st.o }, "ok")
    else (st, "bad-op")
  | ["copy2", how, src] =>
    if how = "deepcopy" || how = "pickle" then
      match (if src = "o" then some st.o else if src = "c" then st.c else none) with
      | none => (st, if src = "o" || src = "c" then "err NoCopy" else "bad-op")
      | some s0 =>
        match s0.d.sp with
        | none => (st, "err NoSpace")
        | some _ => ({ st with d := some s0 }, "ok")
    else (st, "bad-op")
  | "d" :: rest =>
    match st.d with
    | none => (st, "err NoCopy")
    | some d =>
      let (d', out) := sideLine d rest
      ({ st with d := some d' }, out)
  | "o" :: rest =>
    let (o, out) := sideLine st.o rest
    ({ st with o := o }, out)
  | "c" :: rest =>
    match st.c with
    | none => (st, "err NoCopy")
    | some c =>
      let (c', out) := sideLine c rest
      ({ st with c := some c' }, out)
  | _ =>
    let (o, out) := sideLine st.o ws
    ({ st with o := o }, out)

partial def loop (h : IO.FS.Stream) (out : IO.FS.Stream) (st : CSt) : IO Unit := do
  let line ← h.getLine
  if line.isEmpty then return ()
  let (st', o) := copyLine st (words line.trimAscii.toString)
  out.putStrLn o
  loop h out st'

def main : IO Unit := do
  let out ← IO.getStdout
  loop (← IO.getStdin) out { o := Side.empty, c := none, d := none }
  out.flush
