#!/bin/sh
# offline build of the Lean library (models, proofs) and every driver executable
set -e
cd "$(dirname "$0")/lean"
exes=$(grep -A1 '^\[\[lean_exe\]\]' lakefile.toml | sed -n 's/^name = "\(.*\)"/\1/p')
lake build MesaModel $exes
