#!/bin/sh
# tools/eval_mutant.sh <mutant dir with patch.diff demo.py> <scratch worktree> Cxx [Cyy..]
# confirms: demo passes clean, fails mutated, test-suite passes mutated; then runs the checks against /repo with the patch applied
d="$1"; wt="$2"; shift 2
git -C "$wt" checkout -q -- . || exit 2
cp "$d/demo.py" "$wt/_demo.py"
( cd "$wt" && timeout 300 /venv/bin/python _demo.py >/tmp/demo_clean.out 2>&1 ); c=$?
git -C "$wt" apply "$d/patch.diff" || { echo "patch does not apply"; exit 2; }
( cd "$wt" && timeout 300 /venv/bin/python _demo.py >/tmp/demo_mut.out 2>&1 ); m=$?
t=$( cd "$wt" && timeout 1200 /venv/bin/python -m pytest -q -p no:cacheprovider --timeout=900 2>&1 | tail -1 )
rm -f "$wt/_demo.py"; git -C "$wt" checkout -q -- .
echo "demo clean exit=$c  mutated exit=$m  suite: $t"
cd /repo && git apply "$d/patch.diff" || exit 2
cd /verif
for c in "$@"; do timeout 1500 ./check "$c" --tier "${TIER:-quick}" 2>&1 | grep "VIOLATION\|KNOWN\|$c quick\|$c thorough\|INFRA"; done
git -C /repo checkout -q -- . ; git -C /repo status --short --untracked-files=no
