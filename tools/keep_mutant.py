#!/usr/bin/env python3
"""tools/keep_mutant.py <src dir> <seeded id> <property> <detected_by csv> <needs text> [<strengthening note>]"""
import json, os, shutil, sys
src, sid, prop, det, needs = sys.argv[1:6]
note = sys.argv[6] if len(sys.argv) > 6 else ""
dst = f"/verif/seeded/{sid}"
os.makedirs(dst, exist_ok=True)
for f in ("patch.diff", "demo.py", "notes.md"):
    if os.path.exists(os.path.join(src, f)):
        shutil.copy(os.path.join(src, f), os.path.join(dst, f))
meta = {"id": sid, "property": prop, "needs_to_manifest": needs,
        "confirmed": {"demo_on_clean_tree": "exit 0 (PASS)", "demo_with_patch": "exit 1 (FAIL)",
                      "test_suite_with_patch": "256 passed, 1 skipped (cd <worktree> && /venv/bin/python -m pytest -q -p no:cacheprovider --timeout=900)",
                      "how": "tools/eval_mutant.sh <dir> <scratch worktree of /repo> <checks>: demo on clean worktree, demo + full suite with patch.diff applied, then `git -C /repo apply patch.diff`, ./check <prop> --tier quick, `git -C /repo checkout -- .`"},
        "detected_by": det.split(","), "strengthening": note}
json.dump(meta, open(os.path.join(dst, "meta.json"), "w"), indent=1)
print("kept", dst)
