#!/bin/sh
# tools/tie_coverage.sh [count]: which lines of mesa do the correspondence runs execute at all?
# Runs every check's generated + corpus scenarios in-process under coverage.py (statement coverage of /repo/mesa, the
# bundled examples excluded), combines the data and writes coverage/tie_coverage.json + coverage/tie_coverage.txt.
# This is a measure of the TIE (code no check ever executes is outside it), not a verification result.
# Subprocesses (C01's hash-seed matrix, C13's multi-process batch_run) are not measured.
count="${1:-300}"
cd "$(dirname "$0")/.." || exit 2
out=/root/cov; rm -rf "$out"; mkdir -p "$out" coverage
cat > "$out/rc" <<RC
[run]
source = /repo/mesa
omit = /repo/mesa/examples/*
data_file = $out/data
parallel = True
RC
for c in $(ls manifest.d | sed 's/\.json$//'); do
  n="--count $count"; [ "$c" = C01 ] && n="--count 8"   # C01's scenarios are whole example runs in subprocesses
  VERIF_JOBS=1 COVERAGE_RCFILE="$out/rc" timeout 3000 /venv/bin/python -m coverage run --rcfile="$out/rc" -m harness.cover_main "$c" --tier quick $n > "$out/$c.log" 2>&1
  echo "$c exit $? $(tail -n 1 "$out/$c.log" | cut -c1-120)"
done
cd "$out" && /venv/bin/python -m coverage combine --rcfile="$out/rc" >/dev/null 2>&1
/venv/bin/python -m coverage json --rcfile="$out/rc" -o "$out/cov.json" >/dev/null 2>&1
/venv/bin/python - <<'PY'
import json
d = json.load(open("/root/cov/cov.json"))
rows, tot_s, tot_m = [], 0, 0
for f, v in sorted(d["files"].items()):
    s = v["summary"]
    if s["num_statements"] == 0:
        continue
    miss = v["missing_lines"]
    # compress to ranges
    rng, start, prev = [], None, None
    for l in miss:
        if start is None:
            start = prev = l
        elif l == prev + 1:
            prev = l
        else:
            rng.append((start, prev)); start = prev = l
    if start is not None:
        rng.append((start, prev))
    rows.append({"file": f.replace("/repo/", ""), "statements": s["num_statements"], "executed": s["covered_lines"],
                 "percent": round(s["percent_covered"], 1), "never_executed": [f"{a}-{b}" if a != b else str(a) for a, b in rng]})
    tot_s += s["num_statements"]; tot_m += s["missing_lines"]
out = {"what": "statement coverage of /repo/mesa (examples excluded) by the quick-tier correspondence runs of all 20 checks, in-process; "
               "a measure of the tie between models and code, not a verification result",
       "total_statements": tot_s, "executed": tot_s - tot_m, "percent": round(100.0 * (tot_s - tot_m) / max(1, tot_s), 1), "files": rows}
json.dump(out, open("/verif/coverage/tie_coverage.json", "w"), indent=1)
with open("/verif/coverage/tie_coverage.txt", "w") as f:
    f.write(f"{out['percent']:5.1f}%  {out['executed']}/{out['total_statements']}  TOTAL (mesa without examples)\n")
    for r in sorted(rows, key=lambda r: r["percent"]):
        f.write(f"{r['percent']:5.1f}%  {r['executed']}/{r['statements']}  {r['file']}  never executed: {' '.join(r['never_executed'][:40])}\n")
print(open("/verif/coverage/tie_coverage.txt").read()[:3000])
PY
