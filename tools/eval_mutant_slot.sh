#!/bin/sh
# tools/eval_mutant_slot.sh <slot n> <mutant dir with patch.diff demo.py> Cxx [Cyy..]
# Like eval_mutant.sh, but never touches /repo or /verif: slot n owns a copy of the framework (/root/ev/v<n>, rsynced from /verif,
# build output included) and a mesa worktree (/root/ev/r<n>, detached at /repo HEAD), so several evaluations run side by side.
# Confirms: demo passes clean, fails with the patch, mesa's suite passes with the patch; then runs the named checks with MESA_REPO=slot.
n="$1"; d=$(realpath "$2"); shift 2
v=/root/ev/v$n; r=/root/ev/r$n
mkdir -p /root/ev
[ -d "$r" ] || git -C /repo worktree add -q --detach "$r" HEAD || exit 2
git -C "$r" checkout -q --detach "$(git -C /repo rev-parse HEAD)" && git -C "$r" checkout -q -- . || exit 2
rsync -a --delete --exclude .git --exclude evidence --exclude replays /verif/ "$v/" || exit 2
mkdir -p "$v/evidence" "$v/replays"
cp "$d/demo.py" "$r/_demo.py"
( cd "$r" && MESA_WT="$r" timeout 300 /venv/bin/python _demo.py >"$v/demo_clean.out" 2>&1 ); c=$?
git -C "$r" apply "$d/patch.diff" || { echo "patch does not apply"; rm -f "$r/_demo.py"; exit 2; }
( cd "$r" && MESA_WT="$r" timeout 300 /venv/bin/python _demo.py >"$v/demo_mut.out" 2>&1 ); m=$?
rm -f "$r/_demo.py"
t=$( cd "$r" && timeout 1200 /venv/bin/python -m pytest -q -p no:cacheprovider --timeout=900 2>&1 | tail -1 )
echo "$(basename "$d"): demo clean exit=$c  mutated exit=$m  suite: $t"
cd "$v" || exit 2
for k in "$@"; do MESA_REPO="$r" VERIF_JOBS="${VERIF_JOBS:-5}" timeout 1500 ./check "$k" --tier "${TIER:-quick}" 2>&1 | grep "VIOLATION\|KNOWN\|$k quick\|$k thorough\|INFRA" | sed "s/^/$(basename "$d"): /"; done
git -C "$r" checkout -q -- .
