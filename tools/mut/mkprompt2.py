#!/usr/bin/env python3
"""tools/mut/mkprompt2.py Cxx -> second-round prompt /root/mut/prompt2-Cxx.md (lists first-round changes to avoid); prints worktree"""
import glob, json, os, sys
pid = sys.argv[1]
tpl = open(os.path.join(os.path.dirname(__file__), "prompt.tpl")).read()
os.makedirs("/root/mut", exist_ok=True)
tried = []
for m in sorted(glob.glob(f"/verif/seeded/{pid}-*/meta.json")) + sorted(glob.glob(f"/verif/seeded/discarded/{pid}-*/meta.json")):
    j = json.load(open(m))
    tried.append("* " + os.path.basename(os.path.dirname(m)) + ": " + j.get("needs_to_manifest", j.get("why_discarded", "")))
for l in open("/verif/properties.jsonl"):
    p = json.loads(l)
    if p["id"] == pid:
        wt = "/root/mut/wt2-" + pid.lower()
        s = (tpl.replace("{PID}", pid).replace("{TITLE}", p["title"]).replace("{STATEMENT}", p["statement"])
             .replace("{QUANT}", p["quantifier"]["text"]).replace("{FILES}", ", ".join(p["anchors"]["files"]))
             .replace("{WT}", wt).replace("{OUT}", "/root/mut/r2"))
        s += ("\n\n## Already tried in an earlier round — produce changes of a DIFFERENT kind (other clauses, other code paths, other triggers)\n\n"
              + "\n".join(tried) + "\n\nEach demo.py must locate mesa through `os.environ.get('MESA_WT', os.getcwd())` inserted at the front of "
              "sys.path (it is run with the worktree as current directory) and assert that mesa.__file__ lies inside it.\n")
        open(f"/root/mut/prompt2-{pid}.md", "w").write(s)
        print(wt)
