#!/usr/bin/env python3
"""tools/mut/mkprompt.py Cxx -> writes /root/mut/prompt-Cxx.md and prints the worktree path to create"""
import json, os, sys
pid = sys.argv[1]
tpl = open(os.path.join(os.path.dirname(__file__), "prompt.tpl")).read()
os.makedirs("/root/mut", exist_ok=True)
for l in open("/verif/properties.jsonl"):
    p = json.loads(l)
    if p["id"] == pid:
        wt = "/root/mut/wt-" + pid.lower()
        s = (tpl.replace("{PID}", pid).replace("{TITLE}", p["title"]).replace("{STATEMENT}", p["statement"])
             .replace("{QUANT}", p["quantifier"]["text"]).replace("{FILES}", ", ".join(p["anchors"]["files"]))
             .replace("{WT}", wt).replace("{OUT}", "/root/mut"))
        open(f"/root/mut/prompt-{pid}.md", "w").write(s)
        print(wt)
