You are a careful adversarial engineer. In the git worktree {WT} (a checkout of the Python library **mesa**, agent-based
modeling) you will craft realistic, subtle source changes that BREAK the following behavioural property while the
library still imports and its existing test suite still passes.

## The property ({PID}: {TITLE})

Statement: {STATEMENT}

It must hold: {QUANT}

Code the property is anchored in: {FILES}

## What to produce

Produce **3 different changes** (independent of each other, each relative to the unmodified worktree), each of which:
* is a small, plausible edit to mesa's source (the kind of thing a refactoring, an "optimisation" or a bug fix gone wrong
  would introduce) — not a blatant sabotage, not touching tests;
* breaks the property ONLY under something specific: a particular interleaving or order of operations, a multi-step
  sequence, an unusual input (ties, boundary sizes, empty collections, wrap-around), a failure at a particular point,
  or two cooperating sites that each look fine alone. Ordinary straightforward use must keep working;
* keeps the whole existing test suite green: run `cd {WT} && /venv/bin/python -m pytest -q -p no:cacheprovider --timeout=900 -x`
  (256 passed, 1 skipped on the unmodified tree, ~40 s) with the change applied and confirm;
* comes with a demonstration: a small standalone Python script `demo.py` (run with `cd {WT} && /venv/bin/python demo.py`,
  mesa is importable from the worktree because you run inside it — double check `mesa.__file__` starts with {WT}) that
  exits 0 and prints PASS on the unmodified tree and exits 1 and prints FAIL (with what went wrong) with the change applied.

Aim the three changes at *different* aspects of the property (different clauses / different code paths).

## Output layout (write exactly this)

For i in 1..3 create directory `{OUT}/{PID}-<i>/` containing
* `patch.diff`  — output of `git -C {WT} diff` for that change alone,
* `demo.py`     — the demonstration,
* `notes.md`    — 5-10 lines: what the change is, why it looks innocent, what exactly is needed for it to manifest, which clause
  of the property it breaks, and the pytest summary line you observed with the change applied.
After producing each change, restore the worktree with `git -C {WT} checkout -- .` (the worktree must be clean at the end).
NEVER use `git stash` (the stash is shared between worktrees of one repository and other engineers work in sibling worktrees);
use `git diff > file`, `git apply`, `git apply -R`, `git checkout -- .` only. Never delete or touch anything outside {WT} and
{OUT}/{PID}-*. Do not look at or use anything under /verif or /repo. No network is available.
Python: /venv/bin/python (for matplotlib use the Agg backend). Finish with a 10-line summary of the three changes.
