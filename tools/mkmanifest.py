#!/usr/bin/env python3
"""Merge manifest.d/*.json, known_findings.d/*.txt into MANIFEST.json / known_findings.txt.

manifest.d/Cxx.json:  {"property_id": "Cxx", "engine": "drv_x", "technique": "...", "level_text": "...",
                       "level_note": "...", "design_ref": "DESIGN.md §6 Cxx"}
Properties in properties.jsonl without a fragment are listed under not_applicable as "not built yet".
"""
import glob, json, os, re
V = os.path.dirname(os.path.dirname(os.path.abspath(__file__)))
props = [json.loads(l)["id"] for l in open(os.path.join(V, "properties.jsonl"))]
frags = {}
for p in sorted(glob.glob(os.path.join(V, "manifest.d", "C*.json"))):
    f = json.load(open(p)); frags[f["property_id"]] = f
BASE = "cd /repo && /venv/bin/python -m pytest -ra -q -p no:cacheprovider --timeout=900 --continue-on-collection-errors"
engines = {}
checks, na = [], []
for pid in props:
    f = frags.get(pid)
    if not f or f.get("not_applicable_reason"):
        na.append({"property_id": pid, "reason": (f or {}).get("not_applicable_reason", "check not built yet (planned in DESIGN.md §6); nothing is claimed for this property")})
        continue
    eng = f.get("engine", "lean")
    engines.setdefault(eng, []).append(pid)
    checks.append({
        "property_id": pid,
        "quick_cmd": f"./check {pid} --tier quick",
        "thorough_cmd": f"./check {pid} --tier thorough",
        "evidence_file": f"/verif/evidence/{pid}.json",
        "replay_cmd_template": f"./check {pid} --replay {{path}}",
        "engine": eng,
        "level_claimed": {"category": "proof", "text": f["level_text"], "design_ref": f.get("design_ref", f"DESIGN.md §6 {pid}")},
        "level_note": f["level_note"],
        "technique": f.get("technique", "Lean 4 theorems about an executable model + differential correspondence check against the implementation"),
    })
man = {
    "version": 1,
    "setup_cmd": "./setup.sh",
    "hooks": {"guard": "MESA_VERIF", "enable": "no hooks are needed: the harness observes mesa through its public API in-process (the guard name is reserved, no source commit uses it)",
              "baseline_off_cmd": BASE, "source_commits": [], "add_only": True},
    "engines": [{"name": e, "path": f"lean/Driver (lean_exe {e}) + lean/MesaModel", "serves_properties": ps,
                 "kind_free_text": "Lean 4 executable model + theorems; compiled line-protocol driver compared with real mesa by harness/"} for e, ps in sorted(engines.items())],
    "checks": checks,
    "notes": "Family: machine-checked proof in Lean 4. Each check rebuilds the Lean theorems (audited: no sorry, axioms within propext/Classical.choice/Quot.sound), regenerates tables from /repo where the model has a generated part, and runs a differential correspondence check of the hand-written executable model against /repo's working tree. See DESIGN.md, BUILDING.md, known_findings.txt.",
    "not_applicable": na,
}
json.dump(man, open(os.path.join(V, "MANIFEST.json"), "w"), indent=1)
lines = ["# known findings and repaired defects (see DESIGN.md §2/§5); merged from known_findings.d/ by tools/mkmanifest.py",
         "# open: property=Cxx <ID> <what fails>        -> check prints KNOWN-FINDING and exits 0",
         "# fixed: property=Cxx <commit> <ID> <what failed>   -> suppresses nothing; a regression is a VIOLATION"]
for p in sorted(glob.glob(os.path.join(V, "known_findings.d", "*.txt"))):
    for l in open(p):
        if l.strip() and not l.startswith("#"): lines.append(l.rstrip())
open(os.path.join(V, "known_findings.txt"), "w").write("\n".join(lines) + "\n")
print(f"MANIFEST.json: {len(checks)} checks, {len(na)} not_applicable; known_findings.txt: {len(lines)-3} entries")
