#!/bin/sh
# tools/try_patch.sh <patch.diff | -R:<commit>> Cxx [Cyy ...]   -- apply a change to /repo, run quick checks, undo it
p="$1"; shift
cd /repo || exit 2
if [ -n "$(git status --porcelain --untracked-files=no)" ]; then echo "repo dirty"; exit 2; fi
case "$p" in
  -R:*) git show "${p#-R:}" | git apply -R || exit 2;;
  *) git apply "$p" || exit 2;;
esac
cd /verif
for c in "$@"; do timeout 1200 ./check "$c" --tier "${TIER:-quick}" | tail -4; echo "exit=$?"; done
git -C /repo checkout -- . ; git -C /repo status --short --untracked-files=no
