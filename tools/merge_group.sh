#!/bin/sh
# tools/merge_group.sh <name>: merge branch w-<name> of /verif, cherry-pick its fix commits into /repo main, rewrite hashes
n="$1"
cd /verif || exit 2
[ -z "$(git status --porcelain)" ] || { echo "/verif dirty"; exit 2; }
git merge -q --no-edit "w-$n" || { echo "verif merge conflict"; exit 2; }
base=$(git -C /repo merge-base main "w-$n")
for c in $(git -C /repo log --reverse --format=%H "$base..w-$n"); do
  short=$(git -C /repo log -1 --format=%h "$c")
  if git -C /repo cherry-pick "$c" >/dev/null 2>&1; then
    new=$(git -C /repo log -1 --format=%h)
    echo "picked $short -> $new  $(git -C /repo log -1 --format=%s)"
    grep -rl "$short" known_findings.d design.d manifest.d corpus 2>/dev/null | xargs -r sed -i "s/$short/$new/g"
  else
    echo "CONFLICT cherry-picking $short: $(git -C /repo log -1 --format=%s $c)"; git -C /repo cherry-pick --abort; exit 2
  fi
done
python3 tools/mkmanifest.py | grep -v conda
