#!/bin/sh
# tools/merge_branch.sh <verif-branch> [<repo-branch>]: merge a framework branch into /verif main (evidence conflicts: theirs),
# cherry-pick the fix commits of the mesa branch into /repo main, rewrite the commit hashes quoted in the fragments, regenerate MANIFEST
vb="$1"; rb="${2:-$1}"
cd /verif || exit 2
[ -z "$(git status --porcelain)" ] || { echo "/verif dirty"; exit 2; }
if ! git merge -q --no-edit "$vb" >/dev/null 2>&1; then
  bad=$(git diff --name-only --diff-filter=U | grep -v '^evidence/' )
  [ -z "$bad" ] || { echo "verif merge conflict in: $bad"; exit 2; }
  git diff --name-only --diff-filter=U | xargs git checkout --theirs --
  git add evidence && git commit -q --no-edit || exit 2
fi
base=$(git -C /repo merge-base main "$rb")
for c in $(git -C /repo log --reverse --format=%H "$base..$rb"); do
  short=$(git -C /repo log -1 --format=%h "$c")
  if git -C /repo cherry-pick "$c" >/dev/null 2>&1; then
    new=$(git -C /repo log -1 --format=%h)
    echo "picked $short -> $new  $(git -C /repo log -1 --format=%s)"
    grep -rl "$short" known_findings.d design.d manifest.d corpus seeded 2>/dev/null | xargs -r sed -i "s/$short/$new/g"
  else
    echo "CONFLICT cherry-picking $short: $(git -C /repo log -1 --format=%s $c)"; git -C /repo cherry-pick --abort; exit 2
  fi
done
python3 tools/mkmanifest.py | grep -v conda
