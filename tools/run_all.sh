#!/bin/sh
# tools/run_all.sh [tier] [jobs]: every check of MANIFEST on /repo, <jobs> at a time; summary lines to stdout, logs in /root/runall/
tier="${1:-quick}"; jobs="${2:-4}"
mkdir -p /root/runall
cd /verif || exit 2
ls manifest.d | sed 's/\.json$//' | xargs -P "$jobs" -I{} sh -c 'timeout 3600 ./check {} --tier '"$tier"' > /root/runall/{}.'"$tier"'.log 2>&1; echo "{} exit $? $(tail -n 1 /root/runall/{}.'"$tier"'.log | cut -c1-200)"'
grep -l VIOLATION /root/runall/*.$tier.log 2>/dev/null
