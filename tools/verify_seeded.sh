#!/bin/sh
# tools/verify_seeded.sh [scratch worktree]  -- regression over every kept seeded change:
#   demo passes on the clean tree, fails with the patch; each check named in meta.detected_by prints a VIOLATION with the patch
#   applied to the mesa checkout (applied and undone one at a time).  Also runs seeded/harmless/*.diff: no check may raise an alarm.
# The mesa checkout is $MESA_REPO (default /repo) and must be a git checkout used by nobody else meanwhile; the framework is the
# directory this script lives in (so it also runs inside a `vp run --with-repo` snapshot: MESA_REPO=$VP_RUN_REPO).
# Prints one line per change; exit 1 if anything is off.  ONLY=<prefix> restricts to seeded ids with that prefix.
REPO="${MESA_REPO:-/repo}"; export MESA_REPO="$REPO"
cd "$(dirname "$0")/.." || exit 2
wt="${1:-/root/mut/wt-verify-$$}"
rm -rf "$wt"; mkdir -p "$wt" && git -C "$REPO" archive HEAD | tar -x -C "$wt" || exit 2
( cd "$wt" && git init -q && git add -A >/dev/null 2>&1 && git -c user.email=v@v -c user.name=v commit -qm base ) || exit 2
bad=0
for d in seeded/${ONLY:-}*/; do
  id=$(basename "$d"); [ -f "$d/meta.json" ] && [ -f "$d/patch.diff" ] || continue
  checks=$(/venv/bin/python -c "import json,sys; print(' '.join(json.load(open('$d/meta.json')).get('detected_by', [])))")
  [ -n "$checks" ] || continue
  git -C "$wt" checkout -q -- . ; cp "$d/demo.py" "$wt/_demo.py"
  ( cd "$wt" && MESA_WT="$wt" timeout 300 /venv/bin/python _demo.py >/dev/null 2>&1 ); dc=$?
  if ! git -C "$wt" apply "$PWD/$d/patch.diff" 2>/dev/null; then echo "$id: PATCH-DOES-NOT-APPLY"; bad=1; rm -f "$wt/_demo.py"; continue; fi
  ( cd "$wt" && MESA_WT="$wt" timeout 300 /venv/bin/python _demo.py >/dev/null 2>&1 ); dm=$?
  rm -f "$wt/_demo.py"; git -C "$wt" checkout -q -- .
  git -C "$REPO" apply "$PWD/$d/patch.diff" || { echo "$id: cannot apply to $REPO"; bad=1; continue; }
  res=""
  for c in $checks; do
    if timeout 1500 ./check "$c" --tier quick 2>/dev/null | grep -q "^VIOLATION property=$c"; then res="$res $c:caught"; else res="$res $c:MISSED"; bad=1; fi
  done
  git -C "$REPO" checkout -q -- .
  [ "$dc" = 0 ] && [ "$dm" != 0 ] || { res="$res demo(clean=$dc,mutated=$dm)!"; bad=1; }
  echo "$id:$res"
done
for p in seeded/harmless/*.diff; do
  [ -f "$p" ] || continue
  [ -z "${ONLY:-}" ] || continue
  checks=$(sed -n 's/^# checks: //p' "$p")
  untied=$(sed -n 's/^# untied: \([C0-9 ]*\).*/\1/p' "$p")
  git -C "$REPO" apply "$PWD/$p" || { echo "$(basename $p): cannot apply"; bad=1; continue; }
  res=""
  for c in $checks; do
    out=$(timeout 1500 ./check "$c" --tier quick 2>/dev/null); code=$?
    if [ $code -eq 0 ] && ! echo "$out" | grep -q "^VIOLATION"; then res="$res $c:quiet"
    elif echo " $untied " | grep -q " $c " && [ "$(echo "$out" | grep -c "^VIOLATION")" = "$(echo "$out" | grep -c "^VIOLATION.*no-failing-input-found$")" ]; then res="$res $c:untied(no-failing-input-found)"
    else res="$res $c:FALSE-ALARM(exit $code)"; bad=1; fi
  done
  git -C "$REPO" checkout -q -- .
  echo "harmless $(basename $p):$res"
done
git -C "$REPO" status --short --untracked-files=no
rm -rf "$wt"
exit $bad
