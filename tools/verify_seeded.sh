#!/bin/sh
# tools/verify_seeded.sh [scratch worktree]  -- regression over every kept seeded change:
#   demo passes on the clean tree, fails with the patch; each check named in meta.detected_by prints a VIOLATION with the patch
#   applied to /repo (applied and undone one at a time).  Also runs seeded/harmless/*.diff: no check may raise an alarm.
# Needs /repo exclusively (do not run other checks meanwhile).  Prints one line per change; exit 1 if anything is off.
wt="${1:-/root/mut/wt-verify}"
[ -d "$wt" ] || git -C /repo worktree add -q --detach "$wt" HEAD || exit 2
git -C "$wt" checkout -q --detach "$(git -C /repo rev-parse HEAD)" || exit 2
bad=0
cd /verif
for d in seeded/*/; do
  id=$(basename "$d"); [ -f "$d/meta.json" ] && [ -f "$d/patch.diff" ] || continue
  checks=$(/venv/bin/python -c "import json,sys; print(' '.join(json.load(open('$d/meta.json')).get('detected_by', [])))")
  [ -n "$checks" ] || continue
  git -C "$wt" checkout -q -- . ; cp "$d/demo.py" "$wt/_demo.py"
  ( cd "$wt" && timeout 300 /venv/bin/python _demo.py >/dev/null 2>&1 ); dc=$?
  if ! git -C "$wt" apply "$PWD/$d/patch.diff" 2>/dev/null; then echo "$id: PATCH-DOES-NOT-APPLY"; bad=1; rm -f "$wt/_demo.py"; continue; fi
  ( cd "$wt" && timeout 300 /venv/bin/python _demo.py >/dev/null 2>&1 ); dm=$?
  rm -f "$wt/_demo.py"; git -C "$wt" checkout -q -- .
  git -C /repo apply "$PWD/$d/patch.diff" || { echo "$id: cannot apply to /repo"; bad=1; continue; }
  res=""
  for c in $checks; do
    if timeout 1500 ./check "$c" --tier quick 2>/dev/null | grep -q "^VIOLATION property=$c"; then res="$res $c:caught"; else res="$res $c:MISSED"; bad=1; fi
  done
  git -C /repo checkout -q -- .
  [ "$dc" = 0 ] && [ "$dm" != 0 ] || { res="$res demo(clean=$dc,mutated=$dm)!"; bad=1; }
  echo "$id:$res"
done
for p in seeded/harmless/*.diff; do
  [ -f "$p" ] || continue
  checks=$(sed -n 's/^# checks: //p' "$p")
  git -C /repo apply "$PWD/$p" || { echo "$(basename $p): cannot apply"; bad=1; continue; }
  res=""
  for c in $checks; do
    out=$(timeout 1500 ./check "$c" --tier quick 2>/dev/null); code=$?
    if [ $code -eq 0 ] && ! echo "$out" | grep -q "^VIOLATION"; then res="$res $c:quiet"; else res="$res $c:FALSE-ALARM(exit $code)"; bad=1; fi
  done
  git -C /repo checkout -q -- .
  echo "harmless $(basename $p):$res"
done
git -C /repo status --short --untracked-files=no
exit $bad
